#include <algorithm>
#include <cstdio>
#include <functional>
#include <vector>
#include "corecel/math/Algorithms.hh"
int main(){
  long n=0, bad_sort=0, bad_part=0, bad_lb=0, bad_ub=0, bad_min=0, bad_lbl=0, bad_fs=0;
  for (int len=0; len<=8; ++len){ long total=1; for(int i=0;i<len;++i) total*=4;
    for (long code=0; code<total; ++code){ std::vector<int> v(len); long c=code; for(int i=0;i<len;++i){ v[i]=c%4; c/=4; } ++n;
      { auto a=v,b=v; std::sort(a.begin(),a.end()); celeritas::sort(b.begin(),b.end()); if(a!=b) ++bad_sort;
        a=v;b=v; std::sort(a.begin(),a.end(),std::greater<int>()); celeritas::sort(b.begin(),b.end(),std::greater<int>()); if(a!=b) ++bad_sort; }
      for (int piv=0; piv<4; ++piv){ auto b=v; auto pred=[piv](int x){return x<piv;}; auto it=celeritas::partition(b.begin(),b.end(),pred); long k=it-b.begin(); long expect=std::count_if(v.begin(),v.end(),pred);
        bool ok = (k==expect) && std::all_of(b.begin(),it,pred) && std::none_of(it,b.end(),pred); auto s1=b, s2=v; std::sort(s1.begin(),s1.end()); std::sort(s2.begin(),s2.end()); if(!ok || s1!=s2) ++bad_part; }
      { auto s=v; std::sort(s.begin(),s.end()); for(int q=-1;q<=4;++q){ if (celeritas::lower_bound(s.begin(),s.end(),q)!=std::lower_bound(s.begin(),s.end(),q)) ++bad_lb; if (celeritas::upper_bound(s.begin(),s.end(),q)!=std::upper_bound(s.begin(),s.end(),q)) ++bad_ub; if (celeritas::lower_bound_linear(s.begin(),s.end(),q)!=std::lower_bound(s.begin(),s.end(),q)) ++bad_lbl;
          auto f=celeritas::find_sorted(s.begin(),s.end(),q); auto lb=std::lower_bound(s.begin(),s.end(),q); auto ef=(lb!=s.end() && *lb==q)? lb : s.end(); if (f!=ef) ++bad_fs; } }
      if(len>0){ if (celeritas::min_element(v.begin(),v.end())!=std::min_element(v.begin(),v.end())) ++bad_min; }
    } }
  printf("n=%ld bad: sort=%ld partition=%ld lower=%ld upper=%ld lower_linear=%ld find_sorted=%ld min_element=%ld\n", n,bad_sort,bad_part,bad_lb,bad_ub,bad_lbl,bad_fs,bad_min); }
