#include <algorithm>
#include <cmath>
#include <cstdio>
#include <functional>
#include <random>
#include <vector>
#include "orange/surf/ConeAligned.hh"
#include "orange/surf/CylAligned.hh"
#include "orange/surf/CylCentered.hh"
#include "orange/surf/GeneralQuadric.hh"
#include "orange/surf/Plane.hh"
#include "orange/surf/PlaneAligned.hh"
#include "orange/surf/SimpleQuadric.hh"
#include "orange/surf/Sphere.hh"
#include "orange/surf/SphereCentered.hh"
using namespace celeritas; using LD=long double; using F=std::function<LD(LD,LD,LD)>;
std::mt19937_64 g(11); double U(double a,double b){ return std::uniform_real_distribution<>(a,b)(g);} double LU(double a,double b){ return std::exp(U(std::log(a),std::log(b))) * (g()&1?1:-1);} 
Real3 rdir(){ double z=U(-1,1), p=U(0,6.283185307179586); double s=std::sqrt(1-z*z); return make_unit_vector(Real3{s*std::cos(p), s*std::sin(p), z}); }
struct Stat{ long n=0, nontriv=0, bad_root=0, bad_sense=0, bad_normal=0, miss=0, extra=0; };
template<class S> void probe(char const* name, S const& s, F f, Stat& st){
  for(int k=0;k<40;++k){ Real3 p{LU(1e-2,30),LU(1e-2,30),LU(1e-2,30)}; Real3 d=rdir(); ++st.n;
    LD f0=f(p[0],p[1],p[2]), f1=f((LD)p[0]+d[0],(LD)p[1]+d[1],(LD)p[2]+d[2]), fm=f((LD)p[0]-d[0],(LD)p[1]-d[1],(LD)p[2]-d[2]);
    LD a=(f1+fm)/2-f0, b=(f1-fm)/2, c=f0; std::vector<LD> ref; LD scale=std::fabs((double)a)+std::fabs((double)b)+std::fabs((double)c);
    if (std::fabs((double)a) > 1e-12*scale){ LD disc=b*b-4*a*c; if(disc>0){ LD sq=std::sqrt(disc); LD q=-(b+(b>=0?sq:-sq))/2; LD r1=q/a, r2=(q!=0? c/q : (LD)0); for(LD r:{r1,r2}) if(r>0) ref.push_back(r);} }
    else if (b!=0){ LD r=-c/b; if(r>0) ref.push_back(r);} 
    std::sort(ref.begin(),ref.end());
    auto got_arr = s.calc_intersections(p,d,SurfaceState::off); std::vector<double> got; for(auto v: got_arr) if(v!=no_intersection()) got.push_back(v); std::sort(got.begin(),got.end());
    // sense
    if (std::fabs((double)f0) > 1e-9*(1+std::fabs((double)c))) { auto ss=s.calc_sense(p); int exp = f0>0?1:-1; if ((int)ss!=exp) ++st.bad_sense; }
    // conditioning: skip near tangent / near-degenerate
    LD disc=b*b-4*a*c; bool fuzzy = std::fabs((double)a)<=1e-6*scale || std::fabs((double)disc) < 1e-6*(double)(b*b+std::fabs((double)(4*a*c)));
    if (fuzzy) continue; if(!ref.empty()) ++st.nontriv;
    if (got.size()<ref.size()) ++st.miss; else if (got.size()>ref.size()) ++st.extra; else for(size_t i=0;i<ref.size();++i){ double tol=1e-7*(1+std::fabs((double)ref[i])); if(std::fabs(got[i]-(double)ref[i])>tol){ ++st.bad_root; if(st.bad_root<3) std::printf("  %s root mismatch got %.12g ref %.12Lg\n",name,got[i],ref[i]); } }
    // normal at crossing
    if(!got.empty()){ Real3 x=p; axpy(got[0],d,&x); Real3 n=s.calc_normal(x); double h=1e-6; LD gx=(f(x[0]+h,x[1],x[2])-f(x[0]-h,x[1],x[2]))/(2*h), gy=(f(x[0],x[1]+h,x[2])-f(x[0],x[1]-h,x[2]))/(2*h), gz=(f(x[0],x[1],x[2]+h)-f(x[0],x[1],x[2]-h))/(2*h); LD gn=std::sqrt(gx*gx+gy*gy+gz*gz); if(gn>0){ double dot=(n[0]*gx+n[1]*gy+n[2]*gz)/gn; if(std::fabs(dot-1)>1e-6) { ++st.bad_normal; if(st.bad_normal<3) std::printf("  %s normal dot=%g\n",name,dot);} } }
  } }
template<Axis T> void axes(int& u,int& v,int& w){ w=to_int(T); u=(w+1)%3; v=(w+2)%3; }
int main(){ std::vector<std::pair<const char*,Stat>> res; auto run=[&](char const* nm, auto mk){ Stat st; for(int i=0;i<3000;++i) mk(nm,st); std::printf("%-6s n=%ld nontriv=%ld bad_root=%ld miss=%ld extra=%ld bad_sense=%ld bad_normal=%ld\n",nm,st.n,st.nontriv,st.bad_root,st.miss,st.extra,st.bad_sense,st.bad_normal); };
  run("px",[&](auto nm,Stat& st){ double q=LU(1e-2,10); probe(nm,PlaneX(q),[=](LD x,LD,LD){return x-q;},st); });
  run("py",[&](auto nm,Stat& st){ double q=LU(1e-2,10); probe(nm,PlaneY(q),[=](LD,LD y,LD){return y-q;},st); });
  run("pz",[&](auto nm,Stat& st){ double q=LU(1e-2,10); probe(nm,PlaneZ(q),[=](LD,LD,LD z){return z-q;},st); });
  run("p",[&](auto nm,Stat& st){ Real3 n=rdir(); double q=LU(1e-2,10); probe(nm,Plane(n,q),[=](LD x,LD y,LD z){return n[0]*x+n[1]*y+n[2]*z-q;},st); });
  run("sc",[&](auto nm,Stat& st){ double r=std::fabs(LU(1e-1,20)); probe(nm,SphereCentered(r),[=](LD x,LD y,LD z){return x*x+y*y+z*z-(LD)r*r;},st); });
  run("s",[&](auto nm,Stat& st){ Real3 o{LU(1e-2,10),LU(1e-2,10),LU(1e-2,10)}; double r=std::fabs(LU(1e-1,20)); probe(nm,Sphere(o,r),[=](LD x,LD y,LD z){return (x-o[0])*(x-o[0])+(y-o[1])*(y-o[1])+(z-o[2])*(z-o[2])-(LD)r*r;},st); });
  run("cxc",[&](auto nm,Stat& st){ double r=std::fabs(LU(1e-1,20)); probe(nm,CCylX(r),[=](LD,LD y,LD z){return y*y+z*z-(LD)r*r;},st); });
  run("cyc",[&](auto nm,Stat& st){ double r=std::fabs(LU(1e-1,20)); probe(nm,CCylY(r),[=](LD x,LD,LD z){return x*x+z*z-(LD)r*r;},st); });
  run("czc",[&](auto nm,Stat& st){ double r=std::fabs(LU(1e-1,20)); probe(nm,CCylZ(r),[=](LD x,LD y,LD){return x*x+y*y-(LD)r*r;},st); });
  run("cx",[&](auto nm,Stat& st){ Real3 o{LU(1e-2,10),LU(1e-2,10),LU(1e-2,10)}; double r=std::fabs(LU(1e-1,20)); probe(nm,CylX(o,r),[=](LD,LD y,LD z){return (y-o[1])*(y-o[1])+(z-o[2])*(z-o[2])-(LD)r*r;},st); });
  run("cy",[&](auto nm,Stat& st){ Real3 o{LU(1e-2,10),LU(1e-2,10),LU(1e-2,10)}; double r=std::fabs(LU(1e-1,20)); probe(nm,CylY(o,r),[=](LD x,LD,LD z){return (x-o[0])*(x-o[0])+(z-o[2])*(z-o[2])-(LD)r*r;},st); });
  run("cz",[&](auto nm,Stat& st){ Real3 o{LU(1e-2,10),LU(1e-2,10),LU(1e-2,10)}; double r=std::fabs(LU(1e-1,20)); probe(nm,CylZ(o,r),[=](LD x,LD y,LD){return (x-o[0])*(x-o[0])+(y-o[1])*(y-o[1])-(LD)r*r;},st); });
  run("kx",[&](auto nm,Stat& st){ Real3 o{LU(1e-2,10),LU(1e-2,10),LU(1e-2,10)}; double t=std::fabs(LU(1e-1,5)); probe(nm,ConeX(o,t),[=](LD x,LD y,LD z){return (y-o[1])*(y-o[1])+(z-o[2])*(z-o[2])-(LD)t*t*(x-o[0])*(x-o[0]);},st); });
  run("ky",[&](auto nm,Stat& st){ Real3 o{LU(1e-2,10),LU(1e-2,10),LU(1e-2,10)}; double t=std::fabs(LU(1e-1,5)); probe(nm,ConeY(o,t),[=](LD x,LD y,LD z){return (x-o[0])*(x-o[0])+(z-o[2])*(z-o[2])-(LD)t*t*(y-o[1])*(y-o[1]);},st); });
  run("kz",[&](auto nm,Stat& st){ Real3 o{LU(1e-2,10),LU(1e-2,10),LU(1e-2,10)}; double t=std::fabs(LU(1e-1,5)); probe(nm,ConeZ(o,t),[=](LD x,LD y,LD z){return (x-o[0])*(x-o[0])+(y-o[1])*(y-o[1])-(LD)t*t*(z-o[2])*(z-o[2]);},st); });
  run("sq",[&](auto nm,Stat& st){ Real3 A{LU(1e-1,3),LU(1e-1,3),LU(1e-1,3)}, D{LU(1e-2,5),LU(1e-2,5),LU(1e-2,5)}; double G=LU(1e-1,30); probe(nm,SimpleQuadric(A,D,G),[=](LD x,LD y,LD z){return A[0]*x*x+A[1]*y*y+A[2]*z*z+D[0]*x+D[1]*y+D[2]*z+G;},st); });
  run("gq",[&](auto nm,Stat& st){ Real3 A{LU(1e-1,3),LU(1e-1,3),LU(1e-1,3)}, D{LU(1e-2,2),LU(1e-2,2),LU(1e-2,2)}, Gh{LU(1e-2,5),LU(1e-2,5),LU(1e-2,5)}; double J=LU(1e-1,30); probe(nm,GeneralQuadric(A,D,Gh,J),[=](LD x,LD y,LD z){return A[0]*x*x+A[1]*y*y+A[2]*z*z+D[0]*x*y+D[1]*y*z+D[2]*z*x+Gh[0]*x+Gh[1]*y+Gh[2]*z+J;},st); });
}
