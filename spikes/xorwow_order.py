import sys
N=160
primes=[3,5,11,17,31,41,257,61681,65537,414721,4278255361,44479210368001]
M=2**160-1
p=1
for q in primes: p*=q
print("product check:", M == p*5, M % (p*5), [M%q for q in primes])
MASK=0xffffffff
def nxt(s):
    s=list(s)
    t=(s[0]^(s[0]>>2))&MASK
    s[0]=s[1];s[1]=s[2];s[2]=s[3];s[3]=s[4]
    s[4]=((s[4]^((s[4]<<4)&MASK))^(t^((t<<1)&MASK)))&MASK
    return s
def pack(s): return s[0]|(s[1]<<32)|(s[2]<<64)|(s[3]<<96)|(s[4]<<128)
def unpack(v): return [(v>>(32*i))&MASK for i in range(5)]
# columns of T: image of basis vectors
cols=[pack(nxt(unpack(1<<i))) for i in range(N)]
def apply(cols,v):
    r=0;i=0
    while v:
        if v&1: r^=cols[i]
        v>>=1;i+=1
    return r
def mul(A,B): # A*B: columns of result = A applied to columns of B
    return [apply(A,c) for c in B]
def power(A,e):
    R=[1<<i for i in range(N)]
    while e:
        if e&1: R=mul(A,R)
        A=mul(A,A); e>>=1
    return R
I=[1<<i for i in range(N)]
print("T^(2^160-1)==I:", power(cols,M)==I)
for q in primes:
    print(q, "T^(M/q)==I:", power(cols,M//q)==I)
