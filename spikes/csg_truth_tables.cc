#include <cstdio>
#include <random>
#include <variant>
#include <vector>
#include "orange/orangeinp/CsgTree.hh"
#include "orange/orangeinp/CsgTreeUtils.hh"
#include "orange/orangeinp/detail/PostfixLogicBuilder.hh"
#include "orange/orangeinp/detail/InternalSurfaceFlagger.hh"
#include "orange/univ/detail/LogicEvaluator.hh"
using namespace celeritas; using namespace celeritas::orangeinp;
static bool eval(CsgTree const& t, NodeId n, unsigned assign){
  return std::visit([&](auto const& node)->bool{ using T=std::decay_t<decltype(node)>;
    if constexpr(std::is_same_v<T,True>) return true; else if constexpr(std::is_same_v<T,False>) return false;
    else if constexpr(std::is_same_v<T,Aliased>) return eval(t,node.node,assign);
    else if constexpr(std::is_same_v<T,Negated>) return !eval(t,node.node,assign);
    else if constexpr(std::is_same_v<T,Surface>) return (assign>>node.id.get())&1u;
    else { bool r = node.op==op_and; for(auto c: node.nodes){ bool v=eval(t,c,assign); if(node.op==op_and) r=r&&v; else r=r||v;} return r; } }, t[n]); }
int main(int argc,char**argv){ std::mt19937 g(argc>1?atoi(argv[1]):1); long trees=0, bad_simpl=0, bad_dm=0, bad_pf=0, bad_flag=0, nontriv=0; int const NS=6;
  for(int it=0; it<20000; ++it){ CsgTree t; std::vector<NodeId> ids; auto pick=[&]{return ids[g()%ids.size()];};
    for(int s=0;s<NS;++s) ids.push_back(t.insert(LocalSurfaceId(s)).first);
    int ops=3+g()%14; for(int k=0;k<ops;++k){ unsigned op=g()%3; NodeId r; if(op==0) r=t.insert(Negated{pick()}).first; else { Joined j{op==1?op_and:op_or,{}}; int m=2+g()%3; for(int q=0;q<m;++q) j.nodes.push_back(pick()); std::sort(j.nodes.begin(),j.nodes.end()); r=t.insert(std::move(j)).first;} ids.push_back(r);} 
    int nv=1+g()%3; std::vector<NodeId> vols; for(int v=0;v<nv;++v){ NodeId n=ids[ids.size()-1-(g()%std::min<size_t>(4,ids.size()))]; vols.push_back(n); t.insert_volume(n);} ++trees;
    std::vector<std::vector<bool>> tt(nv); for(int v=0;v<nv;++v) for(unsigned a=0;a<(1u<<NS);++a) tt[v].push_back(eval(t,vols[v],a));
    // postfix on original
    try { orangeinp::detail::PostfixLogicBuilder build(t); for(int v=0;v<nv;++v){ auto [faces,logic]=build(vols[v]); if (logic.empty()) continue; bool bad=false; for(unsigned a=0;a<(1u<<NS)&&!bad;++a){ std::vector<Sense> senses(faces.size()); for(size_t f=0;f<faces.size();++f) senses[f]=to_sense(bool((a>>faces[f].get())&1u)); bool r=celeritas::detail::LogicEvaluator(make_span(logic))(make_span(senses)); if(r!=tt[v][a]) bad=true;} if(bad) ++bad_pf; } } catch(std::exception const& e){ std::printf("postfix exc: %s\n", e.what()); }
    // internal surface flag on original
    { orangeinp::detail::InternalSurfaceFlagger flag(t); for(int v=0;v<nv;++v){ bool internal=false; try{ internal=flag(vols[v]); }catch(...){ continue; } if(!internal){ bool bad=false; for(unsigned a=0;a<(1u<<NS)&&!bad;++a) if(tt[v][a]) for(int s=0;s<NS;++s) if(eval(t,vols[v],a^(1u<<s)) ) { /* flipping s keeps inside: allowed only if function doesn't depend on s */ bool dep=false; for(unsigned b=0;b<(1u<<NS);++b) if(eval(t,vols[v],b)!=eval(t,vols[v],b^(1u<<s))) {dep=true;break;} if(dep) bad=true; } if(bad) ++bad_flag; } } }
    // simplify
    CsgTree ts=t; try{ simplify(&ts, NodeId{2}); }catch(std::exception const& e){ std::printf("simplify exc: %s\n", e.what()); continue; }
    bool nt=false; for(int v=0;v<nv;++v){ for(unsigned a=0;a<(1u<<NS);++a){ if(eval(ts,ts.volumes()[v],a)!=tt[v][a]){ ++bad_simpl; goto nexts; } } } nexts:;
    // demorgan on simplified
    try{ CsgTree td=transform_negated_joins(ts); for(int v=0;v<nv;++v){ for(unsigned a=0;a<(1u<<NS);++a){ if(eval(td,td.volumes()[v],a)!=tt[v][a]){ ++bad_dm; goto nextd; } } } nextd:; }catch(std::exception const& e){ static int c=0; if(c++<3) std::printf("demorgan exc: %s\n", e.what()); }
    (void)nt; ++nontriv; }
  std::printf("trees=%ld bad: simplify=%ld demorgan=%ld postfix=%ld simpleflag=%ld\n", trees,bad_simpl,bad_dm,bad_pf,bad_flag); }
