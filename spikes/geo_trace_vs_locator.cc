// Prototype: navigator-guided comparison of OrangeTrackView traces against an independent point locator
#include <cmath>
#include <cstdio>
#include <fstream>
#include <random>
#include <variant>
#include <nlohmann/json.hpp>
#include "corecel/data/CollectionStateStore.hh"
#include "corecel/io/Logger.hh"
#include "corecel/math/ArrayUtils.hh"
#include "orange/OrangeInput.hh"
#include "orange/OrangeInputIO.json.hh"
#include "orange/OrangeParams.hh"
#include "orange/OrangeTrackView.hh"
#include "orange/transform/VariantTransform.hh"
using namespace celeritas;
struct Loc { std::vector<std::pair<int,int>> path; bool ambiguous=false; bool operator==(Loc const& o) const { return path==o.path; } };
static OrangeInput const* G;
static double DELTA = 1e-6;
static bool eval_logic(std::vector<logic_int> const& lg, std::vector<bool> const& s){ std::vector<bool> st; for(auto t: lg){ if(!logic::is_operator_token(t)) st.push_back(s[t]); else if(t==logic::ltrue) st.push_back(true); else if(t==logic::lnot){ st.back()=!st.back(); } else { bool b=st.back(); st.pop_back(); bool a=st.back(); st.back() = (t==logic::land)? (a&&b):(a||b);} } return st.back(); }
static Real3 down(VariantTransform const& vt, Real3 const& x){ return std::visit([&](auto const& t){ return t.transform_down(x); }, vt); }
static void locate(int uid, Real3 x, Loc& out){
  auto const& uv = G->universes[uid];
  if (auto* u = std::get_if<UnitInput>(&uv)){
    std::vector<int> sense(u->surfaces.size());
    for(size_t i=0;i<u->surfaces.size();++i){ std::visit([&](auto const& s){ auto ss=s.calc_sense(x); Real3 n=s.calc_normal(x); (void)n; sense[i]=(int)ss; 
        // near-surface detection: move +-DELTA along normal and see if the sense flips
        Real3 a=x,b=x; axpy(DELTA,n,&a); axpy(-DELTA,n,&b); if ((int)s.calc_sense(a)!=(int)s.calc_sense(b)) out.ambiguous=true; }, u->surfaces[i]); }
    int found=-1, bg=-1; 
    for(size_t v=0; v<u->volumes.size(); ++v){ auto const& vol=u->volumes[v]; if(vol.zorder==ZOrder::background){ bg=v; continue;} if (uid!=0 && (vol.zorder==ZOrder::implicit_exterior)) continue; if ((vol.flags & VolumeRecord::implicit_vol) && uid!=0) continue;
      std::vector<bool> fs(vol.faces.size()); for(size_t f=0;f<vol.faces.size();++f) fs[f]= sense[vol.faces[f].get()]>=0; if(vol.logic.empty()) continue; if(eval_logic(vol.logic,fs)){ if(found>=0){ out.ambiguous=true; } else found=v; } }
    if(found<0) found=bg; out.path.push_back({uid,found}); if(found<0){ return; }
    auto it=u->daughter_map.find(LocalVolumeId(found)); if(it!=u->daughter_map.end()){ locate(it->second.universe_id.get(), down(it->second.transform,x), out);} }
  else { auto const& r=std::get<RectArrayInput>(uv); int idx[3]; for(int ax=0;ax<3;++ax){ auto const& gr=r.grid[ax]; if(x[ax]<gr.front()||x[ax]>gr.back()){ out.path.push_back({uid,-1}); return;} int i=0; while(i+2<(int)gr.size() && x[ax]>=gr[i+1]) ++i; idx[ax]=i; for(double gp: gr) if(std::fabs(x[ax]-gp)<DELTA) out.ambiguous=true; }
    int ny=r.grid[1].size()-1, nz=r.grid[2].size()-1; int cell=(idx[0]*ny+idx[1])*nz+idx[2]; out.path.push_back({uid,cell}); auto const& d=r.daughters[cell]; locate(d.universe_id.get(), down(d.transform,x), out); } }
int main(int argc,char**argv){ std::ifstream is(argv[1]); OrangeInput inp; nlohmann::json::parse(is).get_to(inp); OrangeInput copy=inp; G=&copy; OrangeParams params(std::move(inp));
  BBox bb=params.bbox(); Real3 lo=bb.lower(), hi=bb.upper(); double scale=0; for(int i=0;i<3;++i) scale=std::max({scale,std::fabs(lo[i]),std::fabs(hi[i])}); DELTA=1e-7*scale;
  CollectionStateStore<OrangeStateData, MemSpace::host> st(params.host_ref(), 1); OrangeTrackView tv(params.host_ref(), st.ref(), TrackSlotId{0});
  std::mt19937_64 g(argc>2?atoi(argv[2]):1); auto U=[&](double a,double b){ return std::uniform_real_distribution<>(a,b)(g);}; int nray=argc>3?atoi(argv[3]):2000;
  long rays=0, segs=0, checks=0, ambiguous=0, mismatch=0, initfail=0, crossfail=0, nonterm=0; 
  // map oracle leaf -> global volume id label via params: compare labels of leaf volume by name: navigator's volume_id label vs oracle leaf (universe label, volume label)
  auto oracle_label=[&](Loc const& l)->std::string{ if(l.path.empty()) return "?"; auto [u,v]=l.path.back(); if(v<0) return "[none]"; auto const& uv=G->universes[u]; if(auto* un=std::get_if<UnitInput>(&uv)){ Label lab=un->volumes[v].label; if(lab.ext.empty()) lab.ext=un->label.name; return lab.name+"@"+lab.ext; } return "[array]"; };
  for(int r=0;r<nray;++r){ Real3 p{U(lo[0],hi[0]),U(lo[1],hi[1]),U(lo[2],hi[2])}; double z=U(-1,1), ph=U(0,6.283185307179586); double s=std::sqrt(1-z*z); Real3 d=make_unit_vector(Real3{s*std::cos(ph),s*std::sin(ph),z}); if(r%5==0){ d=Real3{0,0,0}; d[r%3]=(r%2?1:-1);} 
    Loc l0; locate(0,p,l0); if(l0.ambiguous) { ++ambiguous; continue; }
    tv = GeoTrackInitializer{p,d}; if(tv.failed()){ ++initfail; continue;} ++rays; double t=0; int ncross=0;
    while(!tv.is_outside()){ auto nx=tv.find_next_step(); std::string navlab = [&]{ auto lab=params.id_to_label(tv.volume_id()); return lab.name+"@"+lab.ext; }(); ++segs;
      // sample points in (t, t+dist)
      for(double f: {0.5, U(0.02,0.98), U(0.02,0.98)}){ if(!(nx.distance<1e300)) break; double tt=t+f*nx.distance; Real3 x=p; axpy(tt,d,&x); Loc l; locate(0,x,l); ++checks; if(l.ambiguous){ ++ambiguous; continue;} if(oracle_label(l)!=navlab){ if(mismatch<5) std::printf("MISMATCH ray %d t=%.9g nav=%s oracle=%s seg=[%.9g,%.9g]\n", r, tt, navlab.c_str(), oracle_label(l).c_str(), t, t+nx.distance); ++mismatch; } }
      if(!nx.boundary){ ++nonterm; break; } tv.move_to_boundary(); t+=nx.distance; tv.cross_boundary(); if(tv.failed()){ ++crossfail; break;} if(++ncross>10000){ ++nonterm; break; } }
  }
  std::printf("%s: rays=%ld segs=%ld checks=%ld ambiguous=%ld MISMATCH=%ld initfail=%ld crossfail=%ld nonterm=%ld\n", argv[1], rays,segs,checks,ambiguous,mismatch,initfail,crossfail,nonterm); }
