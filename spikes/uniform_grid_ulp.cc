#include <cmath>
#include <cstdio>
#include <random>
#include "corecel/grid/UniformGrid.hh"
#include "corecel/grid/UniformGridData.hh"
using namespace celeritas;
int main(){
  std::mt19937_64 rng(1); long bad_hi=0, bad_lo=0, oob=0, n=0;
  for (int it=0; it<200000; ++it){
    double lo = std::log(std::pow(10., std::uniform_real_distribution<>(-6,2)(rng)));
    double hi = lo + std::uniform_real_distribution<>(0.1, 30)(rng);
    unsigned size = 2 + rng()%200;
    auto d = UniformGridData::from_bounds(lo, hi, size);
    UniformGrid g(d);
    for (unsigned k=0;k<size;++k){
      double knot = g[k];
      for (double v : {std::nextafter(knot,-INFINITY), knot, std::nextafter(knot, INFINITY)}){
        if (!(v >= g.front() && v < g.back())) continue;
        ++n;
        auto bin = static_cast<unsigned>((v - d.front)/d.delta);
        if (bin + 1 >= size) { ++oob; continue; }
        if (g[bin] > v) ++bad_lo;
        if (!(v < g[bin+1])) ++bad_hi;
      }
    }
  }
  printf("n=%ld oob=%ld lower>v=%ld v>=upper=%ld\n", n, oob, bad_lo, bad_hi);
}
