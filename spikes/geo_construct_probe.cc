#include <chrono>
#include <cstdio>
#include <memory>
#include "corecel/data/CollectionStateStore.hh"
#include "corecel/math/ArrayUtils.hh"
#include "orange/MatrixUtils.hh"
#include "orange/OrangeInput.hh"
#include "orange/OrangeParams.hh"
#include "orange/OrangeTrackView.hh"
#include "orange/orangeinp/CsgObject.hh"
#include "orange/orangeinp/InputBuilder.hh"
#include "orange/orangeinp/Shape.hh"
#include "orange/orangeinp/Solid.hh"
#include "orange/orangeinp/Transformed.hh"
#include "orange/orangeinp/UnitProto.hh"
#include "orange/transform/Transformation.hh"
using namespace celeritas; using namespace celeritas::orangeinp;
using SPO = std::shared_ptr<ObjectInterface const>;
template<class CR, class... A> SPO shape(std::string l, A&&... a){ return std::make_shared<Shape<CR>>(std::move(l), CR{std::forward<A>(a)...}); }
int main(){
  auto t0=std::chrono::steady_clock::now();
  // daughter unit: sphere boundary, cone + background
  auto dsph = shape<orangeinp::Sphere>("dbound", 3.0);
  UnitProto::Input di; di.label="daughter"; di.boundary.interior=dsph; di.boundary.zorder=ZOrder::media;
  auto cone = shape<orangeinp::Cone>("cone", Real2{0.5,1.5}, 1.0);
  di.materials.push_back({cone, GeoMaterialId{1}, Label{"dcone"}});
  di.materials.push_back({make_subtraction("drest", dsph, cone), GeoMaterialId{2}, Label{"drest"}});
  auto dproto = std::make_shared<UnitProto>(std::move(di));
  // global
  auto world = shape<orangeinp::Box>("world", Real3{10,10,10});
  auto s1 = std::make_shared<Transformed>(shape<orangeinp::Cylinder>("cyl", 2.0, 4.0), Transformation{make_rotation(Axis::x, Turn{0.1}), Real3{-4,0,0}});
  auto s2 = std::make_shared<Transformed>(shape<orangeinp::Ellipsoid>("ell", Real3{3,2,1}), Translation{Real3{-3,1,0}});
  UnitProto::Input gi; gi.label="global"; gi.boundary.interior=world; gi.boundary.zorder=ZOrder::media;
  UnitProto::DaughterInput dd; dd.fill=dproto; dd.transform=Transformation{make_rotation(Axis::z, Turn{0.125}), Real3{4,2,1}};
  gi.daughters.push_back(dd);
  auto dint = dd.make_interior();
  gi.materials.push_back({make_subtraction("v1", s1, dint), GeoMaterialId{3}, Label{"v1"}});
  auto notprev = std::make_shared<AnyObjects>("prev", std::vector<SPO>{s1, dint});
  gi.materials.push_back({make_subtraction("v2", s2, notprev), GeoMaterialId{4}, Label{"v2"}});
  gi.background.fill=GeoMaterialId{5}; gi.background.label=Label{"bg"};
  UnitProto gproto(std::move(gi));
  InputBuilder::Options o; o.tol = Tolerance<>::from_default(); OrangeInput inp = InputBuilder{std::move(o)}(gproto);
  OrangeParams params(std::move(inp));
  auto t1=std::chrono::steady_clock::now();
  std::printf("built in %.1f ms; %u volumes, %u surfaces, depth %u\n", std::chrono::duration<double,std::milli>(t1-t0).count(), params.num_volumes(), params.num_surfaces(), params.max_depth());
  for (auto v: range(VolumeId{params.num_volumes()})) std::printf("  %u %s@%s\n", v.get(), params.id_to_label(v).name.c_str(), params.id_to_label(v).ext.c_str());
  CollectionStateStore<OrangeStateData, MemSpace::host> st(params.host_ref(), 1);
  OrangeTrackView tv(params.host_ref(), st.ref(), TrackSlotId{0});
  for (Real3 p : {Real3{-4,0,0}, Real3{-1.5,1,0}, Real3{4,2,1}, Real3{4,2,3.5}, Real3{8,-8,8}, Real3{4.0,2.0,1.9}}){
    tv = GeoTrackInitializer{p, Real3{0,0,1}};
    auto next = tv.find_next_step();
    std::printf("  (%g,%g,%g) -> %s  level=%u next=%g\n", p[0],p[1],p[2], tv.is_outside()?"[outside]":params.id_to_label(tv.volume_id()).name.c_str(), tv.level().get(), next.distance);
  }
}
