#include <cstdio>
#include <random>
#include "celeritas/random/distribution/PoissonDistribution.hh"
using namespace celeritas;
int main(){ std::mt19937 g(7); for(double lam: {16.0001, 16.5, 20.0, 30.0}){ PoissonDistribution<double> d(lam); long N=20000000, huge=0; unsigned ex=0; for(long i=0;i<N;++i){ unsigned k=d(g); if(k>100000){ ++huge; ex=k; } } std::printf("lambda=%g N=%ld samples>1e5: %ld (e.g. %u)\n",lam,N,huge,ex);} }
