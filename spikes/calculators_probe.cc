#include <cmath>
#include <cstdio>
#include <random>
#include <vector>
#include "corecel/data/Collection.hh"
#include "corecel/data/CollectionBuilder.hh"
#include "celeritas/grid/XsCalculator.hh"
#include "celeritas/grid/RangeCalculator.hh"
#include "celeritas/grid/InverseRangeCalculator.hh"
#include "celeritas/grid/XsGridData.hh"
#include "celeritas/Quantities.hh"
using namespace celeritas;
int main(){ std::mt19937_64 g(3); auto U=[&](double a,double b){return std::uniform_real_distribution<>(a,b)(g);};
 long n=0,bad_knot=0,bad_between=0,bad_cont=0,bad_rt=0,bad_mono=0,nanv=0;
 for(int it=0;it<20000;++it){ int size=2+g()%40; double emin=std::pow(10.,U(-5,-1)), emax=emin*std::pow(10.,U(0.5,8));
   Collection<real_type,Ownership::value,MemSpace::host> reals; auto b=make_builder(&reals); std::vector<double> ys(size), E(size);
   bool range_mode = it%2; double acc=U(1e-6,1e-2); for(int i=0;i<size;++i){ E[i]=std::exp(std::log(emin)+(std::log(emax)-std::log(emin))*i/(size-1)); if(range_mode){ acc+= U(0.0,1.0)*E[i]; ys[i]=acc; } else ys[i]=std::pow(10.,U(-3,3)); }
   XsGridData d; d.log_energy=UniformGridData::from_bounds(std::log(emin),std::log(emax),size); int prime = range_mode? -1 : (g()%3==0? -1 : int(g()%size)); d.prime_index = prime<0? XsGridData::no_scaling(): prime;
   std::vector<double> stored=ys; if(prime>=0) for(int i=prime;i<size;++i) stored[i]*=std::exp(d.log_energy.front+d.log_energy.delta*i);
   d.value=b.insert_back(stored.begin(),stored.end()); Collection<real_type,Ownership::const_reference,MemSpace::host> ref; ref=reals;
   UniformGrid ug(d.log_energy);
   if(!range_mode){ XsCalculator calc(d,ref); for(int i=0;i<size;++i){ double ek=std::exp(ug[i]); for(double e:{std::nextafter(ek,0.0),ek,std::nextafter(ek,1e300), ek*(1+U(0,1)*(i+1<size? (std::exp(ug[i+1])/ek-1):0.5))}){ if(!(e>0)) continue; ++n; double v=calc(units::MevEnergy{e}); if(!(v==v)||v<0||std::isinf(v)){ ++nanv; continue;} 
         // reference
         double le=std::log(e); double refv; if(le<=ug.front()) refv=ys[0]* ((prime==0)? std::exp(ug[0])/e:1); else if(le>=ug.back()) refv=ys[size-1]*((prime>=0)? std::exp(ug[size-1])/e:1);
         else { int k=0; while(k+2<size && e>=std::exp(ug[k+1])) ++k; double e0=std::exp(ug[k]), e1=std::exp(ug[k+1]); double lo=std::min(ys[k],ys[k+1]), hi=std::max(ys[k],ys[k+1]); double tol=1e-9*hi; bool scaled = prime>=0 && k>=prime; if(!scaled){ if(v<lo-tol||v>hi+tol){ ++bad_between; if(bad_between<4) std::printf("between: size=%d prime=%d k=%d e=%.17g [%.17g,%.17g] v=%.17g\n",size,prime,k,e,ys[k],ys[k+1],v);} } else { double sv=v*e; double slo=std::min(ys[k]*e0,ys[k+1]*e1), shi=std::max(ys[k]*e0,ys[k+1]*e1); if(sv<slo-1e-9*shi||sv>shi+1e-9*shi){ ++bad_between; if(bad_between<4) std::printf("between(scaled): size=%d prime=%d k=%d e=%.17g v*e=%.17g [%.17g,%.17g]\n",size,prime,k,e,sv,ys[k]*e0,ys[k+1]*e1);} } continue; }
         (void)refv; }
       // knot value
       double vk=calc(units::MevEnergy{ek}); if(std::fabs(vk-ys[i])>1e-9*std::fabs(ys[i])){ ++bad_knot; if(bad_knot<4) std::printf("knot: size=%d prime=%d i=%d got %.12g want %.12g\n",size,prime,i,vk,ys[i]); }
       double vm=calc(units::MevEnergy{std::nextafter(ek,0.0)}), vp=calc(units::MevEnergy{std::nextafter(ek,1e300)}); if(std::fabs(vm-vp)>1e-9*std::max(std::fabs(vm),std::fabs(vp))){ ++bad_cont; if(bad_cont<4) std::printf("cont: size=%d prime=%d i=%d vm=%.12g vp=%.12g\n",size,prime,i,vm,vp);} } }
   else { RangeCalculator rc(d,ref); InverseRangeCalculator irc(d,ref); double prev=-1; for(int q=0;q<60;++q){ double e=emin*0.01*std::pow(emax/emin*100, q/59.0); double r=rc(units::MevEnergy{e}); ++n; if(!(r>=prev)) { ++bad_mono; if(bad_mono<4) std::printf("mono: e=%g r=%g prev=%g\n",e,r,prev);} prev=r; if(e<emax && r<=ys[size-1]){ double e2=irc(r).value(); if(std::fabs(e2-e)>1e-8*e){ ++bad_rt; if(bad_rt<4) std::printf("roundtrip: size=%d e=%.12g r=%.12g e2=%.12g emin=%g\n",size,e,r,e2,emin);} } } }
 }
 std::printf("n=%ld bad: knot=%ld between=%ld cont=%ld roundtrip=%ld mono=%ld nan/neg=%ld\n",n,bad_knot,bad_between,bad_cont,bad_rt,bad_mono,nanv); }
