// Feasibility spike: synthetic ImportData -> CoreParams -> Stepper + StepCollector
#include <cmath>
#include <cstdlib>
#include <cstring>
#include <array>
#include <algorithm>
#include <exception>
#include <cstdio>
#include <map>
#include <memory>
#include <vector>

#include "corecel/io/Logger.hh"
#include "corecel/io/OutputRegistry.hh"
#include "corecel/sys/ActionRegistry.hh"
#include "corecel/data/AuxParamsRegistry.hh"
#include "celeritas/Constants.hh"
#include "celeritas/Units.hh"
#include "celeritas/em/params/UrbanMscParams.hh"
#include "celeritas/em/params/WentzelOKVIParams.hh"
#include "celeritas/geo/GeoMaterialParams.hh"
#include "celeritas/geo/GeoParams.hh"
#include "celeritas/global/CoreParams.hh"
#include "celeritas/global/Stepper.hh"
#include "celeritas/global/alongstep/AlongStepGeneralLinearAction.hh"
#include "celeritas/io/ImportData.hh"
#include "celeritas/mat/MaterialParams.hh"
#include "celeritas/phys/CutoffParams.hh"
#include "celeritas/phys/PDGNumber.hh"
#include "celeritas/phys/ParticleParams.hh"
#include "celeritas/phys/PhysicsParams.hh"
#include "celeritas/phys/Primary.hh"
#include "celeritas/phys/ProcessBuilder.hh"
#include "celeritas/random/RngParams.hh"
#include "celeritas/track/SimParams.hh"
#include "celeritas/track/TrackInitParams.hh"
#include "celeritas/user/StepCollector.hh"
#include "celeritas/user/StepInterface.hh"
#include "celeritas/user/StepData.hh"

using namespace celeritas;

static std::vector<double> loggrid(double lo, double hi, int n)
{
    std::vector<double> r(n);
    for (int i = 0; i < n; ++i)
        r[i] = std::exp(std::log(lo) + (std::log(hi) - std::log(lo)) * i / (n - 1));
    r.front() = lo;
    r.back() = hi;
    return r;
}

struct Rec; static Rec* g_rec=nullptr;
struct Rec final : StepInterface
{
    std::map<unsigned,std::array<double,5>> last;
    double edep = 0, eout = 0;
    long nsteps = 0; double maxdev = 0; unsigned long long h = 0; unsigned long long hs = 0;
    std::map<unsigned, int> ntrk;
    Filters filters() const final { return {}; }
    StepSelection selection() const final { return StepSelection::all(); }
    void process_steps(HostStepState s) final
    {
        auto const& d = s.steps.data;
        for (auto i : range(TrackSlotId{s.steps.size()}))
        {
            if (!d.track_id[i])
                continue;
            ++nsteps; { auto const& dd=d.points[StepPoint::post].dir[i]; last[d.track_id[i].get()] = {d.points[StepPoint::post].energy[i].value(), dd[0],dd[1],dd[2], (double)d.track_step_count[i]}; }
            {
                auto mix=[](unsigned long long x){ x^=x>>33; x*=0xff51afd7ed558ccdULL; x^=x>>33; x*=0xc4ceb9fe1a85ec53ULL; x^=x>>33; return x; };
                auto bits=[](double v){ unsigned long long u; std::memcpy(&u,&v,8); return u; };
                unsigned long long r = mix(d.track_id[i].get()*1000003ULL + d.track_step_count[i]);
                r = mix(r ^ bits(d.points[StepPoint::post].energy[i].value()));
                r = mix(r ^ bits(d.points[StepPoint::post].pos[i][0]) ^ mix(bits(d.points[StepPoint::post].pos[i][2])));
                r = mix(r ^ bits(d.energy_deposition[i].value()) ^ mix(bits(d.step_length[i])));
                { auto const& dd = d.points[StepPoint::post].dir[i]; double nn = std::sqrt(dd[0]*dd[0]+dd[1]*dd[1]+dd[2]*dd[2]); maxdev = std::max(maxdev, std::fabs(nn-1)); }
                h += r;  // order independent
                hs += mix(r ^ i.get()); // includes slot
            }
            edep += d.energy_deposition[i].value();
            if (!d.points[StepPoint::post].volume_id[i])
                eout += d.points[StepPoint::post].energy[i].value();
        }
    }
    void process_steps(DeviceStepState) final {}
};

static void print_nested(std::exception const& e, int lvl=0){ std::fprintf(stderr, "%*s%s\n", lvl*2, "", e.what()); try { std::rethrow_if_nested(e);} catch(std::exception const& n){ print_nested(n,lvl+1);} catch(...){} }
int real_main(int argc, char** argv);
int main(int argc, char** argv){ try { return real_main(argc, argv);} catch(std::exception const& e){ print_nested(e); if(g_rec) for(auto& kv: g_rec->last) std::fprintf(stderr,"trk %u E=%.17g dir=(%.17g,%.17g,%.17g) |d|-1=%.3e step#%g\n", kv.first, kv.second[0], kv.second[1],kv.second[2],kv.second[3], std::sqrt(kv.second[1]*kv.second[1]+kv.second[2]*kv.second[2]+kv.second[3]*kv.second[3])-1, kv.second[4]); return 3; } }
int real_main(int argc, char** argv)
{
    char const* geofile = argc > 1 ? argv[1] : "/repo/test/geocel/data/two-boxes.org.json";
    constexpr double me = 0.5109989461;
    ImportData d;
    d.particles = {{"gamma", 22, 0, 0, 1, 0, true},
                   {"e-", 11, me, -1, 0.5, 0, true},
                   {"e+", -11, me, 1, 0.5, 0, true}};
    d.elements = {{"Cu", 29, 63.546, {}}};
    // CGS: number density [1/cm^3]
    d.geo_materials = {{"Cu", ImportMaterialState::solid, 293., 8.5e22, {{0, 1.0}}},
                       {"thin", ImportMaterialState::gas, 293., 8.5e18, {{0, 1.0}}}};
    for (unsigned m = 0; m < 2; ++m)
    {
        ImportPhysMaterial pm;
        pm.geo_material_id = m;
        pm.pdg_cutoffs = {{22, {0.01, 0.07}}, {11, {0.2, 0.07}}, {-11, {0.2, 0.07}}};
        d.phys_materials.push_back(pm);
    }
    d.em_params.apply_cuts = true;
    d.em_params.lpm = false;
    d.trans_params.looping[11] = {};
    d.trans_params.looping[-11] = {};
    d.trans_params.looping[22] = {};
    d.units = "cgs";

    double emin = 1e-4, emax = 1e4;  // MeV
    auto egrid = loggrid(emin, emax, 57);
    std::vector<double> dens = {1.0, 1e-4};
    auto make_tab = [&](ImportTableType t, ImportUnits yu, auto f) {
        ImportPhysicsTable tab;
        tab.table_type = t;
        tab.x_units = ImportUnits::mev;
        tab.y_units = yu;
        for (double rho : dens)
        {
            ImportPhysicsVector v;
            v.vector_type = ImportPhysicsVectorType::log;
            v.x = egrid;
            for (double e : egrid)
                v.y.push_back(f(e, rho));
            tab.physics_vectors.push_back(v);
        }
        return tab;
    };
    auto make_model = [&](ImportModelClass mc, bool micro) {
        ImportModel m;
        m.model_class = mc;
        for (unsigned i = 0; i < 2; ++i)
        {
            ImportModelMaterial mm;
            mm.energy = {emin, emax};
            if (micro)
                mm.micro_xs = {{1e-24, 1e-24}};
            m.materials.push_back(mm);
        }
        return m;
    };
    auto make_proc = [&](int pdg, int sec, ImportProcessClass pc, std::vector<ImportModel> ms,
                         std::vector<ImportPhysicsTable> tabs) {
        ImportProcess p;
        p.particle_pdg = pdg;
        p.secondary_pdg = sec;
        p.process_type = ImportProcessType::electromagnetic;
        p.process_class = pc;
        p.models = std::move(ms);
        p.tables = std::move(tabs);
        return p;
    };
    // gamma
    d.processes.push_back(make_proc(22, 11, ImportProcessClass::compton,
        {make_model(ImportModelClass::klein_nishina, false)},
        {make_tab(ImportTableType::lambda, ImportUnits::len_inv,
                  [](double e, double rho) { return rho * 0.5 / (1 + e); })}));
    d.processes.push_back(make_proc(22, 11, ImportProcessClass::conversion,
        {make_model(ImportModelClass::bethe_heitler_lpm, true)},
        {make_tab(ImportTableType::lambda, ImportUnits::len_inv, [&](double e, double rho) {
            return e > 2 * me ? rho * 0.3 * (1 - 2 * me / e) : 0.0;
        })}));
    // e-/e+
    auto dedx = [](double e, double rho) { return rho * (2.0 + 0.1 / e + 0.01 * e); };  // MeV/cm
    auto range_tab = [&](double e, double rho) {
        // integrate 1/dedx from 0 to e numerically (midpoint on log substeps), with linear extrapolation to 0
        int n = 400;
        double r = 0;
        double lo = 1e-7;
        r += lo / dedx(lo, rho);
        for (int i = 0; i < n; ++i)
        {
            double a = lo * std::pow(e / lo, double(i) / n), b = lo * std::pow(e / lo, double(i + 1) / n);
            r += (b - a) / dedx(0.5 * (a + b), rho);
        }
        return r;
    };
    for (int pdg : {11, -11})
    {
        d.processes.push_back(make_proc(pdg, 11, ImportProcessClass::e_ioni,
            {make_model(ImportModelClass::moller_bhabha, false)},
            {make_tab(ImportTableType::lambda, ImportUnits::len_inv,
                      [](double e, double rho) { return e > 0.4 ? rho * 1.0 * (1 - 0.4 / e) : 0.0; }),
             make_tab(ImportTableType::dedx, ImportUnits::mev_per_len, dedx),
             make_tab(ImportTableType::range, ImportUnits::len, range_tab)}));
    }
    d.processes.push_back(make_proc(-11, 22, ImportProcessClass::annihilation,
        {make_model(ImportModelClass::e_plus_to_gg, false)}, {}));

    CoreParams::Input params;
    params.action_reg = std::make_shared<ActionRegistry>();
    params.output_reg = std::make_shared<OutputRegistry>();
    params.geometry = std::make_shared<GeoParams>(geofile);
    std::printf("geo volumes: %u\n", params.geometry->num_volumes());
    for (auto v : range(VolumeId{params.geometry->num_volumes()}))
    {
        ImportVolume iv;
        iv.geo_material_id = v.get() % 2;
        iv.phys_material_id = v.get() % 2;
        iv.name = params.geometry->id_to_label(v).name;
        std::printf("  vol %u %s\n", v.get(), iv.name.c_str());
        d.volumes.push_back(iv);
    }
    params.material = MaterialParams::from_import(d);
    params.geomaterial = GeoMaterialParams::from_import(d, params.geometry, params.material);
    params.particle = ParticleParams::from_import(d);
    params.cutoff = CutoffParams::from_import(d, params.particle, params.material);
    params.wentzel = WentzelOKVIParams::from_import(d, params.material);
    {
        PhysicsParams::Input input;
        input.particles = params.particle;
        input.materials = params.material;
        input.action_registry = params.action_reg.get();
        input.options.secondary_stack_factor = std::getenv("SF") ? atof(std::getenv("SF")) : 3;
        ProcessBuilder build(d, params.particle, params.material, ProcessBuilder::Options{});
        for (auto p : ProcessBuilder::get_all_process_classes(d.processes))
            input.processes.push_back(build(p));
        params.physics = std::make_shared<PhysicsParams>(std::move(input));
    }
    auto along = AlongStepGeneralLinearAction::from_params(
        params.action_reg->next_id(), *params.material, *params.particle, nullptr, argc > 2);
    params.action_reg->insert(along);
    params.rng = std::make_shared<RngParams>(12345);
    params.sim = SimParams::from_import(d, params.particle, 100);
    {
        TrackInitParams::Input ti;
        ti.capacity = 4096;
        ti.max_events = 16;
        ti.track_order = static_cast<TrackOrder>(std::getenv("TO") ? atoi(std::getenv("TO")) : 0);
        params.init = std::make_shared<TrackInitParams>(ti);
    }
    params.max_streams = 1;
    auto core = std::make_shared<CoreParams>(std::move(params));
    auto rec = std::make_shared<Rec>(); g_rec = rec.get();
    auto coll = StepCollector::make_and_insert(*core, {rec});

    StepperInput si;
    si.params = core;
    si.stream_id = StreamId{0};
    si.num_track_slots = 16;
    Stepper<MemSpace::host> step(si);

    double ein = 0;
    std::vector<Primary> prim;
    for (int i = 0; i < 4; ++i)
    {
        Primary p;
        p.particle_id = core->particle()->find(PDGNumber{i % 2 ? 22 : -11});
        p.energy = units::MevEnergy{std::getenv("E0") ? atof(std::getenv("E0")) : 100.0};
        p.position = {0, 0, 0};
        p.direction = {0, 0, 1};
        p.time = 0;
        p.event_id = EventId{0};
        prim.push_back(p);
        ein += (std::getenv("E0") ? atof(std::getenv("E0")) : 100.0) + (i % 2 ? 0 : 2 * me);
    }
    step.reseed(UniqueEventId{0});
    auto res = step(make_span(prim));
    long iters = 1;
    while (res)
    {
        res = step();
        if (++iters > (std::getenv("MAXIT") ? atol(std::getenv("MAXIT")) : 3000000))
        {
            std::printf("too many iterations: alive=%u queued=%u\n", res.alive, res.queued);
            break;
        }
    }
    std::printf("max|dir|-1=%.3e ", rec->maxdev); std::printf("hash=%016llx slot-hash=%016llx ", rec->h, rec->hs); std::printf("iters=%ld steps=%ld ein=%.12g edep=%.12g eout=%.12g  balance=%.3e\n",
                iters, rec->nsteps, ein, rec->edep, rec->eout, (rec->edep + rec->eout - ein) / ein);
    return 0;
}
