#include <cmath>
#include <cstdio>
#include <random>
#include "celeritas/random/distribution/PoissonDistribution.hh"
#include "celeritas/random/distribution/GammaDistribution.hh"
#include "celeritas/random/distribution/NormalDistribution.hh"
#include "celeritas/random/distribution/ExponentialDistribution.hh"
#include "celeritas/random/distribution/ReciprocalDistribution.hh"
#include "celeritas/random/distribution/InverseSquareDistribution.hh"
#include "celeritas/random/distribution/RadialDistribution.hh"
#include "celeritas/random/distribution/IsotropicDistribution.hh"
#include "celeritas/random/distribution/UniformRealDistribution.hh"
#include "corecel/math/ArrayUtils.hh"
using namespace celeritas;
template<class D> void moments(char const* name, D d, double mean, double var, std::mt19937& g, double lo, double hi){ long N=400000; double s=0,s2=0; long oob=0,nan=0; for(long i=0;i<N;++i){ double x=d(g); if(!(x==x)) {++nan; continue;} if(x<lo||x>hi) ++oob; s+=x; s2+=x*x; } double m=s/N, v=s2/N-m*m; double z=(m-mean)/std::sqrt(var/N); std::printf("%-28s mean z=%+.2f var ratio=%.4f oob=%ld nan=%ld\n",name,z,v/var,oob,nan); }
int main(){ std::mt19937 g(42);
 for(double lam: {1e-3,0.5,3.0,15.9,63.9,64.0,64.1,200.0,1e5}) { char b[64]; std::snprintf(b,64,"poisson(%g)",lam); moments(b,PoissonDistribution<double>(lam),lam,lam,g,0,1e300);} 
 for(double a: {0.05,0.5,0.99,1.0,1.01,2.5,50.0}) for(double beta:{1.0,3.0}){ char b[64]; std::snprintf(b,64,"gamma(%g,%g)",a,beta); moments(b,GammaDistribution<double>(a,beta),a*beta,a*beta*beta,g,0,1e300);} 
 moments("normal(2,3)",NormalDistribution<double>(2,3),2,9,g,-1e300,1e300);
 moments("exp(2.5)",ExponentialDistribution<double>(2.5),0.4,0.16,g,0,1e300);
 { double a=0.1,b=7; double m=(b-a)/std::log(b/a); double m2=(b*b-a*a)/(2*std::log(b/a)); moments("reciprocal(0.1,7)",ReciprocalDistribution<double>(a,b),m,m2-m*m,g,a,b);} 
 { double a=0.1,b=7; double m=std::log(b/a)/(1/a-1/b); double m2=(b-a)/(1/a-1/b); moments("invsq(0.1,7)",InverseSquareDistribution<double>(a,b),m,m2-m*m,g,a,b);} 
 { double R=2; double m=0.75*R, m2=0.6*R*R; moments("radial(2)",RadialDistribution<double>(R),m,m2-m*m,g,0,R);} 
 { IsotropicDistribution<double> iso; double sx=0,sz=0,sz2=0; long bad=0; long N=400000; for(long i=0;i<N;++i){ auto d=iso(g); if(std::fabs(norm(d)-1)>1e-12) ++bad; sx+=d[0]; sz+=d[2]; sz2+=d[2]*d[2]; } std::printf("isotropic: <x>=%.4f <z>=%.4f <z^2>=%.4f (1/3) nonunit=%ld\n",sx/N,sz/N,sz2/N,bad);} }
