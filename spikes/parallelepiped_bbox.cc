#include <cstdio>
#include <memory>
#include <random>
#include "corecel/data/CollectionStateStore.hh"
#include "orange/OrangeInput.hh"
#include "orange/OrangeParams.hh"
#include "orange/OrangeTrackView.hh"
#include "orange/orangeinp/CsgObject.hh"
#include "orange/orangeinp/InputBuilder.hh"
#include "orange/orangeinp/Shape.hh"
#include "orange/orangeinp/UnitProto.hh"
using namespace celeritas; using namespace celeritas::orangeinp;
int main(){ auto world = std::make_shared<BoxShape>("world", orangeinp::Box{Real3{10,10,10}});
  auto para = std::make_shared<ParallelepipedShape>("para", Parallelepiped{Real3{1,2,3}, Turn{0.0}, Turn{0.1}, Turn{0.0}});
  UnitProto::Input gi; gi.label="global"; gi.boundary.interior=world; gi.boundary.zorder=ZOrder::media; gi.materials.push_back({para, GeoMaterialId{1}, Label{"para"}}); gi.background.fill=GeoMaterialId{2}; gi.background.label=Label{"bg"};
  UnitProto gp(std::move(gi)); InputBuilder::Options o; o.tol=Tolerance<>::from_default(); OrangeInput inp=InputBuilder{std::move(o)}(gp);
  auto const& u = std::get<UnitInput>(inp.universes[0]); for(auto const& v: u.volumes) { std::printf("vol %s bbox z=[%g,%g] x=[%g,%g]\n", v.label.name.c_str(), v.bbox? v.bbox.lower()[2]:0., v.bbox? v.bbox.upper()[2]:0., v.bbox? v.bbox.lower()[0]:0., v.bbox? v.bbox.upper()[0]:0.); }
  OrangeParams params(std::move(inp)); CollectionStateStore<OrangeStateData, MemSpace::host> st(params.host_ref(), 1); OrangeTrackView tv(params.host_ref(), st.ref(), TrackSlotId{0});
  // planes: z=+-3; y=+-2; x planes: n=(0.809,0,-0.588), |n.x| <= 0.809
  std::mt19937 g(1); std::uniform_real_distribution<> U(-4,4); long in_region=0, mism=0; for(int i=0;i<200000;++i){ Real3 p{U(g),U(g),U(g)}; double nx=0.80901699437494745*p[0]-0.58778525229247314*p[2]; bool inside = std::fabs(p[2])<3-1e-6 && std::fabs(p[1])<2-1e-6 && std::fabs(nx)<0.80901699437494745-1e-6; bool outside = std::fabs(p[2])>3+1e-6 || std::fabs(p[1])>2+1e-6 || std::fabs(nx)>0.80901699437494745+1e-6; if(!inside&&!outside) continue; tv=GeoTrackInitializer{p,Real3{0,0,1}}; std::string lab = tv.failed()? "FAILED" : params.id_to_label(tv.volume_id()).name; if(inside){ ++in_region; if(lab!="para"){ if(mism<5) std::printf("point (%g,%g,%g) inside surface-defined region but located in %s\n",p[0],p[1],p[2],lab.c_str()); ++mism; } } else if(lab=="para") ++mism; }
  std::printf("inside-region points=%ld mismatches=%ld\n",in_region,mism); }
