#include <array>
#include <cstdint>
#include <cstdio>
#include <random>
#include <vector>
#include "corecel/data/CollectionStateStore.hh"
#include "celeritas/random/XorwowRngData.hh"
#include "celeritas/random/XorwowRngEngine.hh"
#include "celeritas/random/XorwowRngParams.hh"
using namespace celeritas; using W=std::array<uint32_t,5>; using M=std::vector<W>; // columns
static W refnext(W s){ uint32_t t=s[0]^(s[0]>>2); W r{s[1],s[2],s[3],s[4],0}; r[4]=(s[4]^(s[4]<<4))^(t^(t<<1)); return r; }
static W mapply(M const& A, W const& v){ W r{0,0,0,0,0}; for(int i=0;i<160;++i) if((v[i/32]>>(i%32))&1u) for(int k=0;k<5;++k) r[k]^=A[i][k]; return r; }
static M mul(M const& A, M const& B){ M R(160); for(int i=0;i<160;++i) R[i]=mapply(A,B[i]); return R; }
static M ident(){ M I(160); for(int i=0;i<160;++i){ W w{0,0,0,0,0}; w[i/32]=1u<<(i%32); I[i]=w;} return I; }
using u128 = unsigned __int128;
static M powm(M A, u128 e, int extra_shift=0){ M R=ident(); // computes A^(e * 2^extra_shift)
  for(int s=0;s<extra_shift;++s) A=mul(A,A); while(e){ if(e&1) R=mul(A,R); A=mul(A,A); e>>=1;} return R; }
int main(){ M T(160); for(int i=0;i<160;++i){ W w{0,0,0,0,0}; w[i/32]=1u<<(i%32); T[i]=refnext(w);} 
  XorwowRngParams params(12345); HostVal<XorwowRngStateData> sv; resize(&sv, params.host_ref(), StreamId{0}, 4); HostRef<XorwowRngStateData> sr; sr=sv; 
  std::mt19937_64 g(9); long bad_next=0,bad_disc=0,bad_sub=0,bad_weyl=0,n=0;
  auto& st = sr.state[TrackSlotId{0}];
  auto rnd_state=[&]{ for(int k=0;k<5;++k) st.xorstate[k]=(uint32_t)g(); st.weylstate=(uint32_t)g(); };
  auto get=[&]{ W w; for(int k=0;k<5;++k) w[k]=st.xorstate[k]; return w; };
  XorwowRngEngine eng(params.host_ref(), sr, TrackSlotId{0});
  for(int i=0;i<100000;++i){ rnd_state(); W s0=get(); uint32_t w0=st.weylstate; uint32_t out=eng(); W e=refnext(s0); if(get()!=e || st.weylstate!=w0+362437u || out!=st.weylstate+e[4]) ++bad_next; }
  // single polynomial discards
  for(int i=0;i<32;++i) for(int j=1;j<=3;++j){ unsigned long long cnt=(unsigned long long)j<<(2*i); M P=powm(T,cnt); for(int r=0;r<3;++r){ rnd_state(); W s0=get(); uint32_t w0=st.weylstate; eng.discard(cnt); ++n; if(get()!=mapply(P,s0)){ ++bad_disc; if(bad_disc<6) std::printf("discard mismatch i=%d j=%d\n",i,j);} if(st.weylstate!=(uint32_t)(w0+(uint32_t)cnt*362437u)) ++bad_weyl; } }
  // random counts
  for(int r=0;r<300;++r){ int bits=1+g()%64; unsigned long long cnt=g()>>(64-bits); M P=powm(T,cnt); rnd_state(); W s0=get(); eng.discard(cnt); ++n; if(get()!=mapply(P,s0)) ++bad_disc; }
  // subsequences via initializer
  for(int i=0;i<32;++i) for(int j=1;j<=3;++j){ unsigned long long k=(unsigned long long)j<<(2*i); XorwowRngInitializer i0; i0.seed={777u}; i0.subsequence=0; i0.offset=0; eng=i0; W base=get(); uint32_t wb=st.weylstate; XorwowRngInitializer i1=i0; i1.subsequence=k; eng=i1; M P=powm(T,k,67); ++n; if(get()!=mapply(P,base)){ ++bad_sub; if(bad_sub<6) std::printf("subsequence mismatch i=%d j=%d\n",i,j);} if(st.weylstate!=wb) ++bad_weyl; }
  std::printf("n=%ld bad: next=%ld discard=%ld subsequence=%ld weyl=%ld\n",n,bad_next,bad_disc,bad_sub,bad_weyl); }
