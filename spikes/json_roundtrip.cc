#include <fstream>
#include <iostream>
#include <nlohmann/json.hpp>
#include "orange/OrangeInput.hh"
#include "orange/OrangeInputIO.json.hh"
using namespace celeritas;
int main(int argc, char** argv){ std::ifstream is(argv[1]); OrangeInput inp; nlohmann::json::parse(is).get_to(inp); std::cerr<<"read ok\n"; std::string s = nlohmann::json(inp).dump(0); std::cerr<<"wrote "<<s.size()<<"\n"; OrangeInput inp2; nlohmann::json::parse(s).get_to(inp2); std::string s2 = nlohmann::json(inp2).dump(0); std::cerr << (s==s2 ? "idempotent":"DIFF") << "\n"; }
