// Prototype: navigator-guided comparison of OrangeTrackView traces against an independent point locator
#include <cmath>
#include <cstdio>
#include <fstream>
#include <random>
#include <variant>
#include <map>
#include <array>
#include <memory>
#include <nlohmann/json.hpp>
#include "corecel/data/CollectionStateStore.hh"
#include "corecel/io/Logger.hh"
#include "corecel/math/ArrayUtils.hh"
#include "orange/OrangeInput.hh"
#include "orange/OrangeInputIO.json.hh"
#include "orange/OrangeParams.hh"
#include "orange/OrangeTrackView.hh"
#include "orange/transform/VariantTransform.hh"
#include "orange/MatrixUtils.hh"
#include "orange/orangeinp/CsgObject.hh"
#include "orange/orangeinp/InputBuilder.hh"
#include "orange/orangeinp/Shape.hh"
#include "orange/orangeinp/Solid.hh"
#include "orange/orangeinp/PolySolid.hh"
#include "orange/orangeinp/Transformed.hh"
#include "orange/orangeinp/UnitProto.hh"
#include "orange/transform/Transformation.hh"
using namespace celeritas;
struct Loc { std::vector<std::pair<int,int>> path; bool ambiguous=false; bool operator==(Loc const& o) const { return path==o.path; } };
static OrangeInput const* G;
static double DELTA = 1e-6;
static bool eval_logic(std::vector<logic_int> const& lg, std::vector<bool> const& s){ std::vector<bool> st; for(auto t: lg){ if(!logic::is_operator_token(t)) st.push_back(s[t]); else if(t==logic::ltrue) st.push_back(true); else if(t==logic::lnot){ st.back()=!st.back(); } else { bool b=st.back(); st.pop_back(); bool a=st.back(); st.back() = (t==logic::land)? (a&&b):(a||b);} } return st.back(); }
static Real3 down(VariantTransform const& vt, Real3 const& x){ return std::visit([&](auto const& t){ return t.transform_down(x); }, vt); }
static void locate(int uid, Real3 x, Loc& out){
  auto const& uv = G->universes[uid];
  if (auto* u = std::get_if<UnitInput>(&uv)){
    std::vector<int> sense(u->surfaces.size());
    for(size_t i=0;i<u->surfaces.size();++i){ std::visit([&](auto const& s){ auto ss=s.calc_sense(x); Real3 n=s.calc_normal(x); (void)n; sense[i]=(int)ss; 
        // near-surface detection: move +-DELTA along normal and see if the sense flips
        Real3 a=x,b=x; axpy(DELTA,n,&a); axpy(-DELTA,n,&b); if ((int)s.calc_sense(a)!=(int)s.calc_sense(b)) out.ambiguous=true; }, u->surfaces[i]); }
    int found=-1, bg=-1; 
    for(size_t v=0; v<u->volumes.size(); ++v){ auto const& vol=u->volumes[v]; if(vol.zorder==ZOrder::background){ bg=v; continue;} if (uid!=0 && (vol.zorder==ZOrder::implicit_exterior)) continue; if ((vol.flags & VolumeRecord::implicit_vol) && uid!=0) continue;
      std::vector<bool> fs(vol.faces.size()); for(size_t f=0;f<vol.faces.size();++f) fs[f]= sense[vol.faces[f].get()]>=0; if(vol.logic.empty()) continue; if(eval_logic(vol.logic,fs)){ if(found>=0){ out.ambiguous=true; } else found=v; } }
    if(found<0) found=bg; out.path.push_back({uid,found}); if(found<0){ return; }
    auto it=u->daughter_map.find(LocalVolumeId(found)); if(it!=u->daughter_map.end()){ locate(it->second.universe_id.get(), down(it->second.transform,x), out);} }
  else { auto const& r=std::get<RectArrayInput>(uv); int idx[3]; for(int ax=0;ax<3;++ax){ auto const& gr=r.grid[ax]; if(x[ax]<gr.front()||x[ax]>gr.back()){ out.path.push_back({uid,-1}); return;} int i=0; while(i+2<(int)gr.size() && x[ax]>=gr[i+1]) ++i; idx[ax]=i; for(double gp: gr) if(std::fabs(x[ax]-gp)<DELTA) out.ambiguous=true; }
    int ny=r.grid[1].size()-1, nz=r.grid[2].size()-1; int cell=(idx[0]*ny+idx[1])*nz+idx[2]; out.path.push_back({uid,cell}); auto const& d=r.daughters[cell]; locate(d.universe_id.get(), down(d.transform,x), out); } }

using namespace celeritas::orangeinp; using SPO=std::shared_ptr<ObjectInterface const>;
std::mt19937_64 rg(1); double U(double a,double b){ return std::uniform_real_distribution<>(a,b)(rg);} 
template<class CR,class... A> SPO shp(std::string l, A&&... a){ return std::make_shared<Shape<CR>>(std::move(l), CR{std::forward<A>(a)...}); }
SPO make_shape(int kind, std::string& desc){ char b[256];
  switch(kind){
   case 0: { Real3 h{U(.3,3),U(.3,3),U(.3,3)}; std::snprintf(b,256,"box(%g,%g,%g)",h[0],h[1],h[2]); desc=b; return shp<orangeinp::Box>("s",h);} 
   case 1: { double r=U(.3,3); std::snprintf(b,256,"sphere(%g)",r); desc=b; return shp<orangeinp::Sphere>("s",r);} 
   case 2: { double r=U(.3,3),h=U(.3,3); std::snprintf(b,256,"cyl(%g,%g)",r,h); desc=b; return shp<orangeinp::Cylinder>("s",r,h);} 
   case 3: { Real2 r{U(0,3),U(0,3)}; if(rg()%4==0) r[rg()%2]=0; double h=U(.3,3); std::snprintf(b,256,"cone(%g,%g;%g)",r[0],r[1],h); desc=b; return shp<orangeinp::Cone>("s",r,h);} 
   case 4: { Real3 r{U(.3,3),U(.3,3),U(.3,3)}; std::snprintf(b,256,"ellipsoid(%g,%g,%g)",r[0],r[1],r[2]); desc=b; return shp<orangeinp::Ellipsoid>("s",r);} 
   case 5: { int n=3+rg()%6; double a=U(.3,3),h=U(.3,3),o=U(0,0.999); std::snprintf(b,256,"prism(%d,%g,%g,%g)",n,a,h,o); desc=b; return shp<orangeinp::Prism>("s",n,a,h,o);} 
   case 6: { Real3 h{U(.3,3),U(.3,3),U(.3,3)}; double al=U(-0.2,0.2), th=U(0,0.2), ph=U(0,0.999); std::snprintf(b,256,"para(%g,%g,%g;%g,%g,%g)",h[0],h[1],h[2],al,th,ph); desc=b; return shp<orangeinp::Parallelepiped>("s",h,Turn{al},Turn{th},Turn{ph});} 
   case 7: { double hz=U(.3,3); Real2 lo{U(.3,3),U(.3,3)}, hi{U(.3,3),U(.3,3)}; std::snprintf(b,256,"trd(%g;%g,%g;%g,%g)",hz,lo[0],lo[1],hi[0],hi[1]); desc=b; return std::make_shared<GenPrismShape>("s", GenPrism::from_trd(hz,lo,hi)); }
   case 8: { double hz=U(.3,3); GenPrism::TrapFace f1{U(.3,2),U(.3,2),U(.3,2),Turn{U(-0.1,0.1)}}, f2{U(.3,2),U(.3,2),U(.3,2),Turn{U(-0.1,0.1)}}; double th=U(0,0.15), ph=U(0,0.999); std::snprintf(b,256,"trap(%g,%g,%g)",hz,th,ph); desc=b; return std::make_shared<GenPrismShape>("s", GenPrism::from_trap(hz,Turn{th},Turn{ph},f1,f2)); }
   case 9: { // twisted genprism: rotate upper face of a rectangle by small angle
       double hz=U(.3,3), a=U(.5,2), bb=U(.5,2), tw=U(-0.6,0.6); GenPrism::VecReal2 lo{{a,-bb},{a,bb},{-a,bb},{-a,-bb}}, hi; for(auto& p: lo) hi.push_back({p[0]*std::cos(tw)-p[1]*std::sin(tw), p[0]*std::sin(tw)+p[1]*std::cos(tw)}); std::snprintf(b,256,"twisted(%g;%g,%g;tw=%g)",hz,a,bb,tw); desc=b; return std::make_shared<GenPrismShape>("s", GenPrism{hz,lo,hi}); }
   case 10:{ double r=U(.5,3), h=U(.3,3), ri=U(0.1,0.9)*r; double st=U(0,0.999), in=U(0.05,0.95); std::snprintf(b,256,"cylsolid(%g,%g;ri=%g;%g,%g)",r,h,ri,st,in); desc=b; return std::make_shared<CylinderSolid>("s", orangeinp::Cylinder{r,h}, orangeinp::Cylinder{ri,h}, SolidEnclosedAngle{Turn{st},Turn{in}}); }
   case 11:{ double r=U(.5,3), ri=U(0.1,0.9)*r; double st=U(0,0.999), in=U(0.05,0.95); std::snprintf(b,256,"sphsolid(%g;ri=%g;%g,%g)",r,ri,st,in); desc=b; return std::make_shared<SphereSolid>("s", orangeinp::Sphere{r}, orangeinp::Sphere{ri}, SolidEnclosedAngle{Turn{st},Turn{in}}); }
   case 12:{ int nz=2+rg()%3; std::vector<double> z{U(-3,-1)}, ro, ri; for(int i=0;i<=nz;++i){ if(i) z.push_back(z.back()+U(.3,1.5)); ro.push_back(U(.8,3)); ri.push_back(U(0,0.7)); } bool hollow=rg()%2; double st=U(0,0.999), in=(rg()%2? 1.0: U(0.05,0.95)); std::snprintf(b,256,"polycone(nz=%d hollow=%d in=%g)",nz,hollow,in); desc=b; auto segs = hollow? PolySegments{std::move(ri),std::move(ro),std::move(z)} : PolySegments{std::move(ro),std::move(z)}; return PolyCone::or_solid("s", std::move(segs), in<1? SolidEnclosedAngle{Turn{st},Turn{in}}: SolidEnclosedAngle{}); }
   default:{ int nz=2+rg()%3; std::vector<double> z{U(-3,-1)}, ro, ri; for(int i=0;i<=nz;++i){ if(i) z.push_back(z.back()+U(.3,1.5)); ro.push_back(U(.8,3)); ri.push_back(U(0,0.7)); } bool hollow=rg()%2; int ns=3+rg()%6; double ori=U(0,0.999); std::snprintf(b,256,"polyprism(nz=%d hollow=%d n=%d)",nz,hollow,ns); desc=b; auto segs = hollow? PolySegments{std::move(ri),std::move(ro),std::move(z)} : PolySegments{std::move(ro),std::move(z)}; return PolyPrism::or_solid("s", std::move(segs), SolidEnclosedAngle{}, ns, ori); }
  } }
int main(int argc,char**argv){ int ncase=argc>1?atoi(argv[1]):300; long tot_pts=0, tot_mis=0, tot_amb=0, rejected=0; std::map<std::string,std::array<long,3>> bykind; char const* names[]={"box","sphere","cyl","cone","ellipsoid","prism","para","trd","trap","twisted","cylsolid","sphsolid","polycone","polyprism"};
  for(int c=0;c<ncase;++c){ int kind=c%14; std::string desc; try {
    SPO s=make_shape(kind,desc); bool xf = rg()%2; if(xf){ Real3 axis{U(-1,1),U(-1,1),U(-1,1)}; axis=make_unit_vector(axis); s=std::make_shared<Transformed>(s, Transformation{make_rotation(axis, Turn{U(0,1)}), Real3{U(-2,2),U(-2,2),U(-2,2)}}); desc+=" +xform"; }
    auto world=shp<orangeinp::Box>("world",Real3{12,12,12}); UnitProto::Input gi; gi.label="global"; gi.boundary.interior=world; gi.boundary.zorder=ZOrder::media; gi.materials.push_back({s,GeoMaterialId{1},Label{"shape"}}); gi.background.fill=GeoMaterialId{2}; gi.background.label=Label{"bg"};
    UnitProto gp(std::move(gi)); InputBuilder::Options o; o.tol=Tolerance<>::from_default(); OrangeInput inp=InputBuilder{std::move(o)}(gp); OrangeInput copy=inp; G=&copy; DELTA=1e-6; OrangeParams params(std::move(inp));
    CollectionStateStore<OrangeStateData, MemSpace::host> st(params.host_ref(), 1); OrangeTrackView tv(params.host_ref(), st.ref(), TrackSlotId{0});
    long mis=0, pts=0, amb=0; for(int i=0;i<3000;++i){ Real3 p{U(-6,6),U(-6,6),U(-6,6)}; Loc l; locate(0,p,l); if(l.ambiguous){ ++amb; continue;} ++pts; tv=GeoTrackInitializer{p,Real3{0,0,1}}; std::string nav = tv.failed()? "FAILED": params.id_to_label(tv.volume_id()).name; auto [u,v]=l.path.back(); std::string ora = v<0? "[none]" : std::get<UnitInput>(G->universes[u]).volumes[v].label.name; if(nav!=ora){ if(mis<1) std::printf("  MISMATCH %s: p=(%g,%g,%g) runtime=%s surfaces-say=%s\n",desc.c_str(),p[0],p[1],p[2],nav.c_str(),ora.c_str()); ++mis; } }
    tot_pts+=pts; tot_mis+=mis; tot_amb+=amb; auto& k=bykind[names[kind]]; k[0]++; k[1]+= (mis>0); k[2]+=mis; } catch(std::exception const& e){ ++rejected; static int shown=0; if(shown++<8) std::printf("  rejected %s: %.160s\n",desc.c_str(),e.what()); } }
  for(auto& kv: bykind) std::printf("%-10s cases=%ld cases_with_mismatch=%ld mismatching_points=%ld\n",kv.first.c_str(),kv.second[0],kv.second[1],kv.second[2]);
  std::printf("TOTAL points=%ld mismatches=%ld ambiguous=%ld rejected=%ld\n",tot_pts,tot_mis,tot_amb,rejected); }
