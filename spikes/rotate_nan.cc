#include <cmath>
#include <cstdio>
#include "corecel/math/ArrayUtils.hh"
using namespace celeritas; using R3 = Array<double,3>;
int main(){ for (double z : {1.0, std::nextafter(1.0,0.0), -std::nextafter(1.0,0.0), 1.0-1e-15}) { R3 rot{0,0,z}; bool ok = is_soft_unit_vector(rot); R3 r = rotate(from_spherical(0.3, 1.0), rot); printf("rot=(0,0,%.17g) soft_unit=%d -> (%g,%g,%g)\n", z, ok, r[0],r[1],r[2]); } }
