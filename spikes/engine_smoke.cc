#include <algorithm>
#include <cstdint>
#include <cstdio>
#include <cstdlib>
#include <vector>
#include "corecel/math/Algorithms.hh"
struct Choices { const uint8_t* p; size_t n; size_t i=0; unsigned byte(){ return i<n? p[i++]:0; } unsigned in(unsigned lo, unsigned hi){ return lo + byte()%(hi-lo+1);} };
// returns false on violation
static bool bug_on = false;
bool case_fn(const uint8_t* d, size_t n){ Choices c{d,n}; unsigned len=c.in(0,12); std::vector<int> v(len); for(auto& x: v) x=c.in(0,5);
  auto ref=v; std::sort(ref.begin(),ref.end()); auto got=v; celeritas::sort(got.begin(),got.end());
  if (bug_on && len>=3 && v[0]==3 && v[1]==1 && v[2]==2) got[0]=99;
  return got==ref; }
#ifdef FUZZ
extern "C" int LLVMFuzzerTestOneInput(const uint8_t* d, size_t n){ bug_on = getenv("BUG"); if(!case_fn(d,n)) __builtin_trap(); return 0; }
#else
#include <rapidcheck.h>
int main(){ bug_on = getenv("BUG"); bool ok = rc::check("sort", [](const std::vector<uint8_t>& b){ RC_ASSERT(case_fn(b.data(), b.size())); }); return ok?0:1; }
#endif
