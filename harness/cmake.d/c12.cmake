add_harness(c12_surf props/c12_surf.cc)
add_harness(c12_xform props/c12_xform.cc)
