add_harness(c03_nav props/c03_nav.cc)
