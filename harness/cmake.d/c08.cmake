add_harness(c08_field props/c08_field.cc)
