add_harness(c07_streams props/c07_streams.cc)
