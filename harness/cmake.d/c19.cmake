add_harness(c19_json props/c19_json.cc)
