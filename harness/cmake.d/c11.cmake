add_harness(c11_safety props/c11_safety.cc)
