add_harness(c02_population props/c02_population.cc)
