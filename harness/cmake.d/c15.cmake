add_harness(c15_dist props/c15_dist.cc)
add_harness(c15_eloss props/c15_eloss.cc)
