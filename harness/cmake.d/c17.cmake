add_harness(c17_scoring props/c17_scoring.cc)
