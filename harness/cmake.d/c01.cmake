add_harness(c01_energy props/c01_energy.cc)
