add_harness(c18_algo props/c18_algo.cc)
add_harness(c18_grid props/c18_grid.cc)
