add_harness(c16_starve props/c16_starve.cc)
