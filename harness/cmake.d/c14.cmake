add_harness(c14_calc props/c14_calc.cc)
add_harness(c14_step props/c14_step.cc)
