add_harness(c14_calc props/c14_calc.cc)
