add_harness(c05_steps props/c05_steps.cc)
