add_harness(c13_rng props/c13_rng.cc)
