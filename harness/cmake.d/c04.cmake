add_harness(c04_em_basic props/c04_em_basic.cc)
add_harness(c04_em_data props/c04_em_data.cc)
