add_harness(c20_optical props/c20_optical.cc)
