add_harness(c10_csg props/c10_csg.cc)
