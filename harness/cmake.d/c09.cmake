add_harness(c09_construct props/c09_construct.cc)
