add_harness(c06_repro props/c06_repro.cc)
