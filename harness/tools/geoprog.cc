// Debug aid: run a navigation program on a .org.json file
//   geoprog file.org.json init x y z dx dy dz [find [max] | move d | tobnd |
//   cross | setdir dx dy dz | safety | movepos x y z]...
#include <cstdio>
#include <cstdlib>
#include <cstring>
#include <cctype>
#include <string>
#include "geofix.hh"
using namespace verif;
using namespace celeritas;
int main(int argc, char** argv)
{
    if (argc < 9)
    {
        std::printf("usage: geoprog file.org.json init x y z dx dy dz ops...\n");
        return 2;
    }
    auto f = make_fixture("f", load_org_json(argv[1]));
    auto tv = f->track();
    int i = 2;
    auto num = [&](int k) { return strtod(argv[k], nullptr); };
    auto state = [&](char const* what) {
        auto p = tv.pos();
        auto d = tv.dir();
        std::printf("%-8s pos (%.17g, %.17g, %.17g) dir (%.9g, %.9g, %.9g) %s "
                    "bnd=%d out=%d failed=%d\n",
                    what, p[0], p[1], p[2], d[0], d[1], d[2],
                    tv.is_outside() ? "-" : f->nav_path().str().c_str(),
                    tv.is_on_boundary(), tv.is_outside(), tv.failed());
    };
    while (i < argc)
    {
        std::string op = argv[i++];
        if (op == "init")
        {
            tv = GeoTrackInitializer{Real3{num(i), num(i + 1), num(i + 2)},
                                     Real3{num(i + 3), num(i + 4), num(i + 5)}};
            i += 6;
            state("init");
        }
        else if (op == "find")
        {
            Propagation pr;
            if (i < argc && (std::isdigit(argv[i][0]) || argv[i][0] == '.'))
                pr = tv.find_next_step(num(i++));
            else
                pr = tv.find_next_step();
            std::printf("find -> distance %.17g boundary %d\n", pr.distance,
                        pr.boundary);
        }
        else if (op == "move")
        {
            tv.move_internal(num(i++));
            state("move");
        }
        else if (op == "movepos")
        {
            tv.move_internal(Real3{num(i), num(i + 1), num(i + 2)});
            i += 3;
            state("movepos");
        }
        else if (op == "tobnd")
        {
            tv.move_to_boundary();
            state("tobnd");
        }
        else if (op == "cross")
        {
            tv.cross_boundary();
            state("cross");
        }
        else if (op == "setdir")
        {
            tv.set_dir(Real3{num(i), num(i + 1), num(i + 2)});
            i += 3;
            state("setdir");
        }
        else if (op == "safety")
        {
            std::printf("safety -> %.17g\n", tv.find_safety());
        }
    }
    return 0;
}
