// Debug aid: print navigator and oracle traces for a ray in a .org.json file
#include <cstdio>
#include <cstdlib>
#include "geofix.hh"
using namespace verif; using namespace celeritas;
int main(int argc, char** argv)
{
    if (argc < 8) { std::printf("usage: geotrace file.org.json x y z dx dy dz\n"); return 2; }
    auto f = make_fixture("f", load_org_json(argv[1]));
    geo::V3 p{{strtod(argv[2],0), strtod(argv[3],0), strtod(argv[4],0)}}, d{{strtod(argv[5],0), strtod(argv[6],0), strtod(argv[7],0)}};
    bool trunc=false; auto segs = geo::trace(f->model, p, d, 100, &trunc);
    std::printf("oracle:\n");
    for (auto& s: segs) std::printf("  [%.9Lg, %.9Lg) %s%s cluster=[%.9Lg,%.9Lg]\n", s.t0, s.t1, s.path.str().c_str(), s.fuzzy_end?" fuzzy":"", s.end_lo, s.end_hi);
    auto tv = f->track(); tv = GeoTrackInitializer{Real3{(double)p[0],(double)p[1],(double)p[2]}, Real3{(double)d[0],(double)d[1],(double)d[2]}};
    std::printf("nav:\n"); double t=0;
    for (int i=0;i<100 && !tv.failed() && !tv.is_outside();++i){ auto pr=tv.find_next_step(); std::printf("  [%.9g, %.9g) %s\n", t, t+pr.distance, f->nav_path().str().c_str()); if(!pr.boundary) break; tv.move_to_boundary(); t+=pr.distance; tv.cross_boundary(); }
    std::printf("  end: failed=%d outside=%d\n", tv.failed(), tv.is_outside());
}
