// Random objects (included by geogen_build.hh; do not include directly).
#pragma once

namespace verif
{
namespace geogen
{
//---------------------------------------------------------------------------//
inline void gen_angle(Ctx& g, double& start, double& interior)
{
    switch (g.pick({4, 1, 1, 1, 1}))
    {
        case 0: interior = g.u(0.05, 0.95); break;
        case 1: interior = 0.25; break;
        case 2: interior = 0.5; break;
        case 3: interior = 0.75; break;
        default: interior = g.u(0.5, 0.55); break;
    }
    switch (g.pick({4, 1, 1, 1}))
    {
        case 0: start = g.u(0, 0.999); break;
        case 1: start = 0; break;
        case 2: start = 0.25 * g.i(0, 3); break;
        default: start = g.u(-0.9, 1.9); break;
    }
}

//---------------------------------------------------------------------------//
inline Made gen_genprism(Ctx& g, LD s_)
{
    double s = double(s_);
    using VR2 = std::vector<Real2>;
    double hz = s * g.u(0.15, 0.6);
    VR2 lo, hi;
    std::shared_ptr<oi::GenPrismShape> api;
    std::string l = g.lab("genprism");
    int variant = int(g.pick({2, 3, 3, 3, 2}));
    bool twisted = false, degenerate = false, from_helper = false;
    g.desc << "genprism{";
    if (variant == 0)
    {
        Real2 a{s * g.u(0.1, 0.45), s * g.u(0.1, 0.45)};
        Real2 b{s * g.u(0.1, 0.45), s * g.u(0.1, 0.45)};
        if (g.b(0.2))
            b = a;
        // TRD: rectangle half-widths interpolate linearly from -hz to +hz
        lo = {{a[0], -a[1]}, {a[0], a[1]}, {-a[0], a[1]}, {-a[0], -a[1]}};
        hi = {{b[0], -b[1]}, {b[0], b[1]}, {-b[0], b[1]}, {-b[0], -b[1]}};
        api = std::make_shared<oi::GenPrismShape>(
            std::move(l), oi::GenPrism::from_trd(hz, a, b));
        from_helper = true;
        g.desc << "trd";
    }
    else if (variant == 1)
    {
        double theta = g.b(0.3) ? 0.0 : g.u(0.0, 0.08);
        double phi = g.u(0, 0.999);
        oi::GenPrism::TrapFace f[2];
        f[0].hy = s * g.u(0.1, 0.3);
        f[0].hx_lo = s * g.u(0.1, 0.3);
        f[0].hx_hi = f[0].hx_lo * (g.b(0.3) ? 1.0 : g.u(0.6, 1.6));
        f[0].alpha = Turn{g.b(0.3) ? 0.0 : g.u(-0.08, 0.08)};
        bool planar = g.b(0.6);
        if (planar)
        {
            double k = g.b(0.3) ? 1.0 : g.u(0.6, 1.5);
            f[1] = f[0];
            f[1].hy *= k;
            f[1].hx_lo *= k;
            f[1].hx_hi *= k;
        }
        else
        {
            f[1].hy = f[0].hy * g.u(0.7, 1.4);
            f[1].hx_lo = f[0].hx_lo * g.u(0.7, 1.4);
            f[1].hx_hi = f[0].hx_hi * g.u(0.7, 1.4);
            f[1].alpha = Turn{f[0].alpha.value() + g.u(-0.04, 0.04)};
            twisted = true;
        }
        // G4Trap: face centres at -+hz tan(theta) (cos phi, sin phi); each
        // face has half-length hx_lo at y=-hy, hx_hi at y=+hy and its centre
        // line sheared by alpha
        LD tt = tanl(2 * kPi * theta);
        LD ox = hz * tt * cosl(2 * kPi * phi), oy = hz * tt * sinl(2 * kPi * phi);
        for (int i = 0; i < 2; ++i)
        {
            LD sx = (i == 0 ? -ox : ox), sy = (i == 0 ? -oy : oy);
            LD sh = tanl(2 * kPi * f[i].alpha.value()) * f[i].hy;
            VR2 v = {{double(sx - sh + f[i].hx_lo), double(sy - f[i].hy)},
                     {double(sx + sh + f[i].hx_hi), double(sy + f[i].hy)},
                     {double(sx + sh - f[i].hx_hi), double(sy + f[i].hy)},
                     {double(sx - sh - f[i].hx_lo), double(sy - f[i].hy)}};
            (i == 0 ? lo : hi) = v;
        }
        api = std::make_shared<oi::GenPrismShape>(
            std::move(l),
            oi::GenPrism::from_trap(hz, Turn{theta}, Turn{phi}, f[0], f[1]));
        from_helper = true;
        g.desc << "trap theta=" << theta << " phi=" << phi
               << (planar ? " planar" : " twisted");
    }
    else
    {
        LD tw = 0, k = 1, shx = 0, shy = 0;
        if (variant == 2)
        {
            double a = s * g.u(0.15, 0.4), b = s * g.u(0.15, 0.4);
            lo = {{a, -b}, {a, b}, {-a, b}, {-a, -b}};
            tw = 2 * kPi * g.u(0.02, 0.2) * (g.b(0.5) ? -1 : 1);
            k = g.b(0.4) ? 1.0 : g.u(0.7, 1.3);
            shx = s * g.u(-0.1, 0.1);
            shy = s * g.u(-0.1, 0.1);
            twisted = true;
            g.desc << "twisted tw=" << double(tw);
        }
        else if (variant == 3)
        {
            int n = g.i(3, 6);
            double base = g.u(0, 1), ea = s * g.u(0.2, 0.45),
                   eb = s * g.u(0.2, 0.45);
            for (int i = 0; i < n; ++i)
            {
                double a = 2 * M_PI * (base + (i + g.u(-0.25, 0.25)) / n);
                lo.push_back({ea * std::cos(a), eb * std::sin(a)});
            }
            if (g.b(0.5))
            {
                tw = 2 * kPi * g.u(-0.1, 0.1);
                twisted = true;
            }
            k = g.b(0.3) ? 1.0 : g.u(0.6, 1.4);
            shx = s * g.u(-0.15, 0.15);
            shy = s * g.u(-0.15, 0.15);
            g.desc << "affine n=" << n << " tw=" << double(tw);
        }
        else
        {
            degenerate = true;
            int sub = g.i(0, 2);
            double a = s * g.u(0.15, 0.4), b = s * g.u(0.15, 0.4);
            double px = s * g.u(-0.2, 0.2), py = s * g.u(-0.2, 0.2);
            if (sub == 2)
            {
                lo = {{-a, -b}, {a, -b}, {a, b}, {-a, b}};
                double a2 = a * g.u(0.3, 1.2);
                hi = {{-a2, py}, {a2, py}, {a2, py}, {-a2, py}};
                g.desc << "envelope";
            }
            else
            {
                if (g.b(0.5))
                    lo = {{-a, -b}, {a, 0.3 * b}, {-0.5 * a, b}};
                else
                    lo = {{-a, -b}, {a, -b}, {a, b}, {-a, b}};
                hi.assign(lo.size(), Real2{px, py});
                if (sub == 1)
                    std::swap(lo, hi);
                g.desc << (sub == 1 ? "apex-lo" : "apex-hi");
            }
        }
        if (!degenerate)
        {
            LD c = cosl(tw), sn = sinl(tw);
            for (auto const& p : lo)
                hi.push_back({double(k * (c * p[0] - sn * p[1]) + shx),
                              double(k * (sn * p[0] + c * p[1]) + shy)});
        }
        if (g.b(0.25))
        {
            std::reverse(lo.begin(), lo.end());
            std::reverse(hi.begin(), hi.end());
            g.desc << " cw";
        }
        api = std::make_shared<oi::GenPrismShape>(std::move(l),
                                                  oi::GenPrism{hz, lo, hi});
    }
    g.desc.precision(17);
    g.desc << " hz=" << hz << " lo=";
    for (auto const& p : lo)
        g.desc << "(" << p[0] << "," << p[1] << ")";
    g.desc << " hi=";
    for (auto const& p : hi)
        g.desc << "(" << p[0] << "," << p[1] << ")";
    g.desc << "}";
    Made m;
    // F12: a side face whose end edges are twisted by less than ~sqrt(2 rel)
    // is emitted as the plane through the lower edge, although its upper
    // corner is farther than the tolerance from that plane
    {
        size_t n = lo.size();
        for (size_t i = 0; i < n; ++i)
        {
            size_t j = (i + 1) % n;
            if (lo[i] == lo[j] || hi[i] == hi[j])
                continue;
            LD a[3] = {LD(lo[j][0]) - lo[i][0], LD(lo[j][1]) - lo[i][1], 0};
            LD b[3] = {LD(hi[i][0]) - lo[i][0], LD(hi[i][1]) - lo[i][1], 2 * LD(hz)};
            LD c[3] = {LD(hi[i][0]) - hi[j][0], LD(hi[i][1]) - hi[j][1], 0};
            LD d[3] = {LD(lo[j][0]) - hi[j][0], LD(lo[j][1]) - hi[j][1], -2 * LD(hz)};
            auto cross = [](LD const* u, LD const* v, LD* o) {
                o[0] = u[1] * v[2] - u[2] * v[1];
                o[1] = u[2] * v[0] - u[0] * v[2];
                o[2] = u[0] * v[1] - u[1] * v[0];
                LD nn = sqrtl(o[0] * o[0] + o[1] * o[1] + o[2] * o[2]);
                for (int k = 0; k < 3; ++k)
                    o[k] /= nn;
            };
            LD nl[3], nh[3];
            cross(a, b, nl);
            cross(c, d, nh);
            LD dotn = nl[0] * nh[0] + nl[1] * nh[1] + nl[2] * nh[2];
            LD e[3] = {LD(hi[j][0]) - lo[i][0], LD(hi[j][1]) - lo[i][1], 2 * LD(hz)};
            LD dev = fabsl(nl[0] * e[0] + nl[1] * e[1] + nl[2] * e[2]);
            if (fabsl(1 - dotn) < 1.1L * g.tol.rel && dev > 0.5L * g.tol.abs)
            {
                if (!g.lim.allow_flattened_twist)
                    throw Excluded("F12 class: flattened small twist");
                m.known |= KF12;
                ++g.feat.n_flat_twist;
                break;
            }
        }
    }
    m.api = api;
    m.orc = genprism_oracle(hz, lo, hi);
    m.bounded = true;
    m.r = genprism_radius(hz, lo, hi);
    ++g.feat.prim[P_GENPRISM];
    if (twisted)
        ++g.feat.n_twisted;
    if (degenerate)
        ++g.feat.n_degenerate;
    (void)from_helper;
    return m;
}

//---------------------------------------------------------------------------//
// Parameters of a simple primitive of circumradius <= s
inline std::vector<double>
simple_params(Ctx& g, int kind, LD s_, bool no_skew = false)
{
    double s = double(s_);
    switch (kind)
    {
        case P_BOX:
            return {s * g.u(0.2, 0.57), s * g.u(0.2, 0.57), s * g.u(0.2, 0.57)};
        case P_SPHERE:
            return {s * g.u(0.3, 1.0)};
        case P_CYL:
            return {s * g.u(0.2, 0.7), s * g.u(0.2, 0.7)};
        case P_CONE: {
            double a = s * g.u(0.0, 0.7), b = s * g.u(0.0, 0.7);
            int z = int(g.pick({6, 1, 1}));
            if (z == 1)
                a = 0;
            else if (z == 2)
                b = 0;
            if (std::fabs(a - b) < 0.05 * s)
                (a < b ? b : a) += 0.1 * s;
            return {a, b, s * g.u(0.2, 0.69)};
        }
        case P_ELL:
            return {s * g.u(0.2, 1.0), s * g.u(0.2, 1.0), s * g.u(0.2, 1.0)};
        case P_PRISM: {
            int n = g.i(3, 8);
            double orient = g.b(0.4) ? 0.0 : g.u(0.0, 0.999);
            if (orient != 0)
                ++g.feat.n_oriented_prism;
            return {double(n),
                    s * g.u(0.2, 0.69) * std::cos(M_PI / n),
                    s * g.u(0.2, 0.69), orient};
        }
        case P_PARA: {
            double al = 0, th = 0;
            if (g.lim.allow_parallelepiped_skew && !no_skew && g.b(0.6))
            {
                if (g.b(0.7))
                    al = g.u(-0.12, 0.12);
                if (g.b(0.7))
                    th = g.u(0.0, 0.12);
            }
            if (al != 0 || th != 0)
                ++g.feat.n_skew;
            return {s * g.u(0.15, 0.4), s * g.u(0.15, 0.4), s * g.u(0.15, 0.4),
                    al, th, g.b(0.3) ? 0.0 : g.u(0, 0.999)};
        }
        case P_WEDGE: {
            double st, in;
            gen_angle(g, st, in);
            st = std::fmod(std::fmod(st, 1.0) + 1.0, 1.0);
            if (in > 0.5)
                in = 1 - in;
            return {st, in};
        }
    }
    return {};
}

//---------------------------------------------------------------------------//
inline Made gen_solid(Ctx& g, int kind, LD s_)
{
    double s = double(s_);
    Made m;
    m.bounded = true;
    std::string l = g.lab(pk_name(kind));
    bool has_inner = g.b(0.6);
    bool has_angle = !has_inner || g.b(0.5);
    double st = 0, in = 1;
    if (has_angle)
        gen_angle(g, st, in);
    std::vector<SPN> parts;
    g.desc.precision(17);
    g.desc << pk_name(kind) << "{";
    auto inner_hh = [&](double hh) {
        return g.b(0.3) ? hh * g.u(0.3, 0.95) : hh;
    };
    switch (kind)
    {
        case P_CYLSOLID: {
            double r = s * g.u(0.2, 0.7), hh = s * g.u(0.15, 0.69);
            parts.push_back(mk(K::cyl, std::vector<LD>{r, hh}));
            std::optional<oi::Cylinder> inner;
            g.desc << r << "," << hh;
            if (has_inner)
            {
                double ri = r * g.u(0.1, 0.9), hi = inner_hh(hh);
                inner = oi::Cylinder{ri, hi};
                parts.push_back(mk(K::neg, std::vector<SPN>{mk(
                                               K::cyl, std::vector<LD>{ri, hi})}));
                g.desc << ";in " << ri << "," << hi;
            }
            m.api = std::make_shared<oi::CylinderSolid>(
                std::move(l), oi::Cylinder{r, hh}, std::move(inner),
                mk_sea(has_angle, st, in));
            m.r = hypotl(r, hh);
            break;
        }
        case P_SPHSOLID: {
            double r = s * g.u(0.3, 1.0);
            parts.push_back(mk(K::sphere, std::vector<LD>{r}));
            std::optional<oi::Sphere> inner;
            g.desc << r;
            if (has_inner)
            {
                double ri = r * g.u(0.1, 0.9);
                inner = oi::Sphere{ri};
                parts.push_back(mk(K::neg, std::vector<SPN>{mk(
                                               K::sphere, std::vector<LD>{ri})}));
                g.desc << ";in " << ri;
            }
            m.api = std::make_shared<oi::SphereSolid>(
                std::move(l), oi::Sphere{r}, std::move(inner),
                mk_sea(has_angle, st, in));
            m.r = r;
            break;
        }
        case P_CONESOLID: {
            auto q = simple_params(g, P_CONE, s_);
            parts.push_back(mk(K::cone, std::vector<LD>{q[0], q[1], q[2]}));
            std::optional<oi::Cone> inner;
            g.desc << q[0] << "," << q[1] << "," << q[2];
            if (has_inner)
            {
                double a = q[0] * g.u(0.1, 0.9), b = q[1] * g.u(0.1, 0.9),
                       hi = inner_hh(q[2]);
                inner = oi::Cone{Real2{a, b}, hi};
                parts.push_back(mk(K::neg, std::vector<SPN>{mk(
                                               K::cone, std::vector<LD>{a, b, hi})}));
                g.desc << ";in " << a << "," << b << "," << hi;
            }
            m.api = std::make_shared<oi::ConeSolid>(
                std::move(l), oi::Cone{Real2{q[0], q[1]}, q[2]},
                std::move(inner), mk_sea(has_angle, st, in));
            m.r = hypotl(std::max(q[0], q[1]), q[2]);
            break;
        }
        default: {
            auto q = simple_params(g, P_PRISM, s_);
            parts.push_back(
                mk(K::prism, std::vector<LD>{q[0], q[1], q[2], q[3]}));
            std::optional<oi::Prism> inner;
            g.desc << q[0] << "," << q[1] << "," << q[2] << "," << q[3];
            if (has_inner)
            {
                double a = q[1] * g.u(0.1, 0.9), hi = inner_hh(q[2]);
                inner = oi::Prism{int(q[0]), a, hi, q[3]};
                parts.push_back(mk(
                    K::neg, std::vector<SPN>{mk(
                                K::prism, std::vector<LD>{q[0], a, hi, q[3]})}));
                g.desc << ";in " << a << "," << hi;
            }
            m.api = std::make_shared<oi::PrismSolid>(
                std::move(l), oi::Prism{int(q[0]), q[1], q[2], q[3]},
                std::move(inner), mk_sea(has_angle, st, in));
            m.r = hypotl(q[1] / std::cos(M_PI / q[0]), q[2]);
            break;
        }
    }
    if (has_angle)
    {
        parts.push_back(mk_angle(st, in));
        g.desc << ";angle " << st << "," << in;
    }
    g.desc << "}";
    m.orc = mk(K::all, std::move(parts));
    ++g.feat.prim[kind];
    return m;
}

//---------------------------------------------------------------------------//
inline Made gen_poly(Ctx& g, int kind, LD s_)
{
    double s = double(s_);
    bool prism = (kind == P_POLYPRISM);
    int nseg = g.i(1, prism ? 3 : 4);
    bool hollow = g.b(0.4);
    bool has_angle = g.b(0.35);
    double st = 0, in = 1;
    if (has_angle)
        gen_angle(g, st, in);
    int ns = 0;
    double orient = 0;
    if (prism)
    {
        ns = g.i(3, 8);
        orient = g.b(0.4) ? 0.0 : g.u(0, 0.999);
    }
    std::vector<double> z, ro, ri;
    double zc = s * g.u(-0.6, -0.2);
    if (!prism)
    {
        // grid points with radii; zero-height steps allowed
        z.push_back(zc);
        for (int i = 0; i <= nseg; ++i)
        {
            if (i)
            {
                bool step = (i < nseg) && g.b(0.15);
                zc += step ? 0.0 : s * g.u(0.1, 0.35);
                z.push_back(zc);
            }
            double r = s * g.u(0.15, 0.6);
            if (i && g.b(0.3))
                r = ro.back() > 0 ? ro.back() : r;
            ro.push_back(r);
        }
        int zr = int(g.pick({8, 1, 1}));
        if (zr == 1 && ro[1] > 0 && z[1] > z[0])
            ro[0] = 0;
        if (zr == 2 && ro[nseg - 1] > 0 && z[nseg] > z[nseg - 1])
            ro[nseg] = 0;
        if (hollow)
            for (double r : ro)
                ri.push_back(r * g.u(0.1, 0.8));
    }
    else
    {
        // constant apothem per segment, radius changes at zero-height steps
        for (int i = 0; i < nseg; ++i)
        {
            double a = s * g.u(0.15, 0.5) * std::cos(M_PI / ns);
            double ai = a * g.u(0.2, 0.8);
            double z0 = zc;
            zc += s * g.u(0.1, 0.4);
            z.push_back(z0);
            z.push_back(zc);
            ro.push_back(a);
            ro.push_back(a);
            if (hollow)
            {
                ri.push_back(ai);
                ri.push_back(ai);
            }
        }
    }
    g.desc.precision(17);
    g.desc << pk_name(kind) << "{";
    if (prism)
        g.desc << "n=" << ns << " o=" << orient << " ";
    for (size_t i = 0; i < z.size(); ++i)
        g.desc << "(" << z[i] << ":" << ro[i] << (hollow ? "/" : "")
               << (hollow ? std::to_string(ri[i]) : "") << ")";
    if (has_angle)
        g.desc << " angle " << st << "," << in;
    g.desc << "}";

    // ORACLE: union over the non-degenerate z segments
    std::vector<SPN> segs;
    LD rmax = 0;
    for (size_t i = 0; i + 1 < z.size(); ++i)
    {
        if (!(z[i + 1] > z[i]))
            continue;
        LD hh = (LD(z[i + 1]) - z[i]) / 2;
        Xf x;
        x.t[2] = LD(z[i]) + hh;
        SPN outer = prism ? mk(K::prism, std::vector<LD>{LD(ns), ro[i], hh, orient})
                          : mk(K::cone, std::vector<LD>{ro[i], ro[i + 1], hh});
        SPN seg = outer;
        if (hollow)
        {
            SPN inner = prism
                            ? mk(K::prism, std::vector<LD>{LD(ns), ri[i], hh, orient})
                            : mk(K::cone, std::vector<LD>{ri[i], ri[i + 1], hh});
            seg = mk(K::all,
                     std::vector<SPN>{outer, mk(K::neg, std::vector<SPN>{inner})});
        }
        segs.push_back(mk_xf(x, seg));
        rmax = std::max({rmax, LD(ro[i]), LD(ro[i + 1])});
    }
    SPN orc = mk(K::any, std::move(segs));
    if (has_angle)
        orc = mk(K::all, std::vector<SPN>{orc, mk_angle(st, in)});

    Made m;
    m.orc = orc;
    m.bounded = true;
    LD zlo = z.front(), zhi = z.back();
    m.c = {0, 0, (zlo + zhi) / 2};
    if (prism)
        rmax = rmax / cosl(kPi / ns);
    m.r = hypotl(rmax, (zhi - zlo) / 2);
    std::string l = g.lab(pk_name(kind));
    using VR = oi::PolySegments::VecReal;
    auto segments = hollow ? oi::PolySegments{VR(ri), VR(ro), VR(z)}
                           : oi::PolySegments{VR(ro), VR(z)};
    if (prism)
        m.api = oi::PolyPrism::or_solid(std::move(l), std::move(segments),
                                        mk_sea(has_angle, st, in), ns, orient);
    else
        m.api = oi::PolyCone::or_solid(std::move(l), std::move(segments),
                                       mk_sea(has_angle, st, in));
    ++g.feat.prim[kind];
    return m;
}

//---------------------------------------------------------------------------//
inline Made gen_leaf(Ctx& g, LD s, bool allow_unbounded)
{
    int kind = int(g.pick({10, 7, 8, 8, 7, 8, 12, 6, allow_unbounded ? 3.0 : 0.0,
                           5, 4, 4, 4, 7, 6}));
    if (kind == P_GENPRISM)
        return gen_genprism(g, s);
    if (kind >= P_CYLSOLID && kind <= P_PRISMSOLID)
        return gen_solid(g, kind, s);
    if (kind == P_POLYCONE || kind == P_POLYPRISM)
        return gen_poly(g, kind, s);
    return prim_from(g, kind, simple_params(g, kind, s));
}

// convex bounded primitive of circumradius <= s (unit boundaries)
inline Made gen_boundary_prim(Ctx& g, LD s)
{
    int kind = int(g.pick({8, 6, 5, 2, 2, 3, 0, 2}));
    return prim_from(g, kind, simple_params(g, kind, s, true));
}

inline void enclosing_ball(std::vector<Made> const& v, P3& c, LD& r)
{
    c = v[0].c;
    r = 0;
    for (auto const& m : v)
    {
        P3 d{m.c.x - c.x, m.c.y - c.y, m.c.z - c.z};
        r = std::max(r, norm(d) + m.r);
    }
}

inline Made gen_obj(Ctx& g, int depth, LD s);

inline Made gen_placed_kid(Ctx& g, int depth, LD s)
{
    Made k = gen_obj(g, depth, s * 0.8L);
    if (g.b(0.7))
    {
        Xf x;
        double uu[3];
        for (int i = 0; i < 3; ++i)
        {
            uu[i] = g.u(-0.5, 0.5);
            x.t[i] = LD(double(s) * uu[i]);
        }
        // Tiny-offset class (no extra draw, so that older replay files decode
        // as before): when the first component falls in the central 8% the
        // whole translation is scaled down to s * 10^-2 .. 10^-6, i.e. offsets
        // between the tolerance and its square root, where "is this still
        // centred / the same surface" decisions are taken.
        if (std::fabs(uu[0]) < 0.04)
        {
            for (int i = 0; i < 3; ++i)
            {
                double a = std::fabs(uu[i]);
                double f = i == 0 ? (a * 1000 - std::floor(a * 1000)) : 2 * a;
                double mag = std::pow(10.0, -2 - 4 * f);
                x.t[i] = LD(double(s) * (uu[i] < 0 ? -mag : mag));
            }
            ++g.feat.n_tiny_offset;
        }
        if (g.b(0.4))
            gen_rotation(g, x);
        g.desc << "@";
        k = xformed(g, k, x);
    }
    return k;
}

inline Made gen_obj(Ctx& g, int depth, LD s)
{
    int what = depth > 0 ? int(g.pick({55, 30, 15})) : 0;
    if (what == 0)
        return gen_leaf(g, s, true);
    if (what == 2)
    {
        Xf x;
        if (g.b(0.7))
            for (int i = 0; i < 3; ++i)
                x.t[i] = LD(double(s) * g.u(-0.3, 0.3));
        gen_rotation(g, x);
        g.desc << "xf(";
        Made in = gen_obj(g, depth - 1, s);
        g.desc << ")";
        if (in.api && dynamic_cast<oi::Transformed const*>(in.api.get()))
            ++g.feat.n_compose;
        return xformed(g, in, x);
    }
    int op = int(g.pick({4, 3, 3, 1}));
    Made m;
    std::string l = g.lab("csg");
    if (op == 0)
    {
        int n = g.i(2, 3);
        std::vector<Made> kids;
        g.desc << "any(";
        for (int i = 0; i < n; ++i)
        {
            kids.push_back(gen_placed_kid(g, depth - 1, s));
            g.desc << (i + 1 < n ? " | " : ")");
        }
        std::vector<SPO> a;
        std::vector<SPN> o;
        m.bounded = true;
        for (auto const& k : kids)
        {
            a.push_back(k.api);
            o.push_back(k.orc);
            m.bounded = m.bounded && k.bounded;
            m.known |= k.known;
            m.has_ell = m.has_ell || k.has_ell;
            m.ells.insert(m.ells.end(), k.ells.begin(), k.ells.end());
        }
        if (m.bounded)
            enclosing_ball(kids, m.c, m.r);
        m.api = std::make_shared<oi::AnyObjects>(std::move(l), std::move(a));
        m.orc = mk(K::any, std::move(o));
        ++g.feat.n_any;
    }
    else if (op == 1 || op == 2)
    {
        g.desc << (op == 1 ? "all(" : "sub(");
        Made a = gen_placed_kid(g, depth - 1, s);
        g.desc << (op == 1 ? " & " : " - ");
        Made b = gen_placed_kid(g, depth - 1, s);
        g.desc << ")";
        m.known = a.known | b.known;
        m.has_ell = a.has_ell || b.has_ell;
        m.ells = a.ells;
        m.ells.insert(m.ells.end(), b.ells.begin(), b.ells.end());
        if (op == 1)
        {
            m.api = std::make_shared<oi::AllObjects>(
                std::move(l), std::vector<SPO>{a.api, b.api});
            m.orc = mk(K::all, std::vector<SPN>{a.orc, b.orc});
            Made const& pick = (a.bounded && (!b.bounded || a.r <= b.r)) ? a : b;
            m.bounded = a.bounded || b.bounded;
            m.c = pick.c;
            m.r = pick.r;
            ++g.feat.n_all;
        }
        else
        {
            m.api = oi::make_subtraction(std::move(l), a.api, b.api);
            m.orc = mk(K::all,
                       std::vector<SPN>{a.orc,
                                        mk(K::neg, std::vector<SPN>{b.orc})});
            m.bounded = a.bounded;
            m.c = a.c;
            m.r = a.r;
            ++g.feat.n_sub;
        }
    }
    else
    {
        g.desc << "not(";
        Made a = gen_obj(g, depth - 1, s);
        g.desc << ")";
        m.api = std::make_shared<oi::NegatedObject>(std::move(l), a.api);
        m.orc = mk(K::neg, std::vector<SPN>{a.orc});
        m.bounded = false;
        m.known = a.known;
        m.has_ell = a.has_ell;
        m.ells = a.ells;
        ++g.feat.n_neg;
    }
    return m;
}

inline Made ensure_bounded(Ctx& g, Made m, LD s)
{
    if (m.bounded)
        return m;
    g.desc << " cap:";
    int kind = int(g.pick({1, 1, 1}));
    Made cap = prim_from(g, kind, simple_params(g, kind, s));
    Made r;
    r.api = std::make_shared<oi::AllObjects>(g.lab("cap"),
                                             std::vector<SPO>{cap.api, m.api});
    r.orc = mk(K::all, std::vector<SPN>{cap.orc, m.orc});
    r.bounded = true;
    r.c = cap.c;
    r.r = cap.r;
    r.known = m.known;
    r.has_ell = m.has_ell;
    r.ells = m.ells;
    ++g.feat.n_all;
    return r;
}

}  // namespace geogen
}  // namespace verif

#include "geogen_unit.hh"
