// C04 — shared fixture for the interactor harnesses (c04_em_basic,
// c04_em_data): a public-API re-implementation of the small part of the
// unit tests' InteractorHostTestBase that an interactor needs, a draw-counting
// RNG engine that feeds the production 2x32-bit -> double conversion, and the
// independent (long double) oracle for the interaction result.
#pragma once

#include <cmath>
#include <cstdint>
#include <array>
#include <cstdarg>
#include <cstdio>
#include <functional>
#include <memory>
#include <string>
#include <vector>

#include "caselog.hh"
#include "corecel/Types.hh"
#include "corecel/cont/Array.hh"
#include "corecel/cont/Span.hh"
#include "corecel/data/CollectionStateStore.hh"
#include "corecel/data/StackAllocator.hh"
#include "corecel/io/Logger.hh"
#include "corecel/sys/Environment.hh"
#include "celeritas/Constants.hh"
#include "celeritas/Quantities.hh"
#include "celeritas/Types.hh"
#include "celeritas/io/ImportModel.hh"
#include "celeritas/io/ImportProcess.hh"
#include "celeritas/mat/ElementView.hh"
#include "celeritas/mat/IsotopeView.hh"
#include "celeritas/mat/MaterialParams.hh"
#include "celeritas/mat/MaterialView.hh"
#include "celeritas/phys/CutoffParams.hh"
#include "celeritas/phys/CutoffView.hh"
#include "celeritas/phys/ImportedProcessAdapter.hh"
#include "celeritas/phys/Interaction.hh"
#include "celeritas/phys/PDGNumber.hh"
#include "celeritas/phys/ParticleParams.hh"
#include "celeritas/phys/ParticleTrackView.hh"
#include "celeritas/phys/Secondary.hh"
#include "celeritas/random/detail/GenerateCanonical32.hh"
#include "celeritas/random/distribution/GenerateCanonical.hh"

namespace verif
{
namespace c04
{
//---------------------------------------------------------------------------//
// Draw-counting random engine.
//
// 32-bit outputs come from splitmix64 seeded from the choice sequence.  Up to
// two *canonical* draws (pairs of 32-bit outputs at even positions) can be
// forced to an extreme bit pattern (0, 2^-53, 1/2, 1 - 2^-53): every 32-bit
// output sequence is a legal stream of the production generator, and the
// extreme values are the ones a finite random search never reaches.
// A hard limit turns a non-terminating rejection loop into an exception.
//---------------------------------------------------------------------------//
struct DrawLimitExceeded
{
};

class CountingEngine
{
  public:
    using result_type = unsigned int;
    static constexpr result_type min() { return 0u; }
    static constexpr result_type max() { return 0xffffffffu; }

    explicit CountingEngine(uint64_t seed, long limit)
        : s_(seed), limit_(limit)
    {
    }

    // Force canonical draw number `k` (0-based, counted in pairs) to the
    // pattern (upper, lower)
    void force(long k, uint32_t upper, uint32_t lower)
    {
        if (nforced_ < 2)
        {
            fk_[nforced_] = k;
            fu_[nforced_] = upper;
            fl_[nforced_] = lower;
            ++nforced_;
        }
    }

    result_type operator()()
    {
        long i = count_++;
        if (count_ > limit_)
            throw DrawLimitExceeded{};
        uint32_t v = this->next32();
        for (int f = 0; f < nforced_; ++f)
        {
            if (i == 2 * fk_[f])
            {
                v = fu_[f];
                ++hits_;
            }
            else if (i == 2 * fk_[f] + 1)
                v = fl_[f];
        }
        return v;
    }

    long count() const { return count_; }
    int forced_hits() const { return hits_; }

  private:
    uint32_t next32()
    {
        if (have_)
        {
            have_ = false;
            return uint32_t(buf_);
        }
        uint64_t z = (s_ += 0x9e3779b97f4a7c15ull);
        z = (z ^ (z >> 30)) * 0xbf58476d1ce4e5b9ull;
        z = (z ^ (z >> 27)) * 0x94d049bb133111ebull;
        z ^= z >> 31;
        buf_ = z;
        have_ = true;
        return uint32_t(z >> 32);
    }

    uint64_t s_;
    uint64_t buf_ = 0;
    bool have_ = false;
    long count_ = 0;
    long limit_;
    int nforced_ = 0;
    int hits_ = 0;
    long fk_[2] = {-1, -1};
    uint32_t fu_[2] = {0, 0}, fl_[2] = {0, 0};
};
}  // namespace c04
}  // namespace verif

namespace celeritas
{
// Same dispatch as the production XorwowRngEngine specialisation: canonical
// reals are built from two 32-bit outputs by detail::GenerateCanonical32
// (code under test), not by std::generate_canonical.
template<class RealType>
class GenerateCanonical<verif::c04::CountingEngine, RealType>
{
  public:
    using real_type = RealType;
    using result_type = RealType;
    result_type operator()(verif::c04::CountingEngine& rng)
    {
        return detail::GenerateCanonical32<RealType>()(rng);
    }
};
}  // namespace celeritas

namespace verif
{
namespace c04
{
using namespace celeritas;
using units::MevEnergy;
using units::MevMass;

template<Ownership W, MemSpace M>
using SecondaryStackData = StackAllocatorData<Secondary, W, M>;

constexpr double eps_d = 2.220446049250313e-16;

//---------------------------------------------------------------------------//
// Particle / material / cut menu, built once.
//---------------------------------------------------------------------------//
enum Pid
{
    p_electron = 0,
    p_positron,
    p_gamma,
    p_mu_minus,
    p_mu_plus,
    p_proton,
    p_neutron,
    p_count
};

struct ElemDef
{
    int z;
    double amu;
    char const* name;
    int a;  // mass number of the (first) isotope
    int a2 = 0;  // optional second isotope
    double frac2 = 0;  // its abundance
};

// Independent definition of the world (the oracle reads masses from here)
struct WorldDef
{
    long double mass[p_count] = {0.5109989461L,
                                 0.5109989461L,
                                 0.0L,
                                 105.6583745L,
                                 105.6583745L,
                                 938.272013L,
                                 939.565413L};
    int charge[p_count] = {-1, 1, 0, -1, 1, 1, 0};
};

constexpr int n_cutsets = 4;
constexpr int stack_capacity = 32;

class World
{
  public:
    WorldDef def;
    std::shared_ptr<ParticleParams const> particles;
    std::shared_ptr<MaterialParams const> materials;
    std::shared_ptr<CutoffParams const> cutoffs[n_cutsets];
    ParticleId pid[p_count];
    int num_materials = 0;
    // cut[k][m][0:gamma,1:e-,2:e+]
    std::vector<std::vector<std::array<double, 3>>> cut;

    CollectionStateStore<ParticleStateData, MemSpace::host> pstate;
    CollectionStateStore<SecondaryStackData, MemSpace::host> stack;

    // elements available (index == ElementId)
    std::vector<ElemDef> elems;
    // per material: element ids
    std::vector<std::vector<int>> mat_elems;
    // per element: nuclear masses of its isotopes [MeV]
    std::vector<std::vector<double>> iso_mass;

    explicit World(std::vector<ElemDef> elements,
                   std::vector<std::pair<double, std::vector<std::pair<int, double>>>>
                       mats,
                   std::array<double, n_cutsets> base
                   = {1e-3, 2e-2, 0.7, 40})
        : elems(std::move(elements))
    {
        using namespace celeritas::units;
        using constants::stable_decay_constant;
        ParticleParams::Input pin = {
            {"electron",
             pdg::electron(),
             MevMass{double(def.mass[p_electron])},
             ElementaryCharge{-1},
             stable_decay_constant},
            {"positron",
             pdg::positron(),
             MevMass{double(def.mass[p_positron])},
             ElementaryCharge{1},
             stable_decay_constant},
            {"gamma",
             pdg::gamma(),
             zero_quantity(),
             zero_quantity(),
             stable_decay_constant},
            {"mu_minus",
             pdg::mu_minus(),
             MevMass{double(def.mass[p_mu_minus])},
             ElementaryCharge{-1},
             stable_decay_constant},
            {"mu_plus",
             pdg::mu_plus(),
             MevMass{double(def.mass[p_mu_plus])},
             ElementaryCharge{1},
             stable_decay_constant},
            {"proton",
             pdg::proton(),
             MevMass{double(def.mass[p_proton])},
             ElementaryCharge{1},
             stable_decay_constant},
            {"neutron",
             pdg::neutron(),
             MevMass{double(def.mass[p_neutron])},
             zero_quantity(),
             1.0 / 879.4},
        };
        particles = std::make_shared<ParticleParams>(std::move(pin));
        pid[p_electron] = particles->find(pdg::electron());
        pid[p_positron] = particles->find(pdg::positron());
        pid[p_gamma] = particles->find(pdg::gamma());
        pid[p_mu_minus] = particles->find(pdg::mu_minus());
        pid[p_mu_plus] = particles->find(pdg::mu_plus());
        pid[p_proton] = particles->find(pdg::proton());
        pid[p_neutron] = particles->find(pdg::neutron());

        MaterialParams::Input min;
        for (size_t i = 0; i < elems.size(); ++i)
        {
            auto const& e = elems[i];
            // nuclear mass ~ atomic mass - Z * m_e (an *input* of the case)
            std::vector<double> masses;
            std::vector<std::pair<IsotopeId, real_type>> fracs;
            auto add_iso = [&](int a, double nucl, double frac) {
                fracs.push_back(
                    {IsotopeId{IsotopeId::size_type(min.isotopes.size())},
                     frac});
                min.isotopes.push_back(
                    {AtomicNumber{e.z},
                     AtomicNumber{a},
                     MevEnergy{8.0 * a},
                     MevEnergy{7.0},
                     MevEnergy{8.0},
                     MevMass{nucl},
                     Label{std::string(e.name) + std::to_string(a)}});
                masses.push_back(nucl);
            };
            if (e.a2 == 0)
                add_iso(e.a, e.amu * 931.494102 - e.z * 0.5109989461, 1.0);
            else
            {
                add_iso(e.a,
                        e.a * 931.2 - e.z * 0.5109989461,
                        1.0 - e.frac2);
                add_iso(e.a2, e.a2 * 931.2 - e.z * 0.5109989461, e.frac2);
            }
            iso_mass.push_back(masses);
            min.elements.push_back(
                {AtomicNumber{e.z}, AmuMass{e.amu}, fracs, Label{e.name}});
        }
        int mi = 0;
        for (auto const& m : mats)
        {
            MaterialParams::MaterialInput inp;
            inp.number_density = native_value_from(MolCcDensity{m.first});
            inp.temperature = 293.0;
            inp.matter_state = m.first < 1e-3 ? MatterState::gas
                                              : MatterState::solid;
            std::vector<int> els;
            for (auto const& ef : m.second)
            {
                inp.elements_fractions.push_back(
                    {ElementId{ElementId::size_type(ef.first)}, ef.second});
                els.push_back(ef.first);
            }
            inp.label = Label{"mat" + std::to_string(mi++)};
            min.materials.push_back(std::move(inp));
            mat_elems.push_back(std::move(els));
        }
        num_materials = int(mats.size());
        materials = std::make_shared<MaterialParams>(std::move(min));
        // NOTE: MaterialParams sorts a material's elements by ... nothing:
        // components keep input order (checked in setup by the harness).

        static double const mfac[8] = {1, 3.1, 0.11, 7.3, 0.5, 1.9, 0.27, 4.4};
        static double const pfac[3] = {1.0, 1.3, 1.25};
        cut.resize(n_cutsets);
        for (int k = 0; k < n_cutsets; ++k)
        {
            CutoffParams::Input cin;
            cin.particles = particles;
            cin.materials = materials;
            CutoffParams::MaterialCutoffs cg, ce, cp, cpr;
            cut[k].resize(num_materials);
            for (int m = 0; m < num_materials; ++m)
            {
                double b = base[k] * mfac[m % 8];
                cut[k][m] = {b * pfac[0], b * pfac[1], b * pfac[2]};
                cg.push_back({MevEnergy{cut[k][m][0]}, 0.07});
                ce.push_back({MevEnergy{cut[k][m][1]}, 0.07});
                cp.push_back({MevEnergy{cut[k][m][2]}, 0.07});
                cpr.push_back({MevEnergy{b}, 0.07});
            }
            cin.cutoffs.insert({pdg::gamma(), cg});
            cin.cutoffs.insert({pdg::electron(), ce});
            cin.cutoffs.insert({pdg::positron(), cp});
            cin.cutoffs.insert({pdg::proton(), cpr});
            cutoffs[k] = std::make_shared<CutoffParams>(cin);
        }

        pstate = CollectionStateStore<ParticleStateData, MemSpace::host>(
            particles->host_ref(), 1);
        stack = CollectionStateStore<SecondaryStackData, MemSpace::host>(
            stack_capacity);
    }

    // Mock ImportProcess (as InteractorHostTestBase::make_import_process)
    ImportProcess make_import_process(PDGNumber particle,
                                      PDGNumber secondary,
                                      ImportProcessClass ipc,
                                      std::vector<ImportModelClass> models,
                                      double elo = 0,
                                      double ehi = 1e12) const
    {
        ImportProcess result;
        result.particle_pdg = particle.get();
        result.secondary_pdg = secondary ? secondary.get() : 0;
        result.process_type = ImportProcessType::electromagnetic;
        result.process_class = ipc;
        for (auto& mcls : models)
        {
            ImportModel m;
            m.model_class = mcls;
            m.materials.resize(materials->num_materials());
            for (ImportModelMaterial& imm : m.materials)
                imm.energy = {elo, ehi};
            result.models.push_back(std::move(m));
        }
        return result;
    }

    ParticleTrackView make_particle(Pid p, double energy)
    {
        ParticleTrackView v(
            particles->host_ref(), pstate.ref(), TrackSlotId{0});
        ParticleTrackView::Initializer_t init;
        init.particle_id = pid[p];
        init.energy = MevEnergy{energy};
        v = init;
        return v;
    }

    MaterialView make_material(int m) const
    {
        return MaterialView(materials->host_ref(),
                            MaterialId{MaterialId::size_type(m)});
    }

    CutoffView make_cutoff(int k, int m) const
    {
        return CutoffView(cutoffs[k]->host_ref(),
                          MaterialId{MaterialId::size_type(m)});
    }

    int pid_index(ParticleId id) const
    {
        for (int i = 0; i < p_count; ++i)
            if (pid[i] == id)
                return i;
        return -1;
    }
};

//---------------------------------------------------------------------------//
// Case input shared by all models
//---------------------------------------------------------------------------//
struct CaseInput
{
    Pid particle = p_gamma;
    double energy = 1;
    Real3 dir{0, 0, 1};
    int mat = 0;
    int elcomp = 0;  // element component within the material
    int cutset = 0;
    bool f8_dir = false;  // direction of the F8 class (0,0,+-(1-k ulp))
    bool near_axis = false;  // sin(theta_z) in (0, 0.005)
};

// What the model promises (taken from the interactor's documentation)
struct ModelSpec
{
    char const* name = "";
    int needed = 0;  // secondaries allocated per successful call
    bool closed = false;  // all products returned -> momentum check
    // bound on 32-bit draws: >= 100 x the largest count observed in 3e5
    // cases per harness (402 for the table-free models, 3324 for SB e-)
    long draw_bound = 50000;
    int ns_min = -1;  // >= 0: span may be a prefix of the allocation
};

// Result extracted by value (the stack is reused)
struct Outcome
{
    Interaction::Action action;
    double energy;
    Real3 direction;
    double deposit;
    std::vector<Secondary> sec;
    Secondary const* sec_ptr = nullptr;
    long draws = 0;
    bool hit_limit = false;
};

inline bool finite3(Real3 const& d)
{
    return std::isfinite(d[0]) && std::isfinite(d[1]) && std::isfinite(d[2]);
}
inline bool anynan3(Real3 const& d)
{
    return std::isnan(d[0]) || std::isnan(d[1]) || std::isnan(d[2]);
}
inline long double norm3(Real3 const& d)
{
    long double x = d[0], y = d[1], z = d[2];
    return sqrtl(x * x + y * y + z * z);
}
inline long double momentum_of(long double T, long double m)
{
    return sqrtl(T * (T + 2 * m));
}

//---------------------------------------------------------------------------//
// Stack handling: a fixed-capacity stack is pre-filled with sentinels so that
// exactly `free_slots` remain.  Returns the prefill count.
//---------------------------------------------------------------------------//
inline int prefill_stack(World& w, int free_slots)
{
    StackAllocator<Secondary> alloc(w.stack.ref());
    alloc.clear();
    int prefill = stack_capacity - free_slots;
    if (prefill > 0)
    {
        Secondary* s = alloc(prefill);
        for (int i = 0; i < prefill; ++i)
        {
            s[i].particle_id = ParticleId{ParticleId::size_type(1000 + i)};
            s[i].energy = MevEnergy{-7.0 - i};
            s[i].direction = {double(i), -1.0, 0.5};
        }
    }
    return prefill;
}

inline bool sentinels_intact(World& w, int prefill)
{
    auto const& storage = w.stack.ref().storage;
    for (int i = 0; i < prefill; ++i)
    {
        Secondary const& s = storage[ItemId<Secondary>{
            ItemId<Secondary>::size_type(i)}];
        if (s.particle_id != ParticleId{ParticleId::size_type(1000 + i)}
            || s.energy.value() != -7.0 - i || s.direction[0] != double(i)
            || s.direction[1] != -1.0 || s.direction[2] != 0.5)
            return false;
    }
    return true;
}

inline unsigned stack_size(World& w)
{
    return w.stack.ref().size[ItemId<size_type>{0}];
}

//---------------------------------------------------------------------------//
// Generic oracle.
//
// thr(pid_index) = the model's own production threshold for that secondary
// type (energies >= thr required); `allow_empty_secondary`: slot may be left
// default-constructed (sub-threshold secondary deposited locally, KN).
// Returns empty string when everything holds; sets *known_key for findings.
//---------------------------------------------------------------------------//
struct OracleOpts
{
    bool closed = false;  // momentum balance applies
    bool allow_empty_secondary = false;
    bool allow_unchanged = false;
    double thr[p_count] = {0, 0, 0, 0, 0, 0, 0};
    long double extra_out = 0;  // energy leaving by unmodelled channels (none)
    double mom_tol = 1e-7;  // relative to incident momentum
    bool outgoing_may_gain = false;
    long double ledger_abs = 0;  // absolute slack of the ledger [MeV]
};

inline std::string fmt(char const* f, ...)
{
    char buf[512];
    va_list ap;
    va_start(ap, f);
    std::vsnprintf(buf, sizeof buf, f, ap);
    va_end(ap);
    return buf;
}

struct OracleResult
{
    std::string msg;  // empty = ok
    bool momentum_failed = false;
    bool nan_seen = false;
    bool thr_ulp = false;  // threshold underrun of at most 8 ulp
    bool neg_ulp = false;  // outgoing energy in [-8 ulp(E_in), 0)
    long double mom_err = 0;  // |dp| / p_in
};

inline OracleResult check_outcome(World const& w,
                                  CaseInput const& in,
                                  Outcome const& r,
                                  OracleOpts const& o)
{
    OracleResult res;
    auto const& def = w.def;
    long double const Tin = in.energy;
    long double const min_ = def.mass[in.particle];
    auto estar = [&](int p, long double T) {
        return T + (p == p_positron ? 2 * def.mass[p_positron] : 0.0L);
    };

    if (r.action == Interaction::Action::unchanged)
    {
        if (!o.allow_unchanged)
            res.msg = "model returned `unchanged` although it documents no "
                      "such outcome for this input";
        else if (!r.sec.empty() || r.deposit != 0)
            res.msg = "`unchanged` with secondaries or energy deposit";
        return res;
    }

    // ---- validity -------------------------------------------------------
    bool absorbed = r.action == Interaction::Action::absorbed;
    if (std::isnan(r.energy) || std::isnan(r.deposit))
    {
        res.nan_seen = true;
        res.msg = "NaN outgoing energy / deposit";
        return res;
    }
    if (!std::isfinite(r.energy) || !std::isfinite(r.deposit))
    {
        res.msg = "non-finite outgoing energy / deposit";
        return res;
    }
    if (r.energy < 0)
    {
        res.neg_ulp = r.energy >= -8 * eps_d * in.energy;
        res.msg = fmt("negative outgoing energy %.17g", r.energy);
        return res;
    }
    if (r.deposit < 0)
    {
        res.msg = fmt("negative local energy deposit %.17g", r.deposit);
        return res;
    }
    if (absorbed && r.energy != 0)
    {
        res.msg = "absorbed but outgoing energy != 0";
        return res;
    }
    if (!absorbed)
    {
        if (!o.outgoing_may_gain && r.energy > in.energy + o.ledger_abs)
        {
            res.msg = fmt("outgoing energy %.17g exceeds incident %.17g",
                          r.energy,
                          in.energy);
            return res;
        }
        if (anynan3(r.direction))
        {
            res.nan_seen = true;
            res.msg = fmt("NaN outgoing direction (%g,%g,%g), outgoing "
                          "energy %.17g",
                          r.direction[0],
                          r.direction[1],
                          r.direction[2],
                          r.energy);
            return res;
        }
        long double n = norm3(r.direction);
        if (!finite3(r.direction) || fabsl(n - 1) > 1e-10L)
        {
            res.msg = fmt("outgoing direction not unit: |d|-1 = %.3Lg", n - 1);
            return res;
        }
    }
    long double esum = (absorbed ? 0.0L : estar(in.particle, r.energy))
                       + (long double)r.deposit + o.extra_out;
    long double psum[3] = {0, 0, 0};
    if (!absorbed)
    {
        long double p = momentum_of(r.energy, min_);
        for (int k = 0; k < 3; ++k)
            psum[k] += p * r.direction[k];
    }
    bool any_empty = false;
    for (size_t i = 0; i < r.sec.size(); ++i)
    {
        Secondary const& s = r.sec[i];
        if (!s.particle_id)
        {
            if (!o.allow_empty_secondary)
            {
                res.msg = fmt("secondary %zu has no particle id", i);
                return res;
            }
            if (s.energy.value() != 0)
            {
                res.msg = fmt("empty secondary %zu carries energy %g",
                              i,
                              s.energy.value());
                return res;
            }
            any_empty = true;
            continue;
        }
        int p = w.pid_index(s.particle_id);
        if (p < 0)
        {
            res.msg = fmt("secondary %zu has undefined particle id %u",
                          i,
                          s.particle_id.unchecked_get());
            return res;
        }
        double e = s.energy.value();
        if (std::isnan(e))
        {
            res.nan_seen = true;
            res.msg = fmt("secondary %zu energy is NaN", i);
            return res;
        }
        if (!std::isfinite(e) || e < 0)
        {
            res.msg = fmt("secondary %zu energy %.17g not finite/non-negative",
                          i,
                          e);
            return res;
        }
        if (e < o.thr[p])
        {
            res.thr_ulp = e >= o.thr[p] * (1 - 8 * eps_d);
            res.msg = fmt("secondary %zu (type %d) energy %.17g below the "
                          "model's production threshold %.17g",
                          i,
                          p,
                          e,
                          o.thr[p]);
            return res;
        }
        if (anynan3(s.direction))
        {
            res.nan_seen = true;
            res.msg = fmt("secondary %zu direction is NaN (%g,%g,%g)",
                          i,
                          s.direction[0],
                          s.direction[1],
                          s.direction[2]);
            return res;
        }
        long double n = norm3(s.direction);
        if (!finite3(s.direction) || fabsl(n - 1) > 1e-10L)
        {
            res.msg = fmt(
                "secondary %zu direction not unit: |d|-1 = %.3Lg", i, n - 1);
            return res;
        }
        esum += estar(p, e);
        long double pm = momentum_of(e, def.mass[p]);
        for (int k = 0; k < 3; ++k)
            psum[k] += pm * s.direction[k];
    }

    // ---- energy ledger --------------------------------------------------
    long double ein = estar(in.particle, Tin);
    if (fabsl(esum - ein) > 1e-12L * ein + o.ledger_abs)
    {
        res.msg = fmt("energy ledger: in %.17Lg out %.17Lg (rel %.3Lg)",
                      ein,
                      esum,
                      (esum - ein) / ein);
        return res;
    }

    // ---- momentum (closed final states only, nothing deposited) ---------
    if (o.closed && !any_empty && r.deposit == 0)
    {
        long double pin = momentum_of(Tin, min_);
        long double d2 = 0;
        for (int k = 0; k < 3; ++k)
        {
            long double d = psum[k] - pin * in.dir[k];
            d2 += d * d;
        }
        long double err = sqrtl(d2);
        // at rest (pin == 0) compare with the products' momentum scale
        long double scale = pin;
        if (pin == 0)
        {
            scale = 0;
            for (auto const& s : r.sec)
                scale += momentum_of(s.energy.value(),
                                     def.mass[w.pid_index(s.particle_id)]);
        }
        res.mom_err = scale > 0 ? err / scale : err;
        if (err > o.mom_tol * scale)
        {
            res.momentum_failed = true;
            res.msg = fmt("momentum not conserved: |sum p_out - p_in| = "
                          "%.6Lg = %.3Lg * p_in",
                          err,
                          res.mom_err);
            return res;
        }
    }
    return res;
}

//---------------------------------------------------------------------------//
// Generators
//---------------------------------------------------------------------------//
// Energy in [lo, hi) (lo inclusive iff lo_incl); pivots are documented branch
// thresholds / cut multiples that must also be hit exactly and +-k ulp.
inline double gen_energy(Choices& c,
                  CaseLog& log,
                  double lo,
                  bool lo_incl,
                  double hi,
                  std::vector<double> const& pivots)
{
    double const lo_min = lo_incl ? lo : std::nextafter(lo, INFINITY);
    double const hi_max = std::nextafter(hi, 0.0);
    double e;
    switch (c.pick({50, 8, 6, 12, 24}))
    {
        case 0:
            e = c.log_uniform(lo_min, hi_max);
            log.label("E:interior");
            break;
        case 1:
            e = lo_min;
            log.label("E:lower-end");
            break;
        case 2:
            e = Choices::step_ulps(lo_min, int(c.int_in(1, 3)));
            log.label("E:lower-end+ulps");
            break;
        case 3:
            e = Choices::step_ulps(hi_max, -int(c.int_in(0, 3)));
            log.label("E:upper-end");
            break;
        default: {
            if (pivots.empty())
            {
                e = c.log_uniform(lo_min, hi_max);
                log.label("E:interior");
                break;
            }
            double p = pivots[c.index(pivots.size())];
            switch (c.int_in(0, 3))
            {
                case 0: e = c.ulp_neighbour(p, 2); break;
                case 1: e = p * (1 + c.real_in(-0.01, 0.01)); break;
                case 2: e = p * c.log_uniform(1.0, 10.0); break;
                default: e = p / c.log_uniform(1.0, 10.0); break;
            }
            log.label("E:near-threshold");
        }
    }
    if (!(e >= lo_min))
        e = lo_min;
    if (!(e <= hi_max))
        e = hi_max;
    return e;
}

inline void gen_direction(Choices& c, CaseLog& log, CaseInput& in)
{
    double d[3];
    switch (c.pick({45, 15, 22, 10, 8}))
    {
        case 0:
            c.unit_vector(d);
            log.label("dir:uniform");
            break;
        case 1: {
            int a = int(c.int_in(0, 5));
            d[0] = d[1] = d[2] = 0;
            d[a / 2] = (a % 2) ? -1.0 : 1.0;
            log.label("dir:axis");
            break;
        }
        case 2: {
            // polar angle log-uniform around +-z: rotate()'s special branch
            double th = c.log_uniform(1e-9, 0.02);
            double ph = c.real_in(0, 2 * M_PI);
            bool neg = c.boolean();
            d[0] = std::sin(th) * std::cos(ph);
            d[1] = std::sin(th) * std::sin(ph);
            d[2] = (neg ? -1 : 1) * std::cos(th);
            double n = std::sqrt(d[0] * d[0] + d[1] * d[1] + d[2] * d[2]);
            for (double& x : d)
                x /= n;
            log.label("dir:near-z");
            break;
        }
        case 3: {
            // (0, 0, +-(1 - k ulp)): soft unit vector, class of finding F8
            int k = int(c.int_in(1, 4));
            bool neg = c.boolean();
            d[0] = d[1] = 0;
            d[2] = Choices::step_ulps(1.0, -k);
            if (neg)
                d[2] = -d[2];
            in.f8_dir = true;
            log.label("dir:z-minus-ulps");
            break;
        }
        default: {
            // near x or y axis (no special branch expected: control class)
            double th = c.log_uniform(1e-9, 0.02);
            double ph = c.real_in(0, 2 * M_PI);
            int a = int(c.int_in(0, 1));
            double u = std::cos(th), v = std::sin(th) * std::cos(ph),
                   w = std::sin(th) * std::sin(ph);
            d[a] = u;
            d[(a + 1) % 3] = v;
            d[(a + 2) % 3] = w;
            double n = std::sqrt(d[0] * d[0] + d[1] * d[1] + d[2] * d[2]);
            for (double& x : d)
                x /= n;
            log.label("dir:near-xy");
        }
    }
    in.dir = {d[0], d[1], d[2]};
    double st = std::sqrt(1 - d[2] * d[2]);
    in.near_axis = st > 0 && st < 0.005;
}

struct RngPlan
{
    uint64_t seed = 0;
    int nforced = 0;
    long fk[2];
    uint32_t fu[2], fl[2];
};

inline RngPlan gen_rng(Choices& c, CaseLog& log)
{
    RngPlan p;
    p.seed = c.bits(8);
    log.mix(p.seed);
    int n = int(c.pick({70, 22, 8}));
    for (int i = 0; i < n; ++i)
    {
        p.fk[i] = long(c.int_in(0, 15));
        switch (c.int_in(0, 3))
        {
            case 0:
                p.fu[i] = 0;
                p.fl[i] = 0;
                log.label("rng:forced-0");
                break;
            case 1:
                p.fu[i] = 0xffffffffu;
                p.fl[i] = 0xffffffffu;
                log.label("rng:forced-1-2^-53");
                break;
            case 2:
                p.fu[i] = 0;
                p.fl[i] = 1;
                log.label("rng:forced-2^-53");
                break;
            default:
                p.fu[i] = 0x80000000u;
                p.fl[i] = 0;
                log.label("rng:forced-half");
                break;
        }
        log.mix(uint64_t(p.fk[i]));
        log.mix(uint64_t(p.fu[i]));
        log.mix(uint64_t(p.fl[i]));
    }
    p.nforced = n;
    return p;
}

inline int gen_free_slots(Choices& c, CaseLog& log, int needed)
{
    switch (c.pick({60, 10, 10, 10, 10}))
    {
        case 0: log.label("stack:ample"); return stack_capacity;
        case 1: log.label("stack:0"); return 0;
        case 2: log.label("stack:1"); return 1;
        case 3:
            log.label("stack:needed-1");
            return std::max(0, needed - 1);
        default: log.label("stack:needed"); return needed;
    }
}

//---------------------------------------------------------------------------//
// Run one call with the allocation-protocol oracle around it
//---------------------------------------------------------------------------//
struct RunResult
{
    Verdict verdict = Verdict::pass;
    bool done = false;  // verdict is final (failure path / violation / ...)
    bool unbounded = false;  // draw bound exceeded for 3 streams
    Outcome out;
};

template<class F>
RunResult run_call(World& w,
                   CaseLog& log,
                   ModelSpec const& spec,
                   int free_slots,
                   RngPlan const& plan,
                   F&& call)
{
    RunResult rr;
    int prefill = prefill_stack(w, free_slots);
    StackAllocator<Secondary> alloc(w.stack.ref());
    Interaction r;
    long draws = 0;
    {
        CountingEngine rng(plan.seed, spec.draw_bound);
        for (int i = 0; i < plan.nforced; ++i)
            rng.force(plan.fk[i], plan.fu[i], plan.fl[i]);
        try
        {
            r = call(rng, alloc);
            draws = rng.count();
        }
        catch (DrawLimitExceeded const&)
        {
            rr.out.hit_limit = true;
        }
    }
    if (rr.out.hit_limit)
    {
        // A single long tail is statistics; three fresh streams are not
        int exceeded = 1;
        for (int t = 1; t <= 2; ++t)
        {
            prefill_stack(w, free_slots);
            StackAllocator<Secondary> alloc2(w.stack.ref());
            CountingEngine rng(plan.seed * 0x9e3779b97f4a7c15ull + t,
                               spec.draw_bound);
            try
            {
                r = call(rng, alloc2);
            }
            catch (DrawLimitExceeded const&)
            {
                ++exceeded;
            }
        }
        rr.done = true;
        if (exceeded == 3)
        {
            rr.unbounded = true;
            rr.verdict = log.fail(
                fmt("%s: sampling did not finish within %ld random draws for "
                    "3 independent streams",
                    spec.name,
                    spec.draw_bound));
        }
        else
        {
            log.label("draws:single-long-tail");
            rr.verdict = Verdict::trivial;
        }
        return rr;
    }
    log.count("draws_total", draws);
    if (draws > 200 && getenv("C04_DEBUG_DRAWS"))
        fprintf(stderr, "DRAWS %s %ld\n", spec.name, draws);
    if (draws > 100)
        log.label("draws>100");
    if (draws > 1000)
        log.label("draws>1000");
    if (draws > 10000)
        log.label("draws>10000");

    unsigned after = stack_size(w);
    if (!sentinels_intact(w, prefill))
    {
        rr.done = true;
        rr.verdict = log.fail(
            fmt("%s: pre-existing stack entries were modified", spec.name));
        return rr;
    }
    if (r.action == Interaction::Action::failed)
    {
        rr.done = true;
        if (free_slots >= spec.needed)
        {
            rr.verdict = log.fail(fmt("%s: returned `failed` with %d free "
                                      "slots although it allocates %d",
                                      spec.name,
                                      free_slots,
                                      spec.needed));
        }
        else if (after != unsigned(prefill))
        {
            rr.verdict
                = log.fail(fmt("%s: `failed` but stack size %u != %d before "
                               "the call (partial emission)",
                               spec.name,
                               after,
                               prefill));
        }
        else if (!r.secondaries.empty())
        {
            rr.verdict = log.fail(
                fmt("%s: `failed` but secondaries span not empty", spec.name));
        }
        else
        {
            log.label("failure-path");
            log.nontrivial = true;
            rr.verdict = Verdict::pass;
        }
        return rr;
    }
    size_t ns = r.secondaries.size();
    if (r.action == Interaction::Action::unchanged)
    {
        if (ns != 0 || after != unsigned(prefill))
        {
            rr.done = true;
            rr.verdict = log.fail(
                fmt("%s: `unchanged` but stack grew / secondaries returned",
                    spec.name));
            return rr;
        }
    }
    else
    {
        if (free_slots < spec.needed)
        {
            rr.done = true;
            rr.verdict = log.fail(fmt("%s: succeeded with %d free slots "
                                      "although it needs %d",
                                      spec.name,
                                      free_slots,
                                      spec.needed));
            return rr;
        }
        // the stack grows by the documented allocation; the returned span
        // holds all of it, or (ns_min >= 0: relaxation cascades) a prefix
        bool count_ok = spec.ns_min < 0
                            ? int(ns) == spec.needed
                            : (int(ns) >= spec.ns_min && int(ns) <= spec.needed);
        if (!count_ok || after != unsigned(prefill + spec.needed))
        {
            rr.done = true;
            rr.verdict = log.fail(fmt("%s: returned %zu secondaries, stack "
                                      "grew by %d, documented %d",
                                      spec.name,
                                      ns,
                                      int(after) - prefill,
                                      spec.needed));
            return rr;
        }
        if (ns > 0)
        {
            Secondary const* base = &w.stack.ref().storage[ItemId<Secondary>{
                ItemId<Secondary>::size_type(prefill)}];
            if (r.secondaries.data() != base)
            {
                rr.done = true;
                rr.verdict = log.fail(fmt("%s: secondaries span does not "
                                          "point at the allocated slots",
                                          spec.name));
                return rr;
            }
        }
    }
    rr.out.action = r.action;
    rr.out.energy = r.energy.value();
    rr.out.direction = r.direction;
    rr.out.deposit = r.energy_deposition.value();
    rr.out.sec.assign(r.secondaries.begin(), r.secondaries.end());
    rr.out.draws = draws;
    return rr;
}

}  // namespace c04
}  // namespace verif
