// Generator half of geogen.hh (included by it; do not include directly).
#pragma once

namespace verif
{
namespace geogen
{
//---------------------------------------------------------------------------//
// primitive kinds of the generator (index into Features::prim)
enum PK
{
    P_BOX,
    P_SPHERE,
    P_CYL,
    P_CONE,
    P_ELL,
    P_PRISM,
    P_GENPRISM,
    P_PARA,
    P_WEDGE,
    P_CYLSOLID,
    P_SPHSOLID,
    P_CONESOLID,
    P_PRISMSOLID,
    P_POLYCONE,
    P_POLYPRISM,
    P_COUNT
};
inline char const* pk_name(int k)
{
    static char const* n[] = {"box", "sphere", "cyl", "cone", "ellipsoid",
                              "prism", "genprism", "para", "wedge", "cylsolid",
                              "sphsolid", "conesolid", "prismsolid",
                              "polycone", "polyprism"};
    return k >= 0 && k < P_COUNT ? n[k] : "?";
}

struct Ctx
{
    Choices& c;
    CaseLog& log;
    Limits lim;
    celeritas::Tolerance<> tol;
    Features feat;
    std::ostringstream desc;
    int next = 0;

    double u(double lo, double hi)
    {
        double v = lo + (hi - lo) * c.unit16();
        log.mix(v);
        return v;
    }
    double logu(double lo, double hi)
    {
        double v = std::exp(std::log(lo)
                            + (std::log(hi) - std::log(lo)) * c.unit16());
        log.mix(v);
        return v;
    }
    int i(int lo, int hi)
    {
        int v = int(c.int_in(lo, hi));
        log.mix(v);
        return v;
    }
    bool b(double p)
    {
        bool v = c.boolean(p);
        log.mix(int(v));
        return v;
    }
    size_t pick(std::initializer_list<double> w)
    {
        size_t v = c.pick(w);
        log.mix(int(v));
        return v;
    }
    std::string lab(char const* pre)
    {
        return std::string(pre) + std::to_string(next++);
    }
};

//---------------------------------------------------------------------------//
// TRANSFORMS
//---------------------------------------------------------------------------//
inline void set_axis_angle(Xf& x, LD ax, LD ay, LD az, LD ang)
{
    LD n = sqrtl(ax * ax + ay * ay + az * az);
    ax /= n;
    ay /= n;
    az /= n;
    LD c = cosl(ang), s = sinl(ang), o = 1 - c;
    LD R[3][3] = {{c + o * ax * ax, o * ax * ay - s * az, o * ax * az + s * ay},
                  {o * ay * ax + s * az, c + o * ay * ay, o * ay * az - s * ax},
                  {o * az * ax - s * ay, o * az * ay + s * ax, c + o * az * az}};
    for (int i = 0; i < 3; ++i)
        for (int j = 0; j < 3; ++j)
            x.R[i][j] = LD(double(R[i][j]));  // the value the API receives
    x.rot = true;
}

// Random rotation part (translation left untouched)
inline void gen_rotation(Ctx& g, Xf& x)
{
    int kind = int(g.pick({30, 12, 18, 25, 10, 5}));
    switch (kind)
    {
        case 0:  // none
            break;
        case 1: {  // exact multiple of a quarter turn about a coordinate axis
            int ax = g.i(0, 2), q = g.i(1, 3);
            int a = (ax + 1) % 3, b = (ax + 2) % 3;
            static int const cs[4] = {1, 0, -1, 0}, sn[4] = {0, 1, 0, -1};
            for (int i = 0; i < 3; ++i)
                for (int j = 0; j < 3; ++j)
                    x.R[i][j] = (i == j) ? 1 : 0;
            x.R[a][a] = cs[q];
            x.R[a][b] = -sn[q];
            x.R[b][a] = sn[q];
            x.R[b][b] = cs[q];
            x.rot = true;
            break;
        }
        case 2: {  // arbitrary angle about a coordinate axis
            int ax = g.i(0, 2);
            LD ang = 2 * kPi * g.u(0.01, 0.99);
            set_axis_angle(x, ax == 0, ax == 1, ax == 2, ang);
            break;
        }
        case 3: {  // general axis-angle
            double mu = g.u(-1, 1), ph = g.u(0, 2 * M_PI);
            double s = std::sqrt(std::fmax(0.0, 1 - mu * mu));
            LD ang = 2 * kPi * g.u(0.01, 0.99);
            set_axis_angle(x, s * std::cos(ph), s * std::sin(ph), mu, ang);
            break;
        }
        case 4: {  // signed permutation
            static int const perms[6][3] = {{0, 1, 2}, {1, 2, 0}, {2, 0, 1},
                                            {0, 2, 1}, {2, 1, 0}, {1, 0, 2}};
            int pi = g.i(0, 5), sg = g.i(0, 7);
            if (!g.lim.allow_improper)
            {
                // force det = +1: parity of permutation * signs
                int par = pi >= 3 ? -1 : 1;
                int s0 = (sg & 1) ? -1 : 1, s1 = (sg & 2) ? -1 : 1,
                    s2 = (sg & 4) ? -1 : 1;
                if (par * s0 * s1 * s2 < 0)
                    sg ^= 1;
            }
            int det = pi >= 3 ? -1 : 1;
            for (int i = 0; i < 3; ++i)
            {
                int s = (sg >> i) & 1 ? -1 : 1;
                det *= s;
                for (int j = 0; j < 3; ++j)
                    x.R[i][j] = (perms[pi][i] == j) ? s : 0;
            }
            x.rot = !(pi == 0 && sg == 0);
            x.improper = det < 0;
            break;
        }
        default: {  // tiny rotation: k * rel tolerance about a random axis
            static double const ks[] = {0.5, 2, 10, 1000};
            double k = ks[g.i(0, 3)];
            double mu = g.u(-1, 1), ph = g.u(0, 2 * M_PI);
            double s = std::sqrt(std::fmax(0.0, 1 - mu * mu));
            set_axis_angle(x, s * std::cos(ph), s * std::sin(ph), mu,
                           LD(k) * g.tol.rel);
            ++g.feat.n_tinyrot;
            x.tiny = true;
            break;
        }
    }
    if (x.rot && g.lim.allow_improper && kind != 4 && g.b(0.15))
    {
        // reflect one daughter axis: R <- R * diag(..,-1,..)
        int ax = g.i(0, 2);
        for (int i = 0; i < 3; ++i)
            x.R[i][ax] = -x.R[i][ax];
        x.improper = !x.improper;
    }
    else if (!x.rot && g.lim.allow_improper && g.b(0.05))
    {
        int ax = g.i(0, 2);
        x.R[ax][ax] = -1;
        x.rot = true;
        x.improper = true;
    }
    if (x.rot)
        ++g.feat.n_rot;
    if (x.improper)
        ++g.feat.n_improper;
}

inline void describe(Ctx& g, Xf const& x)
{
    g.desc << "T[";
    if (x.rot)
    {
        g.desc.precision(17);
        g.desc << "R=";
        for (int i = 0; i < 3; ++i)
            for (int j = 0; j < 3; ++j)
                g.desc << double(x.R[i][j]) << (i * 3 + j < 8 ? "," : "");
        g.desc << ";";
    }
    g.desc.precision(17);
    g.desc << "t=" << double(x.t[0]) << "," << double(x.t[1]) << ","
           << double(x.t[2]) << "]";
}

inline Made xformed(Ctx& g, Made const& in, Xf const& x)
{
    Made m;
    m.api = std::make_shared<oi::Transformed>(in.api, to_api(x));
    m.orc = mk_xf(x, in.orc);
    m.bounded = in.bounded;
    m.c = up(x, in.c);
    m.r = in.r;
    m.known = in.known;
    m.has_ell = in.has_ell;
    m.ells = in.ells;
    for (auto& e : m.ells)
    {
        LD r[3][3];
        for (int i = 0; i < 3; ++i)
            for (int j = 0; j < 3; ++j)
                r[i][j] = x.R[i][0] * e.R[0][j] + x.R[i][1] * e.R[1][j]
                          + x.R[i][2] * e.R[2][j];
        for (int i = 0; i < 3; ++i)
            for (int j = 0; j < 3; ++j)
                e.R[i][j] = r[i][j];
    }
    ++g.feat.n_xf;
    if (in.kind >= 0 && !in.has_place)
    {
        m.kind = in.kind;
        m.par = in.par;
        m.place = x;
        m.has_place = true;
    }
    describe(g, x);
    return m;
}

//---------------------------------------------------------------------------//
// PRIMITIVES FROM EXPLICIT PARAMETERS
//---------------------------------------------------------------------------//
inline oi::SolidEnclosedAngle mk_sea(bool has, double start, double interior)
{
    if (!has)
        return oi::SolidEnclosedAngle{};
    return oi::SolidEnclosedAngle{Turn{start}, Turn{interior}};
}

// Simple primitives (clone-able): box sphere cyl cone ellipsoid prism para wedge
inline Made prim_from(Ctx& g, int kind, std::vector<double> const& q_in)
{
    std::vector<double> q = q_in;
    bool small_ell = false;
    if (kind == P_ELL)
    {
        // coefficients the documented construction uses: products of the
        // other two squared radii (known finding F11 when below tol.rel)
        double c0 = q[1] * q[1] * q[2] * q[2], c1 = q[0] * q[0] * q[2] * q[2],
               c2 = q[0] * q[0] * q[1] * q[1];
        double lim = 1.02 * g.tol.rel;
        bool all_small = std::max({c0, c1, c2}) < lim;
        small_ell = std::min({c0, c1, c2}) < lim;
        if (all_small || (small_ell && !g.lim.allow_small_ellipsoid))
        {
            // excluded by construction: use the inscribed sphere instead
            ++g.feat.n_excluded_f11;
            kind = P_SPHERE;
            q = {std::min({q[0], q[1], q[2]})};
            small_ell = false;
        }
        else if (small_ell)
            ++g.feat.n_small_ell;
    }
    Made m;
    m.known = small_ell ? unsigned(KF11) : 0u;
    m.has_ell = (kind == P_ELL);
    if (kind == P_ELL)
    {
        EllRec e{{LD(q[1] * q[1] * q[2] * q[2]), LD(q[0] * q[0] * q[2] * q[2]),
                  LD(q[0] * q[0] * q[1] * q[1])},
                 LD(std::max({q[0], q[1], q[2]})),
                 {{1, 0, 0}, {0, 1, 0}, {0, 0, 1}}};
        m.ells.push_back(e);
    }
    m.kind = kind;
    m.par = q;
    m.bounded = true;
    std::string l = g.lab(pk_name(kind));
    g.desc << pk_name(kind) << "(";
    g.desc.precision(17);
    for (size_t i = 0; i < q.size(); ++i)
        g.desc << (i ? "," : "") << q[i];
    g.desc << ")";
    std::vector<LD> lp(q.begin(), q.end());
    switch (kind)
    {
        case P_BOX:
            m.api = std::make_shared<oi::BoxShape>(
                std::move(l), oi::Box{Real3{q[0], q[1], q[2]}});
            m.orc = mk(K::box, lp);
            m.r = sqrtl(lp[0] * lp[0] + lp[1] * lp[1] + lp[2] * lp[2]);
            break;
        case P_SPHERE:
            m.api = std::make_shared<oi::SphereShape>(std::move(l),
                                                      oi::Sphere{q[0]});
            m.orc = mk(K::sphere, lp);
            m.r = lp[0];
            break;
        case P_CYL:
            m.api = std::make_shared<oi::CylinderShape>(
                std::move(l), oi::Cylinder{q[0], q[1]});
            m.orc = mk(K::cyl, lp);
            m.r = hypotl(lp[0], lp[1]);
            break;
        case P_CONE:
            m.api = std::make_shared<oi::ConeShape>(
                std::move(l), oi::Cone{Real2{q[0], q[1]}, q[2]});
            m.orc = mk(K::cone, lp);
            m.r = hypotl(std::max(lp[0], lp[1]), lp[2]);
            break;
        case P_ELL:
            m.api = std::make_shared<oi::EllipsoidShape>(
                std::move(l), oi::Ellipsoid{Real3{q[0], q[1], q[2]}});
            m.orc = mk(K::ellipsoid, lp);
            m.r = std::max({lp[0], lp[1], lp[2]});
            break;
        case P_PRISM:
            m.api = std::make_shared<oi::PrismShape>(
                std::move(l), oi::Prism{int(q[0]), q[1], q[2], q[3]});
            m.orc = mk(K::prism, lp);
            m.r = hypotl(lp[1] / cosl(kPi / lp[0]), lp[2]);
            break;
        case P_PARA: {
            m.api = std::make_shared<oi::ParallelepipedShape>(
                std::move(l),
                oi::Parallelepiped{Real3{q[0], q[1], q[2]}, Turn{q[3]},
                                   Turn{q[4]}, Turn{q[5]}});
            m.orc = mk(K::para, lp);
            if (q[3] != 0 || q[4] != 0)
                m.known |= KF10;
            // generous ball: |x| <= hx + hy tan a + hz tan t, etc.
            LD ta = fabsl(tanl(2 * kPi * lp[3])), tt = tanl(2 * kPi * lp[4]);
            LD ex = lp[0] + lp[1] * ta + lp[2] * tt * (1 + ta);
            LD ey = lp[1] + lp[2] * tt;
            m.r = sqrtl(ex * ex + ey * ey + lp[2] * lp[2]);
            break;
        }
        case P_WEDGE:
            m.api = std::make_shared<oi::Shape<oi::InfWedge>>(
                std::move(l), oi::InfWedge{Turn{q[0]}, Turn{q[1]}});
            m.orc = mk(K::wedge, lp);
            m.bounded = false;
            break;
        default:
            break;
    }
    ++g.feat.prim[kind];
    return m;
}

// F11 (second form): in the unit frame all three cross terms of a rotated
// ellipsoid's un-normalised quadric are below the absolute threshold tol.rel
// (so the simplifier silently drops the rotation) although dropping them moves
// the surface by more than the tolerance.
inline bool ell_cross_terms_dropped(Ctx& g, std::vector<EllRec> const& v)
{
    for (auto const& e : v)
    {
        LD cmax = 0;
        for (int i = 0; i < 3; ++i)
            for (int j = i + 1; j < 3; ++j)
            {
                LD a = 0;
                for (int k = 0; k < 3; ++k)
                    a += e.R[i][k] * e.R[j][k] * e.q[k];
                cmax = std::max(cmax, fabsl(2 * a));
            }
        LD qmax = std::max({e.q[0], e.q[1], e.q[2]});
        if (cmax < 1.05L * g.tol.rel && e.rmax * cmax / qmax > 0.25L * g.tol.abs)
            return true;
    }
    return false;
}

// GenPrism from explicit vertex lists (also the oracle for trd/trap helpers)
inline SPN genprism_oracle(double hz, std::vector<Real2> const& lo,
                           std::vector<Real2> const& hi)
{
    int n = int(lo.size());
    // orientation from the signed area of the non-degenerate end
    auto area = [](std::vector<Real2> const& v) {
        LD a = 0;
        for (size_t i = 0; i < v.size(); ++i)
        {
            auto const& p = v[i];
            auto const& q = v[(i + 1) % v.size()];
            a += LD(p[0]) * q[1] - LD(q[0]) * p[1];
        }
        return a;
    };
    LD a = area(lo) + area(hi);
    std::vector<LD> p{LD(hz), LD(n), a < 0 ? -1.0L : 1.0L};
    for (auto const& v : lo)
    {
        p.push_back(v[0]);
        p.push_back(v[1]);
    }
    for (auto const& v : hi)
    {
        p.push_back(v[0]);
        p.push_back(v[1]);
    }
    return mk(K::genprism, p);
}

inline LD genprism_radius(double hz, std::vector<Real2> const& lo,
                          std::vector<Real2> const& hi)
{
    LD r = 0;
    for (auto const* v : {&lo, &hi})
        for (auto const& p : *v)
            r = std::max(r, hypotl(p[0], p[1]));
    return hypotl(r, hz);
}

}  // namespace geogen
}  // namespace verif

#include "geogen_gen.hh"
