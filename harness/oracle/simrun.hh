// SIM: synthetic physics problems and the event runner (G-PHYS, §3.3).
//
// A problem is decoded from the choice sequence: geometry (G-GEO), materials,
// particles, processes with generated tables, cuts, options, events.  It is
// turned into a real CoreParams through the same public calls celer-sim's
// Runner::build_core_params makes.  Observation is through public API only:
// a StepInterface with StepSelection::all() plus harness step actions.
#pragma once

#include <cmath>
#include <functional>
#include <map>
#include <memory>
#include <string>
#include <vector>

#include "caselog.hh"
#include "corecel/io/Logger.hh"
#include "corecel/io/OutputRegistry.hh"
#include "corecel/sys/ActionRegistry.hh"
#include "celeritas/Constants.hh"
#include "celeritas/Quantities.hh"
#include "celeritas/Units.hh"
#include "celeritas/em/params/UrbanMscParams.hh"
#include "celeritas/em/params/WentzelOKVIParams.hh"
#include "celeritas/field/UniformFieldData.hh"
#include "celeritas/geo/GeoMaterialParams.hh"
#include "celeritas/geo/GeoParams.hh"
#include "celeritas/global/ActionInterface.hh"
#include "celeritas/global/CoreParams.hh"
#include "celeritas/global/CoreState.hh"
#include "celeritas/global/CoreTrackView.hh"
#include "celeritas/global/Stepper.hh"
#include "celeritas/global/alongstep/AlongStepGeneralLinearAction.hh"
#include "celeritas/global/alongstep/AlongStepUniformMscAction.hh"
#include "celeritas/io/ImportData.hh"
#include "celeritas/mat/MaterialParams.hh"
#include "celeritas/global/ActionLauncher.hh"
#include "celeritas/global/TrackExecutor.hh"
#include "celeritas/grid/ValueGridBuilder.hh"
#include "celeritas/phys/CutoffParams.hh"
#include "celeritas/phys/Interaction.hh"
#include "celeritas/phys/InteractionApplier.hh"
#include "celeritas/phys/Model.hh"
#include "celeritas/phys/Process.hh"
#include "celeritas/phys/PDGNumber.hh"
#include "celeritas/phys/ParticleParams.hh"
#include "celeritas/phys/PhysicsParams.hh"
#include "celeritas/phys/Primary.hh"
#include "celeritas/phys/ProcessBuilder.hh"
#include "celeritas/random/RngParams.hh"
#include "celeritas/track/SimParams.hh"
#include "celeritas/track/StatusChecker.hh"
#include "corecel/data/AuxParamsRegistry.hh"
#include "celeritas/track/TrackInitParams.hh"
#include "celeritas/user/StepCollector.hh"
#include "celeritas/user/StepData.hh"
#include "celeritas/user/StepInterface.hh"

#include "geofix.hh"
#include "geosrc.hh"

namespace verif
{
namespace sim
{
using namespace celeritas;
constexpr double kElectronMass = 0.5109989461;  // MeV

//---------------------------------------------------------------------------//
// Problem specification (everything decoded from the choice sequence)
//---------------------------------------------------------------------------//
struct TableFn
{
    double amp = 1, p_lo = 0, p_hi = 1, e_ref = 1;  // amp * x^p_lo / (1+x)^p_hi
    double threshold = 0;  // zero at and below
    double operator()(double e) const
    {
        if (e <= threshold)
            return 0;
        double x = e / e_ref;
        double v = amp * std::pow(x, p_lo) / std::pow(1 + x, p_hi);
        if (threshold > 0)
            v *= (1 - threshold / e);
        return v;
    }
};

struct MaterialSpec
{
    int z = 29;
    double amass = 63.5;
    double number_density = 8.5e22;  // 1/cm^3
    double rel_density = 1;  // scales all tables
    double cut_gamma = 0.01, cut_electron = 0.1, cut_positron = 0.1;  // MeV
};

struct PrimarySpec
{
    int pdg = 22;
    double energy = 1;
    double pos[3] = {0, 0, 0};
    double dir[3] = {0, 0, 1};
    double time = 0;
};

enum class AlongStep
{
    linear,
    linear_fluct,
    linear_msc,
    linear_msc_fluct,
    uniform_field,
    uniform_field_msc,
};

struct SimSpec
{
    // physics
    std::vector<MaterialSpec> materials;
    double emin = 1e-4, emax = 1e3;
    int nbins = 40;
    bool have_compton = true, have_conversion = true, have_ioni = true,
         have_annihilation = true, have_brems = false, have_rayleigh = false;
    TableFn compton, conversion, ioni, brems, rayleigh, msc;
    bool have_absorb = true;  // harness photon absorption (stands in for PE)
    double absorb_amp = 0.1;  // 1/cm at 0.1 MeV and unit density
    double dedx_a = 2, dedx_b = 0.1, dedx_c = 0.01;
    bool apply_cuts = true;
    double lowest_electron_energy = 1e-3;
    double linear_loss_limit = 0.01;
    double fixed_step_limiter = 0;
    bool disable_integral_xs = false;
    double secondary_stack_factor = 3;
    AlongStep along = AlongStep::linear;
    double field[3] = {0, 0, 1};  // tesla
    // run
    int track_slots = 16;
    int init_capacity = 1 << 16;
    int max_events = 8;
    TrackOrder track_order = TrackOrder::none;
    unsigned rng_seed = 12345;
    int max_streams = 1;
    bool status_checker = false;
    bool action_times = false;
    // volume -> material
    std::vector<int> volume_material;
    // events
    std::vector<std::vector<PrimarySpec>> events;
};

inline bool has_msc(AlongStep a)
{
    return a == AlongStep::linear_msc || a == AlongStep::linear_msc_fluct
           || a == AlongStep::uniform_field_msc;
}
inline bool has_fluct(AlongStep a)
{
    return a == AlongStep::linear_fluct || a == AlongStep::linear_msc_fluct;
}
inline bool has_field(AlongStep a)
{
    return a == AlongStep::uniform_field || a == AlongStep::uniform_field_msc;
}

inline std::vector<double> log_grid(double lo, double hi, int n)
{
    std::vector<double> r(n);
    for (int i = 0; i < n; ++i)
        r[i] = std::exp(std::log(lo)
                        + (std::log(hi) - std::log(lo)) * i / (n - 1));
    r.front() = lo;
    r.back() = hi;
    return r;
}

//---------------------------------------------------------------------------//
// Harness-defined photon absorption: a user Process/Model (the public
// extension interface) that removes the photon and deposits its energy.  It
// stands in for the photoelectric effect, whose data files cannot be used for
// generated elements offline; without any absorption keV photons would
// Compton-scatter for ~1e5 steps.
//---------------------------------------------------------------------------//
struct AbsorbExecutor
{
    CELER_FUNCTION Interaction operator()(CoreTrackView const& track)
    {
        auto particle = track.make_particle_view();
        Interaction r = Interaction::from_absorption();
        r.energy_deposition = particle.energy();
        return r;
    }
};

class AbsorbModel final : public Model, public ConcreteAction
{
  public:
    AbsorbModel(ActionId id, ParticleId gamma, double emax)
        : ConcreteAction(id, "verif-absorb", "harness photon absorption")
        , gamma_(gamma)
        , emax_(emax)
    {
    }
    SetApplicability applicability() const final
    {
        Applicability a;
        a.particle = gamma_;
        a.lower = zero_quantity();
        a.upper = units::MevEnergy{emax_};
        return {a};
    }
    MicroXsBuilders micro_xs(Applicability) const final { return {}; }
    void step(CoreParams const& params, CoreStateHost& state) const final
    {
        auto execute = make_action_track_executor(
            params.ptr<MemSpace::native>(),
            state.ptr(),
            this->action_id(),
            InteractionApplier{AbsorbExecutor{}});
        launch_action(*this, params, state, execute);
    }
    void step(CoreParams const&, CoreStateDevice&) const final {}

  private:
    ParticleId gamma_;
    double emax_;
};

class AbsorbProcess final : public Process
{
  public:
    AbsorbProcess(ParticleId gamma,
                  double emin,
                  double emax,
                  int nbins,
                  std::vector<double> amp_per_material)
        : gamma_(gamma)
        , emin_(emin)
        , emax_(emax)
        , nbins_(nbins)
        , amp_(std::move(amp_per_material))
    {
    }
    VecModel build_models(ActionIdIter start_id) const final
    {
        return {std::make_shared<AbsorbModel>(*start_id++, gamma_, emax_)};
    }
    StepLimitBuilders step_limits(Applicability applic) const final
    {
        StepLimitBuilders builders;
        std::vector<double> xs;
        double amp = amp_[applic.material.get()];
        for (int i = 0; i < nbins_; ++i)
        {
            double e = std::exp(std::log(emin_)
                                + (std::log(emax_) - std::log(emin_)) * i
                                      / (nbins_ - 1));
            xs.push_back(amp * std::pow(0.1 / e, 3));
        }
        builders[ValueGridType::macro_xs]
            = std::make_unique<ValueGridLogBuilder>(emin_, emax_, xs);
        return builders;
    }
    bool use_integral_xs() const final { return false; }
    std::string_view label() const final { return "verif-absorb"; }

  private:
    ParticleId gamma_;
    double emin_, emax_;
    int nbins_;
    std::vector<double> amp_;
};

//---------------------------------------------------------------------------//
// ImportData from a spec
//---------------------------------------------------------------------------//
inline ImportData make_import(SimSpec const& s)
{
    constexpr double me = kElectronMass;
    ImportData d;
    d.particles = {{"gamma", 22, 0, 0, 1, 0, true},
                   {"e-", 11, me, -1, 0.5, 0, true},
                   {"e+", -11, me, 1, 0.5, 0, true}};
    for (size_t m = 0; m < s.materials.size(); ++m)
    {
        auto const& ms = s.materials[m];
        ImportElement el;
        el.name = "el" + std::to_string(m);
        el.atomic_number = ms.z;
        el.atomic_mass = ms.amass;
        d.elements.push_back(el);
        ImportGeoMaterial gm;
        gm.name = "mat" + std::to_string(m);
        gm.state = ImportMaterialState::solid;
        gm.temperature = 293;
        gm.number_density = ms.number_density;
        gm.elements = {{static_cast<unsigned>(m), 1.0}};
        d.geo_materials.push_back(gm);
        ImportPhysMaterial pm;
        pm.geo_material_id = static_cast<unsigned>(m);
        pm.pdg_cutoffs = {{22, {ms.cut_gamma, 0.07}},
                          {11, {ms.cut_electron, 0.07}},
                          {-11, {ms.cut_positron, 0.07}}};
        d.phys_materials.push_back(pm);
    }
    d.em_params.apply_cuts = s.apply_cuts;
    d.em_params.lpm = false;
    d.em_params.energy_loss_fluct = has_fluct(s.along);
    d.em_params.lowest_electron_energy = s.lowest_electron_energy;
    d.em_params.linear_loss_limit = s.linear_loss_limit;
    d.trans_params.looping[11] = {};
    d.trans_params.looping[-11] = {};
    d.trans_params.looping[22] = {};
    d.units = "cgs";

    auto egrid = log_grid(s.emin, s.emax, s.nbins);
    // As in Geant4, the conversion table starts at the model's lower limit
    // 2 m_e c^2 (a grid starting lower would interpolate a positive cross
    // section below the threshold, where no model applies)
    auto conv_grid = log_grid(2 * me, s.emax, s.nbins);
    // `grid_lo(material)`: lowest grid energy (0 = use the common grid).  As
    // in Geant4 (G4EmTableUtil: emin = max(minKinEnergy, MinPrimaryEnergy)), a
    // lambda table starts at the model's minimum primary energy for that
    // material, where the cross section is zero; the interactors require
    // (CELER_EXPECT) an incident energy above that threshold.
    auto make_tab = [&](ImportTableType t,
                        ImportUnits yu,
                        auto f,
                        std::vector<double> const* grid = nullptr,
                        std::function<double(MaterialSpec const&)> grid_lo = {}) {
        ImportPhysicsTable tab;
        tab.table_type = t;
        tab.x_units = ImportUnits::mev;
        tab.y_units = yu;
        for (auto const& ms : s.materials)
        {
            ImportPhysicsVector v;
            v.vector_type = ImportPhysicsVectorType::log;
            v.x = grid ? *grid : egrid;
            if (grid_lo)
            {
                double lo = grid_lo(ms);
                if (lo > s.emin && lo < s.emax)
                    v.x = log_grid(lo, s.emax, s.nbins);
            }
            for (double e : v.x)
                v.y.push_back(f(e, ms));
            tab.physics_vectors.push_back(v);
        }
        return tab;
    };
    auto make_model = [&](ImportModelClass mc, bool micro) {
        ImportModel m;
        m.model_class = mc;
        for (size_t i = 0; i < s.materials.size(); ++i)
        {
            ImportModelMaterial mm;
            mm.energy = {s.emin, s.emax};
            if (micro)
                mm.micro_xs = {{1e-24, 1e-24}};
            m.materials.push_back(mm);
        }
        return m;
    };
    auto make_proc = [&](int pdg,
                         int sec,
                         ImportProcessClass pc,
                         std::vector<ImportModel> ms,
                         std::vector<ImportPhysicsTable> tabs) {
        ImportProcess p;
        p.particle_pdg = pdg;
        p.secondary_pdg = sec;
        p.process_type = ImportProcessType::electromagnetic;
        p.process_class = pc;
        p.models = std::move(ms);
        p.tables = std::move(tabs);
        return p;
    };
    // Cross sections vanish at and below `thr(material)`: imported lambda
    // tables are zero below the model's production threshold, and a positive
    // value at the lowest grid point would make PhysicsParams treat the
    // process as an at-rest process (documented use of calc_xs(0) > 0)
    auto lam = [](TableFn const& f, auto thr) {
        return [f, thr](double e, MaterialSpec const& ms) {
            double t = thr(ms);
            if (e <= t)
                return 0.0;
            return ms.rel_density * f(e) * (t > 0 ? (1 - t / e) : 1.0);
        };
    };
    auto no_thr = [](MaterialSpec const&) { return 0.0; };
    if (s.have_compton)
        d.processes.push_back(make_proc(
            22,
            11,
            ImportProcessClass::compton,
            {make_model(ImportModelClass::klein_nishina, false)},
            {make_tab(ImportTableType::lambda, ImportUnits::len_inv, lam(s.compton, no_thr))}));
    if (s.have_conversion)
        d.processes.push_back(make_proc(
            22,
            11,
            ImportProcessClass::conversion,
            {make_model(ImportModelClass::bethe_heitler_lpm, true)},
            {make_tab(ImportTableType::lambda,
                      ImportUnits::len_inv,
                      lam(s.conversion,
                          [](MaterialSpec const&) { return 2 * kElectronMass; }),
                      &conv_grid)}));
    if (s.have_rayleigh)
        d.processes.push_back(make_proc(
            22,
            0,
            ImportProcessClass::rayleigh,
            {make_model(ImportModelClass::livermore_rayleigh, true)},
            {make_tab(ImportTableType::lambda, ImportUnits::len_inv, lam(s.rayleigh, no_thr))}));
    auto dedx_rho = [&s](double e, double rho) {
        return rho * (s.dedx_a + s.dedx_b / e + s.dedx_c * e);
    };
    auto dedx = [&](double e, MaterialSpec const& ms) {
        return dedx_rho(e, ms.rel_density);
    };
    auto range_tab = [&](double e, MaterialSpec const& ms) {
        double rho = ms.rel_density;
        auto dedx = dedx_rho;
        // integral of 1/(dE/dx) from 0 to e; below lo dE/dx is taken constant
        int n = 200;
        double lo = 1e-7;
        double r = lo / dedx(lo, rho);
        for (int i = 0; i < n; ++i)
        {
            double a = lo * std::pow(e / lo, double(i) / n);
            double b = lo * std::pow(e / lo, double(i + 1) / n);
            r += (b - a) / dedx(0.5 * (a + b), rho);
        }
        return r;
    };
    if (s.have_ioni)
    {
        for (int pdg : {11, -11})
        {
            d.processes.push_back(make_proc(
                pdg,
                11,
                ImportProcessClass::e_ioni,
                {make_model(ImportModelClass::moller_bhabha, false)},
                {make_tab(ImportTableType::lambda,
                          ImportUnits::len_inv,
                          lam(s.ioni, [pdg](MaterialSpec const& ms) {
                              // Moller: T > 2 cut; Bhabha: T > cut
                              return pdg == 11 ? 2 * ms.cut_electron
                                               : ms.cut_electron;
                          }),
                          nullptr,
                          [pdg](MaterialSpec const& ms) {
                              return pdg == 11 ? 2 * ms.cut_electron
                                               : ms.cut_electron;
                          }),
                 make_tab(ImportTableType::dedx, ImportUnits::mev_per_len, dedx),
                 make_tab(ImportTableType::range, ImportUnits::len, range_tab)}));
        }
    }
    if (s.have_brems)
    {
        for (int pdg : {11, -11})
        {
            d.processes.push_back(make_proc(
                pdg,
                22,
                ImportProcessClass::e_brems,
                {make_model(ImportModelClass::e_brems_lpm, true)},
                {make_tab(ImportTableType::lambda,
                          ImportUnits::len_inv,
                          lam(s.brems, [](MaterialSpec const& ms) {
                              return ms.cut_gamma;
                          }),
                          nullptr,
                          [](MaterialSpec const& ms) { return ms.cut_gamma; })}));
        }
    }
    if (s.have_annihilation)
        d.processes.push_back(
            make_proc(-11,
                      22,
                      ImportProcessClass::annihilation,
                      {make_model(ImportModelClass::e_plus_to_gg, false)},
                      {}));
    if (has_msc(s.along))
    {
        for (int pdg : {11, -11})
        {
            ImportMscModel mm;
            mm.particle_pdg = pdg;
            mm.model_class = ImportModelClass::urban_msc;
            // MSC cross section tables are stored scaled by E^2
            mm.xs_table = make_tab(ImportTableType::msc_xs,
                                   ImportUnits::mev_2_per_cm,
                                   [&s](double e, MaterialSpec const& ms) {
                                       return ms.rel_density * s.msc(e) * e * e;
                                   });
            d.msc_models.push_back(mm);
        }
    }
    return d;
}

//---------------------------------------------------------------------------//
// Recorder
//---------------------------------------------------------------------------//
struct PointRec
{
    double time;
    double pos[3];
    double dir[3];
    int volume;  // -1 if outside
    double energy;
};

struct StepRec
{
    int event;
    unsigned track;
    int parent;  // -1 for primaries
    unsigned step_count;
    int action;
    int particle;
    double length;
    double edep;
    PointRec pre, post;
    int slot;
    long call;  // index of the Stepper call that produced it
};

class Recorder final : public StepInterface
{
  public:
    std::vector<StepRec> steps;
    long call = 0;
    bool has_nan = false;
    bool dump_ = std::getenv("VERIF_SIMDUMP") != nullptr;  // debug aid

    Filters filters() const final { return {}; }
    StepSelection selection() const final { return StepSelection::all(); }
    void process_steps(HostStepState s) final
    {
        auto const& d = s.steps.data;
        for (auto i : range(TrackSlotId{s.steps.size()}))
        {
            if (!d.track_id[i])
                continue;
            StepRec r;
            r.event = d.event_id[i] ? int(d.event_id[i].get()) : -1;
            r.track = d.track_id[i].get();
            r.parent = d.parent_id[i] ? int(d.parent_id[i].get()) : -1;
            r.step_count = d.track_step_count[i];
            r.action = d.action_id[i] ? int(d.action_id[i].get()) : -1;
            r.particle = d.particle[i] ? int(d.particle[i].get()) : -1;
            r.length = d.step_length[i];
            r.edep = d.energy_deposition[i].value();
            r.slot = int(i.get());
            r.call = call;
            for (auto sp : {StepPoint::pre, StepPoint::post})
            {
                auto const& pt = d.points[sp];
                PointRec& o = (sp == StepPoint::pre) ? r.pre : r.post;
                o.time = pt.time[i];
                o.energy = pt.energy[i].value();
                o.volume = pt.volume_id[i] ? int(pt.volume_id[i].get()) : -1;
                for (int k = 0; k < 3; ++k)
                {
                    o.pos[k] = pt.pos[i][k];
                    o.dir[k] = pt.dir[i][k];
                    if (std::isnan(o.pos[k]) || std::isnan(o.dir[k]))
                        has_nan = true;
                }
                if (std::isnan(o.time) || std::isnan(o.energy))
                    has_nan = true;
            }
            if (std::isnan(r.length) || std::isnan(r.edep))
                has_nan = true;
            if (dump_)
                std::fprintf(stderr,
                             "STEP call %ld slot %d ev %d trk %u par %d n %u pdg-id %d "
                             "act %d len %.17g edep %.17g | pre vol %d E %.17g pos "
                             "(%.17g, %.17g, %.17g) dir (%.9g, %.9g, %.9g) | post vol "
                             "%d E %.17g pos (%.17g, %.17g, %.17g) dir (%.9g, %.9g, "
                             "%.9g)\n",
                             r.call, r.slot, r.event, r.track, r.parent,
                             r.step_count, r.particle, r.action, r.length, r.edep,
                             r.pre.volume, r.pre.energy, r.pre.pos[0], r.pre.pos[1],
                             r.pre.pos[2], r.pre.dir[0], r.pre.dir[1], r.pre.dir[2],
                             r.post.volume, r.post.energy, r.post.pos[0],
                             r.post.pos[1], r.post.pos[2], r.post.dir[0],
                             r.post.dir[1], r.post.dir[2]);
            steps.push_back(r);
        }
    }
    void process_steps(DeviceStepState) final {}
};

// Harness step action: calls a std::function on the host state at a given
// order (read-only use).
class HookAction final : public CoreStepActionInterface, public ConcreteAction
{
  public:
    using Fn = std::function<void(CoreParams const&, CoreState<MemSpace::host>&)>;
    HookAction(ActionId id, std::string label, StepActionOrder order, Fn fn)
        : ConcreteAction(id, std::move(label)), order_(order), fn_(std::move(fn))
    {
    }
    void step(CoreParams const& p, CoreStateHost& s) const final
    {
        if (fn_)
            fn_(p, s);
    }
    void step(CoreParams const&, CoreStateDevice&) const final {}
    StepActionOrder order() const final { return order_; }

  private:
    StepActionOrder order_;
    Fn fn_;
};

//---------------------------------------------------------------------------//
// World: CoreParams + recorder built from a spec
//---------------------------------------------------------------------------//
struct World
{
    SimSpec spec;
    std::shared_ptr<CoreParams> core;
    std::shared_ptr<Recorder> rec;
    std::shared_ptr<StepCollector> collector;
    std::vector<double> mass;  // by ParticleId
    std::vector<int> pdg;  // by ParticleId
    std::vector<bool> antiparticle;
    int along_action = -1;
};

struct Hook
{
    std::string label;
    StepActionOrder order;
    HookAction::Fn fn;
};

inline std::unique_ptr<World>
build_world(SimSpec const& s,
            std::shared_ptr<OrangeParams const> geometry,
            std::vector<Hook> hooks = {},
            std::vector<std::shared_ptr<StepInterface>> extra_callbacks = {},
            std::function<void(CoreParams::Input&)> customize = {},
            bool register_recorder = true,
            std::function<void(CoreParams const&)> after_core = {})
{
    auto w = std::make_unique<World>();
    w->spec = s;
    ImportData d = make_import(s);

    CoreParams::Input params;
    params.action_reg = std::make_shared<ActionRegistry>();
    params.output_reg = std::make_shared<OutputRegistry>();
    params.geometry = geometry;
    params.material = MaterialParams::from_import(d);
    {
        GeoMaterialParams::Input gi;
        gi.geometry = params.geometry;
        gi.materials = params.material;
        gi.volume_to_mat.resize(geometry->num_volumes());
        for (size_t v = 0; v < gi.volume_to_mat.size(); ++v)
        {
            int m = v < s.volume_material.size() ? s.volume_material[v] : 0;
            gi.volume_to_mat[v] = MaterialId(m % s.materials.size());
        }
        params.geomaterial = std::make_shared<GeoMaterialParams>(std::move(gi));
    }
    params.particle = ParticleParams::from_import(d);
    params.cutoff = CutoffParams::from_import(d, params.particle, params.material);
    params.wentzel = WentzelOKVIParams::from_import(d, params.material);
    {
        PhysicsParams::Input input;
        input.particles = params.particle;
        input.materials = params.material;
        input.action_registry = params.action_reg.get();
        input.options.secondary_stack_factor = s.secondary_stack_factor;
        input.options.linear_loss_limit = s.linear_loss_limit;
        input.options.lowest_electron_energy
            = PhysicsParamsOptions::Energy(s.lowest_electron_energy);
        input.options.fixed_step_limiter = s.fixed_step_limiter;
        input.options.disable_integral_xs = s.disable_integral_xs;
        ProcessBuilder build(
            d, params.particle, params.material, ProcessBuilder::Options{});
        for (auto p : ProcessBuilder::get_all_process_classes(d.processes))
            input.processes.push_back(build(p));
        if (s.have_absorb)
        {
            std::vector<double> amp;
            for (auto const& ms : s.materials)
                amp.push_back(s.absorb_amp * ms.rel_density);
            input.processes.push_back(std::make_shared<AbsorbProcess>(
                params.particle->find(PDGNumber{22}),
                s.emin,
                s.emax,
                s.nbins,
                amp));
        }
        params.physics = std::make_shared<PhysicsParams>(std::move(input));
    }
    std::shared_ptr<UrbanMscParams const> msc;
    if (has_msc(s.along))
        msc = UrbanMscParams::from_import(*params.particle, *params.material, d);
    if (!has_field(s.along))
    {
        auto along = AlongStepGeneralLinearAction::from_params(
            params.action_reg->next_id(),
            *params.material,
            *params.particle,
            msc,
            has_fluct(s.along));
        w->along_action = int(along->action_id().get());
        params.action_reg->insert(along);
    }
    else
    {
        UniformFieldParams fp;
        for (int k = 0; k < 3; ++k)
            fp.field[k] = native_value_from(units::FieldTesla{s.field[k]});
        auto along = AlongStepUniformMscAction::from_params(
            params.action_reg->next_id(),
            *params.material,
            *params.particle,
            fp,
            msc,
            false);
        w->along_action = int(along->action_id().get());
        params.action_reg->insert(along);
    }
    params.rng = std::make_shared<RngParams>(s.rng_seed);
    params.sim = SimParams::from_import(d, params.particle, 100);
    {
        TrackInitParams::Input ti;
        ti.capacity = s.init_capacity;
        ti.max_events = s.max_events;
        ti.track_order = s.track_order;
        params.init = std::make_shared<TrackInitParams>(ti);
    }
    params.max_streams = s.max_streams;
    if (s.status_checker)
    {
        params.aux_reg = std::make_shared<AuxParamsRegistry>();
        auto sc = std::make_shared<StatusChecker>(params.action_reg->next_id(),
                                                  params.aux_reg->next_id());
        params.action_reg->insert(sc);
        params.aux_reg->insert(sc);
    }
    if (customize)
        customize(params);
    for (auto& h : hooks)
    {
        auto act = std::make_shared<HookAction>(
            params.action_reg->next_id(), h.label, h.order, h.fn);
        params.action_reg->insert(act);
    }
    w->core = std::make_shared<CoreParams>(std::move(params));
    w->rec = std::make_shared<Recorder>();
    std::vector<std::shared_ptr<StepInterface>> cbs;
    if (register_recorder)
        cbs.push_back(w->rec);
    for (auto& cb : extra_callbacks)
        cbs.push_back(cb);
    if (after_core)
        after_core(*w->core);
    if (!cbs.empty())
        w->collector = StepCollector::make_and_insert(*w->core, cbs);
    auto const& pp = *w->core->particle();
    for (auto pid : range(ParticleId{pp.size()}))
    {
        auto pv = pp.get(pid);
        w->mass.push_back(pv.mass().value());
        w->pdg.push_back(pp.id_to_pdg(pid).get());
        w->antiparticle.push_back(pv.is_antiparticle());
    }
    return w;
}

inline std::vector<Primary>
make_primaries(World const& w, std::vector<PrimarySpec> const& ps, int event)
{
    std::vector<Primary> out;
    for (auto const& p : ps)
    {
        Primary q;
        q.particle_id = w.core->particle()->find(PDGNumber{p.pdg});
        q.energy = units::MevEnergy{p.energy};
        q.position = {p.pos[0], p.pos[1], p.pos[2]};
        q.direction = {p.dir[0], p.dir[1], p.dir[2]};
        q.time = p.time;
        q.event_id = EventId{static_cast<EventId::size_type>(event)};
        out.push_back(q);
    }
    return out;
}

struct RunResult
{
    bool completed = false;  // alive = queued = 0 reached
    long calls = 0;
    std::vector<StepperResult> results;
    std::string error;  // exception text, if any
    bool injected = false;  // the optional second batch was inserted
};

// Transport one event to completion (or until the call budget is exhausted)
inline RunResult run_event(World& w,
                           Stepper<MemSpace::host>& step,
                           std::vector<Primary> const& prim,
                           unsigned long event_id,
                           long max_calls,
                           std::vector<Primary> const* inject = nullptr,
                           long inject_after = 0)
{
    RunResult r;
    try
    {
        step.reseed(UniqueEventId{event_id});
        ++w.rec->call;  // global (never reset) index of the Stepper call
        auto res = step(make_span(prim));
        r.results.push_back(res);
        ++r.calls;
        while (res)
        {
            if (r.calls >= max_calls)
                return r;
            ++w.rec->call;
            // optional second batch of primaries inserted while the event is
            // in flight (Stepper::operator()(primaries) may be called at any
            // time)
            if (inject && r.calls == inject_after)
            {
                res = step(make_span(*inject));
                r.injected = true;
            }
            else
                res = step();
            r.results.push_back(res);
            ++r.calls;
        }
        r.completed = true;
    }
    catch (std::exception const& e)
    {
        // unwrap nested exceptions (kernel context -> original error)
        std::function<void(std::exception const&, int)> unwrap
            = [&](std::exception const& ex, int depth) {
                  r.error += (depth ? " <- " : "") + std::string(ex.what());
                  try
                  {
                      std::rethrow_if_nested(ex);
                  }
                  catch (std::exception const& inner)
                  {
                      if (depth < 4)
                          unwrap(inner, depth + 1);
                  }
                  catch (...)
                  {
                  }
              };
        unwrap(e, 0);
        // Development (CELERITAS_DEBUG=ON) build only: an exact tie between
        // the discrete interaction distance and the MSC-converted step trips
        // 'mfp > 0' in TrackUpdater although the step length equals the limit
        // (the release build continues with mfp = 0).  Not judged.
        if (r.error.find("internal assertion failed: mfp > 0")
            != std::string::npos)
        {
            r.error.clear();
            r.completed = false;
        }
    }
    return r;
}

//---------------------------------------------------------------------------//
// Generator of problem specifications
//---------------------------------------------------------------------------//
struct GenOptions
{
    bool allow_msc = true;
    bool allow_field = true;
    bool allow_fluct = true;
    bool allow_brems = false;
    double max_primary_energy = 30;  // MeV
    double max_event_energy = 60;
    int max_events = 2;
    int max_primaries = 4;
    bool tight_capacity = false;  // C16
};

inline TableFn gen_table(Choices& c, CaseLog& log, double amp_lo, double amp_hi)
{
    TableFn f;
    f.amp = c.log_uniform(amp_lo, amp_hi);
    f.p_lo = c.real_in(-0.5, 1.0);
    f.p_hi = f.p_lo + c.real_in(0, 2.0);
    f.e_ref = c.log_uniform(0.05, 20);
    log.mix(f.amp);
    log.mix(f.p_lo);
    log.mix(f.p_hi);
    log.mix(f.e_ref);
    return f;
}

// Fill everything except geometry-dependent parts (volume materials, primary
// positions), which need the fixture.
inline SimSpec
gen_spec(Choices& c, CaseLog& log, GeoFixture& fix, GenOptions const& opt)
{
    SimSpec s;
    int nmat = int(c.int_in(1, 3));
    log.mix(nmat);
    for (int m = 0; m < nmat; ++m)
    {
        MaterialSpec ms;
        ms.z = int(c.int_in(1, 92));
        ms.amass = ms.z * c.real_in(2.0, 2.6);
        // relative density: from near-vacuum to dense
        ms.rel_density = c.pick({1, 4, 2}) == 0 ? c.log_uniform(1e-7, 1e-3)
                                                : c.log_uniform(1e-2, 3);
        ms.number_density = 8.5e22 * ms.rel_density;
        ms.cut_gamma = c.log_uniform(1e-3, 5);
        ms.cut_electron = c.log_uniform(1e-3, 5);
        ms.cut_positron = c.boolean(0.5) ? ms.cut_electron
                                         : c.log_uniform(1e-3, 5);
        log.mix(ms.z);
        log.mix(ms.rel_density);
        log.mix(ms.cut_gamma);
        log.mix(ms.cut_electron);
        log.mix(ms.cut_positron);
        s.materials.push_back(ms);
    }
    s.emin = c.log_uniform(1e-5, 1e-3);
    s.emax = c.log_uniform(1e2, 1e4);
    s.nbins = int(c.int_in(8, 84));
    s.compton = gen_table(c, log, 1e-2, 3);
    s.conversion = gen_table(c, log, 1e-2, 3);
    s.conversion.threshold = 0;  // grid starts at threshold (see make_import)
    s.ioni = gen_table(c, log, 1e-2, 5);
    s.brems = gen_table(c, log, 1e-3, 1);
    s.rayleigh = gen_table(c, log, 1e-3, 1);
    s.msc = gen_table(c, log, 1e-1, 1e2);
    s.have_absorb = true;
    s.absorb_amp = c.log_uniform(1e-3, 1);
    log.mix(s.absorb_amp);
    s.have_compton = c.boolean(0.9);
    s.have_conversion = c.boolean(0.8);
    s.have_ioni = true;
    s.have_annihilation = true;
    s.have_brems = opt.allow_brems && c.boolean(0.4);
    s.dedx_a = c.log_uniform(0.3, 10);
    s.dedx_b = c.log_uniform(1e-3, 1);
    s.dedx_c = c.log_uniform(1e-4, 0.1);
    s.apply_cuts = c.boolean(0.6);
    s.lowest_electron_energy = c.log_uniform(1e-4, 0.3);
    s.linear_loss_limit = c.boolean(0.6) ? 0.01 : c.log_uniform(1e-3, 0.3);
    s.fixed_step_limiter = c.boolean(0.2) ? c.log_uniform(1e-2, 1) * fix.scale
                                          : 0;
    (void)c.boolean(0.2);  // (kept for choice-sequence stability)
    // disable_integral_xs is never generated: without the integral-approach
    // rejection an eloss process can fire at a post-step energy below its
    // threshold, which the interactors exclude by precondition
    s.disable_integral_xs = false;
    s.secondary_stack_factor = opt.tight_capacity ? 3 : c.real_in(2, 6);
    {
        std::initializer_list<double> wts = {3,
                                             opt.allow_fluct ? 2.0 : 0.0,
                                             opt.allow_msc ? 2.0 : 0.0,
                                             (opt.allow_msc && opt.allow_fluct) ? 1.0 : 0.0,
                                             opt.allow_field ? 1.5 : 0.0,
                                             (opt.allow_field && opt.allow_msc) ? 1.0 : 0.0};
        s.along = static_cast<AlongStep>(c.pick(wts));
    }
    if (has_field(s.along))
    {
        double dir[3];
        c.unit_vector(dir);
        double b = c.log_uniform(1e-3, 10);
        for (int k = 0; k < 3; ++k)
            s.field[k] = b * dir[k];
        log.mix(b);
    }
    s.track_slots = int(c.pick({1, 1, 1, 2}) == 0 ? 1 : c.int_in(2, 64));
    s.track_order = static_cast<TrackOrder>(c.int_in(0, int(TrackOrder::size_) - 1));
    s.rng_seed = unsigned(c.bits(4));
    log.mix(int(s.along));
    log.mix(s.track_slots);
    log.mix(int(s.track_order));
    log.mix(s.rng_seed);
    log.mix(s.lowest_electron_energy);
    log.mix(int(s.apply_cuts));
    // volume -> material
    size_t nvol = fix.params->num_volumes();
    s.volume_material.resize(nvol);
    for (size_t v = 0; v < nvol; ++v)
        s.volume_material[v] = v < 24 ? int(c.int_in(0, nmat - 1))
                                      : int((v * 7 + 3) % nmat);
    // events
    int nev = int(c.int_in(1, opt.max_events));
    s.max_events = 8;
    for (int e = 0; e < nev; ++e)
    {
        std::vector<PrimarySpec> ps;
        int np = int(c.int_in(1, opt.max_primaries));
        double budget = opt.max_event_energy;
        for (int i = 0; i < np; ++i)
        {
            PrimarySpec p;
            p.pdg = (c.pick({2, 2, 2}) == 0) ? 22 : (c.boolean(0.5) ? 11 : -11);
            p.energy = c.log_uniform(1e-3, opt.max_primary_energy);
            if (p.energy > budget)
                p.energy = std::max(1e-3, budget);
            budget -= p.energy;
            // position: unambiguous interior point
            bool ok = false;
            for (int a = 0; a < 6 && !ok; ++a)
            {
                geo::V3 x;
                for (int k = 0; k < 3; ++k)
                    x[k] = c.real_in(fix.lo[k], fix.hi[k]);
                auto pp = geo::locate(
                    fix.model, x, 100 * geo::delta_at(fix.model, x));
                if (!pp.ambiguous && !pp.outside() && !pp.nowhere
                    && !pp.overlap)
                {
                    ok = true;
                    for (int k = 0; k < 3; ++k)
                        p.pos[k] = double(x[k]);
                }
            }
            if (!ok)
                continue;
            if (c.boolean(0.15))
            {
                int ax = int(c.int_in(0, 2));
                bool neg = c.boolean();
                p.dir[0] = p.dir[1] = p.dir[2] = 0;
                p.dir[ax] = neg ? -1 : 1;
            }
            else
                c.unit_vector(p.dir);
            p.time = c.boolean(0.2) ? c.real_in(0, 1e-8) : 0;
            log.mix(p.pdg);
            log.mix(p.energy);
            for (int k = 0; k < 3; ++k)
            {
                log.mix(p.pos[k]);
                log.mix(p.dir[k]);
            }
            ps.push_back(p);
        }
        if (!ps.empty())
            s.events.push_back(ps);
    }
    // "tie" class: make the fixed step limiter EXACTLY the navigator's own
    // distance to the first boundary of the first primary, so that a physics
    // step limit coincides with a boundary (both code paths must agree)
    if (!s.events.empty() && c.boolean(0.15))
    {
        auto const& p0 = s.events[0][0];
        auto tv = fix.track();
        tv = GeoTrackInitializer{Real3{p0.pos[0], p0.pos[1], p0.pos[2]},
                                 Real3{p0.dir[0], p0.dir[1], p0.dir[2]}};
        if (!tv.failed() && !tv.is_outside())
        {
            auto pr = tv.find_next_step();
            // (a limiter far below the geometry scale only makes the event
            // take millions of steps)
            if (pr.boundary && pr.distance > 0 && std::isfinite(pr.distance))
            {
                int div = int(c.int_in(1, 3));
                if (pr.distance > 4e-3 * fix.scale)
                {
                    s.fixed_step_limiter = pr.distance / (div == 3 ? 4 : div);
                    log.label("step-limiter-boundary-tie");
                    log.mix(s.fixed_step_limiter);
                }
            }
        }
    }
    return s;
}

inline void describe(CaseLog& log, SimSpec const& s)
{
    if (!log.want_desc)
        return;
    log.d("materials", s.materials.size());
    log.d("along", int(s.along));
    log.d("slots", s.track_slots);
    log.d("track_order", int(s.track_order));
    log.d("apply_cuts", int(s.apply_cuts));
    log.d("lowest_e", s.lowest_electron_energy);
    log.d("stack_factor", s.secondary_stack_factor);
    std::ostringstream os;
    for (auto const& ev : s.events)
    {
        os << "[";
        for (auto const& p : ev)
            os << "(" << p.pdg << " " << p.energy << "MeV)";
        os << "]";
    }
    log.ds("events", os.str());
    std::ostringstream ms;
    for (auto const& m : s.materials)
        ms << "(Z" << m.z << " rho" << m.rel_density << " cuts " << m.cut_gamma
           << "/" << m.cut_electron << "/" << m.cut_positron << ")";
    log.ds("mats", ms.str());
}

// One generated problem, built and (optionally) run
struct Problem
{
    GeoSource src;
    SimSpec spec;
    std::unique_ptr<World> w;
    std::unique_ptr<Stepper<MemSpace::host>> stepper;
    std::vector<RunResult> runs;
};

// Generate geometry + spec and build the world.  Returns pass when ready.
inline Verdict setup_problem(Choices& c,
                             CaseLog& log,
                             GenOptions const& opt,
                             Problem& p,
                             std::vector<Hook> hooks = {},
                             std::vector<std::shared_ptr<StepInterface>> cbs = {},
                             std::function<void(SimSpec&)> tweak = {})
{
    Verdict gv = choose_geometry(c, log, p.src);
    if (gv != Verdict::pass)
        return gv;
    p.spec = gen_spec(c, log, *p.src.fix, opt);
    if (tweak)
        tweak(p.spec);
    describe(log, p.spec);
    if (p.spec.events.empty())
        return Verdict::trivial;
    try
    {
        p.w = build_world(p.spec, p.src.fix->params, std::move(hooks), std::move(cbs));
    }
    catch (celeritas::RuntimeError const& e)
    {
        log.ds("rejected", e.what());
        return Verdict::rejected;
    }
    StepperInput si;
    si.params = p.w->core;
    si.stream_id = StreamId{0};
    si.num_track_slots = p.spec.track_slots;
    si.action_times = p.spec.action_times;
    p.stepper = std::make_unique<Stepper<MemSpace::host>>(si);
    return Verdict::pass;
}

// Transport all events of the problem.  pass = all completed; trivial =
// call budget exhausted or capacity exceeded (labelled); violation = exception
inline Verdict run_all_events(Problem& p, CaseLog& log, long max_calls)
{
    for (size_t e = 0; e < p.spec.events.size(); ++e)
    {
        auto prim = make_primaries(*p.w, p.spec.events[e], int(e));
        RunResult r = run_event(*p.w, *p.stepper, prim, unsigned(e), max_calls);
        bool cap = r.error.find("insufficient") != std::string::npos;
        bool done = r.completed;
        std::string err = r.error;
        p.runs.push_back(std::move(r));
        if (cap)
        {
            log.label("capacity-exceeded");
            return Verdict::rejected;
        }
        if (!err.empty())
        {
            log.fail("exception during transport of event " + std::to_string(e)
                     + ": " + err);
            return Verdict::violation;
        }
        if (!done)
        {
            log.label("budget-exhausted");
            return Verdict::trivial;
        }
    }
    return Verdict::pass;
}

// Pick a geometry suitable for transport (small number of volumes)
inline Verdict choose_sim_geometry(Choices& c, CaseLog& log, GeoSource& src)
{
    return choose_geometry(c, log, src);
}

}  // namespace sim
}  // namespace verif
