// Oracles over a recorded step stream: per-event and per-track energy ledger
// (C01), used also under storage starvation (C16).
#pragma once

#include <cmath>
#include <map>
#include <set>
#include <sstream>
#include <string>
#include <vector>

#include "simrun.hh"

namespace verif
{
namespace sim
{
struct TrackLog
{
    int parent = -1;
    int particle = -1;
    std::vector<StepRec const*> steps;  // in step_count order
};

struct EventLog
{
    int event = -1;
    std::map<unsigned, TrackLog> tracks;
};

// Split the recorder's stream by event and track (stream order is the order
// of Stepper calls, so steps of one track are already in sequence).
inline std::map<int, EventLog> split_events(std::vector<StepRec> const& steps)
{
    std::map<int, EventLog> ev;
    for (auto const& s : steps)
    {
        auto& e = ev[s.event];
        e.event = s.event;
        auto& t = e.tracks[s.track];
        if (t.steps.empty())
        {
            t.parent = s.parent;
            t.particle = s.particle;
        }
        t.steps.push_back(&s);
    }
    return ev;
}

struct LedgerStats
{
    long tracks = 0, steps = 0, secondaries = 0, positrons = 0, escaped = 0;
    long action_kinds = 0;
    long boundary_steps = 0;
    double e_in = 0, e_dep = 0, e_out = 0;
    double worst_event_rel = 0, worst_track_rel = 0;
};

// E* = T + 2 m c^2 for antiparticles, T otherwise
inline double estar(World const& w, int particle, double t)
{
    return t + (w.antiparticle[particle] ? 2 * w.mass[particle] : 0.0);
}

// Returns empty string if the ledger holds, otherwise the oracle message.
inline std::string check_ledger(World const& w,
                                std::vector<StepRec> const& steps,
                                LedgerStats* st)
{
    auto events = split_events(steps);
    std::set<int> actions;
    for (auto const& kv : events)
    {
        EventLog const& ev = kv.second;
        long double e_in = 0, e_dep = 0, e_out = 0, e_max = 0;
        // children energy at birth per parent
        std::map<unsigned, long double> child_sum;
        for (auto const& tk : ev.tracks)
        {
            TrackLog const& t = tk.second;
            StepRec const& first = *t.steps.front();
            StepRec const& last = *t.steps.back();
            ++st->tracks;
            st->steps += long(t.steps.size());
            // (a track that cannot be initialised - started outside or on a
            // surface - is killed by the tracking cut without taking a step:
            // one zero-length record with step count 0; its energy must still
            // be deposited)
            bool killed_at_init = t.steps.size() == 1 && first.step_count == 0
                                  && first.length == 0;
            if (first.step_count != 1 && !killed_at_init)
            {
                std::ostringstream m;
                m << "event " << ev.event << " track " << tk.first
                  << ": first recorded step has step count "
                  << first.step_count;
                return m.str();
            }
            double birth = estar(w, t.particle, first.pre.energy);
            if (t.parent < 0)
                e_in += birth;
            else
            {
                child_sum[unsigned(t.parent)] += birth;
                ++st->secondaries;
            }
            if (w.antiparticle[t.particle])
                ++st->positrons;
            e_max = std::max<long double>(e_max, birth);
            long double own_dep = 0;
            for (StepRec const* s : t.steps)
            {
                if (!(s->edep >= 0) || !std::isfinite(s->edep))
                {
                    std::ostringstream m;
                    m << "event " << ev.event << " track " << tk.first
                      << " step " << s->step_count
                      << ": energy deposition " << s->edep;
                    return m.str();
                }
                if (!(s->pre.energy >= 0) || !(s->post.energy >= 0)
                    || !std::isfinite(s->pre.energy)
                    || !std::isfinite(s->post.energy))
                {
                    std::ostringstream m;
                    m << "event " << ev.event << " track " << tk.first
                      << " step " << s->step_count << ": energies "
                      << s->pre.energy << " -> " << s->post.energy;
                    return m.str();
                }
                own_dep += s->edep;
                actions.insert(s->action);
                if (s->post.volume != s->pre.volume)
                    ++st->boundary_steps;
            }
            e_dep += own_dep;
            // end of track
            long double end = 0;
            // escaping = leaving the world with kinetic energy; a track with
            // no valid volume and NO kinetic energy was killed (errored: its
            // energy, and 2mc^2 for a positron, is deposited by the tracking
            // cut), it does not carry anything away
            if (last.post.volume < 0 && last.post.energy > 0)
            {
                end = estar(w, t.particle, last.post.energy);
                e_out += end;
                ++st->escaped;
            }
            else if (last.post.energy != 0)
            {
                std::ostringstream m;
                m << "event " << ev.event << " track " << tk.first
                  << " (particle " << w.pdg[t.particle] << ") ends inside volume "
                  << last.post.volume << " after step " << last.step_count
                  << " with kinetic energy " << last.post.energy
                  << " MeV that is neither deposited nor carried away";
                return m.str();
            }
        }
        // per-track balance (needs children sums, so second pass)
        for (auto const& tk : ev.tracks)
        {
            TrackLog const& t = tk.second;
            StepRec const& first = *t.steps.front();
            StepRec const& last = *t.steps.back();
            long double birth = estar(w, t.particle, first.pre.energy);
            long double end = (last.post.volume < 0 && last.post.energy > 0)
                                  ? estar(w, t.particle, last.post.energy)
                                  : 0;
            long double own_dep = 0;
            for (StepRec const* s : t.steps)
                own_dep += s->edep;
            long double kids = 0;
            auto it = child_sum.find(tk.first);
            if (it != child_sum.end())
                kids = it->second;
            long double resid = birth - end - own_dep - kids;
            long double tol = 1e-11L * (birth + 1e-3L) + 1e-13L * e_in;
            st->worst_track_rel = std::max<double>(
                st->worst_track_rel, double(fabsl(resid) / (birth + 1e-3L)));
            if (fabsl(resid) > tol)
            {
                std::ostringstream m;
                m.precision(15);
                m << "event " << ev.event << " track " << tk.first
                  << " (pdg " << w.pdg[t.particle] << ", parent " << t.parent
                  << ", " << t.steps.size() << " steps): born with E* = "
                  << (double)birth << " MeV, ends with " << (double)end
                  << ", deposited " << (double)own_dep
                  << ", direct secondaries born with " << (double)kids
                  << ": residual " << (double)resid << " MeV";
                return m.str();
            }
        }
        // parents exist
        for (auto const& cs : child_sum)
            if (!ev.tracks.count(cs.first))
            {
                std::ostringstream m;
                m << "event " << ev.event << ": secondaries name parent track "
                  << cs.first << " which never took a step";
                return m.str();
            }
        long double resid = e_in - e_dep - e_out;
        long double tol = 1e-11L * e_in + 1e-9L * e_max * 1e-3L;
        st->e_in += double(e_in);
        st->e_dep += double(e_dep);
        st->e_out += double(e_out);
        if (e_in > 0)
            st->worst_event_rel = std::max<double>(st->worst_event_rel,
                                                   double(fabsl(resid) / e_in));
        if (fabsl(resid) > tol)
        {
            std::ostringstream m;
            m.precision(15);
            m << "event " << ev.event << ": primaries E* = " << (double)e_in
              << " MeV, deposited " << (double)e_dep << ", escaped "
              << (double)e_out << ": residual " << (double)resid << " MeV";
            return m.str();
        }
    }
    st->action_kinds = long(actions.size());
    return {};
}

}  // namespace sim
}  // namespace verif
