// Geometry sources for the navigation harnesses (G-GEO):
//   C  bundled .org.json files (loaded once in geosrc_setup)
//   B  raw OrangeInput written directly by the generator below: every runtime
//      surface type, first-match partitions in RPN logic, background volume,
//      daughters with all transform types, rectangular arrays
//   A  construction-API models (geogen.hh) when VERIF_HAVE_GEOGEN is defined
#pragma once

#include <algorithm>
#include <cmath>
#include <memory>
#include <string>
#include <vector>

#include "caselog.hh"
#include "corecel/Assert.hh"
#include "geofix.hh"
#include "orange/MatrixUtils.hh"
#include "orange/surf/ConeAligned.hh"
#include "orange/surf/CylAligned.hh"
#include "orange/surf/CylCentered.hh"
#include "orange/surf/GeneralQuadric.hh"
#include "orange/surf/Plane.hh"
#include "orange/surf/PlaneAligned.hh"
#include "orange/surf/SimpleQuadric.hh"
#include "orange/surf/Sphere.hh"
#include "orange/surf/SphereCentered.hh"
#include "orange/transform/Transformation.hh"
#include "orange/transform/Translation.hh"
#ifdef VERIF_HAVE_GEOGEN
#    include "geogen.hh"
#endif

namespace verif
{
struct GeoSource
{
    GeoFixture* fix = nullptr;
    std::unique_ptr<GeoFixture> owned;
    bool rich = false;  // has internal surfaces / background / daughter / array
    // hints for start points (global frame): centres of regions and of
    // embedded universes with their nesting level; pure bookkeeping of the
    // generator (no choices are drawn for them)
    struct Anchor
    {
        double pos[3];
        double radius;
        int level;
    };
    std::vector<Anchor> anchors;
};

inline std::vector<std::unique_ptr<GeoFixture>>& bundled_fixtures()
{
    static std::vector<std::unique_ptr<GeoFixture>> v;
    return v;
}

inline void geosrc_setup()
{
    auto& v = bundled_fixtures();
    if (!v.empty())
        return;
    for (auto const& path : bundled_geometry_files())
    {
        try
        {
            auto inp = load_org_json(path);
            std::string name = path.substr(path.rfind('/') + 1);
            auto fx = make_fixture(name, std::move(inp));
            if (fx->model.duplicate_surfaces || fx->model.unsupported)
            {
                std::fprintf(stderr,
                             "note: bundled geometry %s skipped (%s)\n",
                             name.c_str(),
                             fx->model.unsupported
                                 ? "surface type without runtime support"
                                 : "identical surfaces inside one unit");
                continue;
            }
            v.push_back(std::move(fx));
        }
        catch (std::exception const& e)
        {
            std::fprintf(stderr,
                         "note: bundled geometry %s not usable: %.200s\n",
                         path.c_str(),
                         e.what());
        }
    }
}

//---------------------------------------------------------------------------//
// Raw OrangeInput generator
//---------------------------------------------------------------------------//
namespace rawgeo
{
using namespace celeritas;

struct Lit
{
    size_type surf;
    bool positive;  // want "outside"/positive sense
};
using Conj = std::vector<Lit>;  // AND of literals

struct UnitBuilder
{
    UnitInput u;
    size_type add(VariantSurface s)
    {
        u.surfaces.push_back(std::move(s));
        return size_type(u.surfaces.size() - 1);
    }
};

// Emit RPN for: all(must) AND NOT any(previous), each a conjunction
inline void emit_volume(UnitInput& u,
                        std::vector<Conj> const& must,
                        std::vector<Conj> const& mustnot,
                        bool negate_whole,
                        std::string label,
                        ZOrder z,
                        BBox bbox = {})
{
    VolumeInput v;
    std::vector<size_type> used;
    for (auto const& cj : must)
        for (auto const& l : cj)
            used.push_back(l.surf);
    for (auto const& cj : mustnot)
        for (auto const& l : cj)
            used.push_back(l.surf);
    std::sort(used.begin(), used.end());
    used.erase(std::unique(used.begin(), used.end()), used.end());
    for (auto s : used)
        v.faces.push_back(LocalSurfaceId{s});
    auto face_of = [&used](size_type s) {
        return logic_int(std::lower_bound(used.begin(), used.end(), s)
                         - used.begin());
    };
    auto emit_conj = [&](Conj const& cj) {
        bool first = true;
        for (auto const& l : cj)
        {
            v.logic.push_back(face_of(l.surf));
            if (!l.positive)
                v.logic.push_back(logic::lnot);
            if (!first)
                v.logic.push_back(logic::land);
            first = false;
        }
    };
    bool first = true;
    size_t nlit = 0;
    for (auto const& cj : must)
    {
        emit_conj(cj);
        nlit += cj.size();
        if (!first)
            v.logic.push_back(logic::land);
        first = false;
    }
    for (auto const& cj : mustnot)
    {
        emit_conj(cj);
        v.logic.push_back(logic::lnot);
        if (!first)
            v.logic.push_back(logic::land);
        first = false;
    }
    if (negate_whole)
        v.logic.push_back(logic::lnot);
    bool simple = mustnot.empty() && !negate_whole;
    if (negate_whole && must.size() == 1 && must[0].size() == 1
        && mustnot.empty())
        simple = true;  // single negated literal
    v.flags = simple ? 0 : VolumeRecord::internal_surfaces;
    v.zorder = z;
    v.label = Label{std::move(label)};
    v.bbox = bbox;
    u.volumes.push_back(std::move(v));
}

struct Region
{
    Conj conj;
    BBox bbox;  // enclosing box, may be null (= unknown/infinite)
    double center[3];
    double radius;  // a sphere of this radius about center is inside
    char const* kind;
};

inline Real3 rand_center(Choices& c, double w)
{
    return Real3{c.real_in(-w, w), c.real_in(-w, w), c.real_in(-w, w)};
}

inline Region gen_region(Choices& c, CaseLog& log, UnitBuilder& b, double w)
{
    Region r;
    Real3 ctr = rand_center(c, 0.6 * w);
    if (c.boolean(0.15))
        ctr = Real3{0, 0, 0};
    double sz = c.real_in(0.08, 0.4) * w;
    for (int k = 0; k < 3; ++k)
    {
        r.center[k] = ctr[k];
        log.mix(ctr[k]);
    }
    log.mix(sz);
    r.radius = sz * 0.3;
    int kind = int(c.int_in(0, 8));
    log.mix(kind);
    auto box_of = [&](double hx, double hy, double hz) {
        return BBox{{ctr[0] - hx, ctr[1] - hy, ctr[2] - hz},
                    {ctr[0] + hx, ctr[1] + hy, ctr[2] + hz}};
    };
    switch (kind)
    {
        case 0: {
            r.kind = "sphere";
            bool centered = (ctr[0] == 0 && ctr[1] == 0 && ctr[2] == 0);
            size_type s = centered ? b.add(SphereCentered{sz})
                                   : b.add(Sphere{ctr, sz});
            r.conj = {{s, false}};
            r.bbox = box_of(sz, sz, sz);
            r.radius = sz * 0.9;
            break;
        }
        case 1: {
            r.kind = "capped-cyl";
            int ax = int(c.int_in(0, 2));
            double hh = c.real_in(0.5, 2) * sz;
            size_type cy;
            if (ax == 0)
                cy = b.add(CylX{ctr, sz});
            else if (ax == 1)
                cy = b.add(CylY{ctr, sz});
            else
                cy = b.add(CylZ{ctr, sz});
            size_type p0, p1;
            if (ax == 0)
            {
                p0 = b.add(PlaneX{ctr[0] - hh});
                p1 = b.add(PlaneX{ctr[0] + hh});
            }
            else if (ax == 1)
            {
                p0 = b.add(PlaneY{ctr[1] - hh});
                p1 = b.add(PlaneY{ctr[1] + hh});
            }
            else
            {
                p0 = b.add(PlaneZ{ctr[2] - hh});
                p1 = b.add(PlaneZ{ctr[2] + hh});
            }
            r.conj = {{cy, false}, {p0, true}, {p1, false}};
            double h[3] = {sz, sz, sz};
            h[ax] = hh;
            r.bbox = box_of(h[0], h[1], h[2]);
            r.radius = std::fmin(sz, hh) * 0.9;
            break;
        }
        case 2: {
            r.kind = "box";
            double h[3] = {c.real_in(0.5, 1.5) * sz,
                           c.real_in(0.5, 1.5) * sz,
                           c.real_in(0.5, 1.5) * sz};
            size_type s0 = b.add(PlaneX{ctr[0] - h[0]});
            size_type s1 = b.add(PlaneX{ctr[0] + h[0]});
            size_type s2 = b.add(PlaneY{ctr[1] - h[1]});
            size_type s3 = b.add(PlaneY{ctr[1] + h[1]});
            size_type s4 = b.add(PlaneZ{ctr[2] - h[2]});
            size_type s5 = b.add(PlaneZ{ctr[2] + h[2]});
            r.conj = {{s0, true},
                      {s1, false},
                      {s2, true},
                      {s3, false},
                      {s4, true},
                      {s5, false}};
            r.bbox = box_of(h[0], h[1], h[2]);
            r.radius = std::fmin(h[0], std::fmin(h[1], h[2])) * 0.9;
            break;
        }
        case 3: {
            r.kind = "cone-frustum";
            int ax = int(c.int_in(0, 2));
            double tang = c.real_in(0.2, 1.5);
            // apex at ctr; frustum between apex + z1 and apex + z2 (z1>0)
            double z1 = c.real_in(0.2, 0.6) * sz, z2 = z1 + c.real_in(0.5, 2) * sz;
            size_type k;
            if (ax == 0)
                k = b.add(ConeX{ctr, tang});
            else if (ax == 1)
                k = b.add(ConeY{ctr, tang});
            else
                k = b.add(ConeZ{ctr, tang});
            size_type p0, p1;
            if (ax == 0)
            {
                p0 = b.add(PlaneX{ctr[0] + z1});
                p1 = b.add(PlaneX{ctr[0] + z2});
            }
            else if (ax == 1)
            {
                p0 = b.add(PlaneY{ctr[1] + z1});
                p1 = b.add(PlaneY{ctr[1] + z2});
            }
            else
            {
                p0 = b.add(PlaneZ{ctr[2] + z1});
                p1 = b.add(PlaneZ{ctr[2] + z2});
            }
            r.conj = {{k, false}, {p0, true}, {p1, false}};
            double rr = tang * z2;
            double lo[3] = {ctr[0] - rr, ctr[1] - rr, ctr[2] - rr};
            double hi[3] = {ctr[0] + rr, ctr[1] + rr, ctr[2] + rr};
            lo[ax] = ctr[ax] + z1;
            hi[ax] = ctr[ax] + z2;
            r.bbox = BBox{{lo[0], lo[1], lo[2]}, {hi[0], hi[1], hi[2]}};
            // inscribed sphere on the axis at mid height
            double zm = (z1 + z2) / 2;
            r.center[ax] = ctr[ax] + zm;
            r.radius = 0.8
                       * std::fmin((z2 - z1) / 2,
                                   tang * zm / std::sqrt(1 + tang * tang));
            break;
        }
        case 4: {
            r.kind = "slab";
            double nn[3];
            c.unit_vector(nn);
            Real3 n{nn[0], nn[1], nn[2]};
            double d0 = dot_product(n, ctr);
            double th = c.real_in(0.3, 1) * sz;
            size_type p0 = b.add(Plane{n, d0 - th});
            size_type p1 = b.add(Plane{n, d0 + th});
            r.conj = {{p0, true}, {p1, false}};
            r.radius = th * 0.9;
            break;
        }
        case 5: {
            r.kind = "sq-ellipsoid";
            double rr[3] = {c.real_in(0.5, 1.5) * sz,
                            c.real_in(0.5, 1.5) * sz,
                            c.real_in(0.5, 1.5) * sz};
            Real3 abc, def;
            double g = -1;
            for (int k = 0; k < 3; ++k)
            {
                abc[k] = 1 / (rr[k] * rr[k]);
                def[k] = -2 * ctr[k] * abc[k];
                g += ctr[k] * ctr[k] * abc[k];
            }
            size_type s = b.add(SimpleQuadric{abc, def, g});
            r.conj = {{s, false}};
            r.bbox = box_of(rr[0], rr[1], rr[2]);
            r.radius = std::fmin(rr[0], std::fmin(rr[1], rr[2])) * 0.9;
            break;
        }
        case 6: {
            r.kind = "gq-ellipsoid";
            double rr[3] = {c.real_in(0.5, 1.5) * sz,
                            c.real_in(0.5, 1.5) * sz,
                            c.real_in(0.5, 1.5) * sz};
            double ax[3];
            c.unit_vector(ax);
            auto R = make_rotation(make_unit_vector(Real3{ax[0], ax[1], ax[2]}),
                                   Turn{c.real_in(0, 0.5)});
            // A = R diag(1/r^2) R^T
            double A[3][3];
            for (int i = 0; i < 3; ++i)
                for (int j = 0; j < 3; ++j)
                {
                    A[i][j] = 0;
                    for (int k = 0; k < 3; ++k)
                        A[i][j] += R[i][k] * R[j][k] / (rr[k] * rr[k]);
                }
            Real3 abc{A[0][0], A[1][1], A[2][2]};
            Real3 def{2 * A[0][1], 2 * A[1][2], 2 * A[0][2]};
            Real3 ghi;
            double j = -1;
            for (int i = 0; i < 3; ++i)
            {
                ghi[i] = 0;
                for (int k = 0; k < 3; ++k)
                {
                    ghi[i] -= 2 * A[i][k] * ctr[k];
                    j += ctr[i] * A[i][k] * ctr[k];
                }
            }
            size_type s = b.add(GeneralQuadric{abc, def, ghi, j});
            r.conj = {{s, false}};
            double rm = std::fmax(rr[0], std::fmax(rr[1], rr[2]));
            r.bbox = box_of(rm, rm, rm);
            r.radius = std::fmin(rr[0], std::fmin(rr[1], rr[2])) * 0.9;
            break;
        }
        case 7: {
            r.kind = "centered-cyl";
            int ax = int(c.int_in(0, 2));
            size_type s = ax == 0   ? b.add(CCylX{sz})
                          : ax == 1 ? b.add(CCylY{sz})
                                    : b.add(CCylZ{sz});
            r.conj = {{s, false}};
            for (int k = 0; k < 3; ++k)
                r.center[k] = 0;
            r.center[ax] = ctr[ax];
            r.radius = sz * 0.9;
            break;
        }
        default: {
            r.kind = "halfspace-wedge";
            // intersection of two general half spaces through ctr
            double n1[3], n2[3];
            c.unit_vector(n1);
            c.unit_vector(n2);
            Real3 a{n1[0], n1[1], n1[2]}, bb{n2[0], n2[1], n2[2]};
            size_type p0 = b.add(Plane{a, dot_product(a, ctr)});
            size_type p1 = b.add(Plane{bb, dot_product(bb, ctr)});
            r.conj = {{p0, true}, {p1, true}};
            // a point inside: ctr + (a + b)*s when a.b > -1
            double ab = dot_product(a, bb);
            double s = sz;
            for (int k = 0; k < 3; ++k)
                r.center[k] = ctr[k] + s * (a[k] + bb[k]);
            r.radius = 0.9 * s * (1 + ab);
            break;
        }
    }
    log.label(r.kind);
    return r;
}

struct Built
{
    OrangeInput input;
    bool rich = false;
    double half = 10;
    std::vector<GeoSource::Anchor> anchors;
};

inline Real3 transform_up(VariantTransform const& t, Real3 const& p)
{
    return std::visit([&p](auto const& tr) { return tr.transform_up(p); }, t);
}

inline VariantTransform gen_transform(Choices& c, CaseLog& log, Real3 const& t)
{
    int k = int(c.int_in(0, 2));
    log.mix(k);
    if (k == 0)
        return Translation{t};
    double ax[3];
    c.unit_vector(ax);
    double turn = c.real_in(0, 0.5);
    log.mix(turn);
    auto R = make_rotation(make_unit_vector(Real3{ax[0], ax[1], ax[2]}),
                           Turn{turn});
    if (k == 2 && c.boolean(0.5))
    {
        // reflection: flip one axis of the rotation matrix
        for (int j = 0; j < 3; ++j)
            R[j][0] = -R[j][0];
        log.label("reflected-daughter");
    }
    log.label("rotated-daughter");
    return Transformation{R, t};
}

inline UniverseId add_universe(std::vector<VariantUniverseInput>& universes,
                               VariantUniverseInput u)
{
    universes.push_back(std::move(u));
    return UniverseId{size_type(universes.size() - 1)};
}

inline UnitInput gen_unit(Choices& c,
                          CaseLog& log,
                          double w,
                          bool is_root,
                          int depth,
                          std::vector<VariantUniverseInput>& universes,
                          size_t self_index,
                          std::string label,
                          bool* rich,
                          bool force_box = false,
                          std::vector<GeoSource::Anchor>* anchors = nullptr)
{
    UnitBuilder b;
    b.u.label = Label{label};
    // boundary
    Conj inside;
    bool sphere_bound = c.boolean(0.4) && !force_box;
    log.mix(int(sphere_bound));
    if (sphere_bound)
    {
        size_type s = b.add(SphereCentered{w * 1.2});
        inside = {{s, false}};
        b.u.bbox = BBox{{-w * 1.2, -w * 1.2, -w * 1.2},
                        {w * 1.2, w * 1.2, w * 1.2}};
    }
    else
    {
        size_type s0 = b.add(PlaneX{-w}), s1 = b.add(PlaneX{w});
        size_type s2 = b.add(PlaneY{-w}), s3 = b.add(PlaneY{w});
        size_type s4 = b.add(PlaneZ{-w}), s5 = b.add(PlaneZ{w});
        inside = {{s0, true},
                  {s1, false},
                  {s2, true},
                  {s3, false},
                  {s4, true},
                  {s5, false}};
        b.u.bbox = BBox{{-w, -w, -w}, {w, w, w}};
    }
    // exterior volume (index 0)
    emit_volume(b.u,
                {inside},
                {},
                true,
                "[EXTERIOR]",
                is_root ? ZOrder::exterior : ZOrder::implicit_exterior);
    if (!is_root)
        b.u.volumes.back().flags |= VolumeRecord::implicit_vol;

    int nreg = int(c.int_in(1, 5));
    log.mix(nreg);
    std::vector<Region> regs;
    for (int i = 0; i < nreg; ++i)
        regs.push_back(gen_region(c, log, b, w));
    if (anchors)
        for (auto const& r : regs)
            if (r.radius > 0)
                anchors->push_back(
                    {{r.center[0], r.center[1], r.center[2]}, r.radius, 0});
    bool use_bbox = c.boolean(0.6);
    for (int i = 0; i < nreg; ++i)
    {
        std::vector<Conj> mustnot;
        for (int j = 0; j < i; ++j)
            mustnot.push_back(regs[j].conj);
        BBox bb;
        if (use_bbox && regs[i].bbox)
            bb = regs[i].bbox;
        emit_volume(b.u,
                    {inside, regs[i].conj},
                    mustnot,
                    false,
                    label + ".v" + std::to_string(i),
                    ZOrder::media,
                    bb);
        if (i > 0)
            *rich = true;
    }
    // daughter in the first region (a ball around its centre is free of all
    // *earlier* regions trivially; later regions are masked by first-match)
    bool hole_fits = regs[0].radius > 0.02 * w;
    {
        double rr = regs[0].radius;
        double n2 = 0;
        for (int k = 0; k < 3; ++k)
        {
            n2 += regs[0].center[k] * regs[0].center[k];
            if (!sphere_bound && std::fabs(regs[0].center[k]) + rr >= 0.98 * w)
                hole_fits = false;
        }
        if (sphere_bound && std::sqrt(n2) + rr >= 0.98 * 1.2 * w)
            hole_fits = false;
    }
    if (depth > 0 && c.boolean(0.6) && hole_fits)
    {
        // replace volume 1 (region 0) by: ball of radius rad about centre as
        // a separate hole volume hosting a daughter
        double rad = regs[0].radius * c.real_in(0.4, 0.95);
        Real3 ctr{regs[0].center[0], regs[0].center[1], regs[0].center[2]};
        size_type hs = b.add(Sphere{ctr, rad});
        // hole volume: inside hole sphere (which lies inside region 0 and the
        // boundary); region-0 volume gets "outside hole"
        {
            // patch volume 1 logic: append face for hs and AND
            VolumeInput& v1 = b.u.volumes[1];
            v1.faces.push_back(LocalSurfaceId{hs});  // hs is the largest id
            v1.logic.push_back(logic_int(v1.faces.size() - 1));
            v1.logic.push_back(logic::land);
            v1.flags |= VolumeRecord::internal_surfaces;
        }
        emit_volume(b.u,
                    {Conj{{hs, false}}},
                    {},
                    false,
                    label + ".hole",
                    ZOrder::media,
                    c.boolean(0.5) ? BBox{{ctr[0] - rad, ctr[1] - rad, ctr[2] - rad},
                                          {ctr[0] + rad, ctr[1] + rad, ctr[2] + rad}}
                                   : BBox{});
        LocalVolumeId hole_vol{size_type(b.u.volumes.size() - 1)};
        // daughter universe: unit or array whose content covers radius rad
        size_t slot = universes.size();
        universes.emplace_back(UnitInput{});  // reserve the id
        bool arr = c.boolean(0.3);
        log.mix(int(arr));
        DaughterInput di;
        di.universe_id = UniverseId{size_type(slot)};
        di.transform = gen_transform(c, log, ctr);
        std::vector<GeoSource::Anchor> child;
        int child_levels = 1;
        if (!arr)
        {
            double dw = rad * c.real_in(1.0, 1.6);  // boundary half-width >= rad
            universes[slot] = gen_unit(c,
                                       log,
                                       dw,
                                       false,
                                       depth - 1,
                                       universes,
                                       slot,
                                       label + ".d",
                                       rich,
                                       false,
                                       &child);
            child.push_back({{0, 0, 0}, rad * 0.5, -1});
        }
        else
        {
            // rectangular array covering [-rad, rad]^3 (and a bit more)
            log.label("array");
            RectArrayInput ra;
            ra.label = Label{label + ".arr"};
            int n[3];
            double ext = rad * c.real_in(1.0, 1.3);
            for (int ax = 0; ax < 3; ++ax)
            {
                n[ax] = int(c.int_in(1, 3));
                for (int i = 0; i <= n[ax]; ++i)
                    ra.grid[ax].push_back(-ext + 2 * ext * i / n[ax]);
            }
            // one or two cell universes, each a unit covering a cell
            double cw = ext;  // cell content half-width (>= half cell size)
            size_t cslot = universes.size();
            universes.emplace_back(UnitInput{});
            universes[cslot] = gen_unit(c,
                                        log,
                                        cw,
                                        false,
                                        0,
                                        universes,
                                        cslot,
                                        label + ".cell",
                                        rich,
                                        true,
                                        &child);
            child_levels = 2;
            {
                // map the cell's anchors into the array frame (first and last
                // cell)
                std::vector<GeoSource::Anchor> cells;
                for (int which = 0; which < 2; ++which)
                {
                    int i = which ? n[0] - 1 : 0, j = which ? n[1] - 1 : 0,
                        k = which ? n[2] - 1 : 0;
                    Real3 cc{(ra.grid[0][i] + ra.grid[0][i + 1]) / 2,
                             (ra.grid[1][j] + ra.grid[1][j + 1]) / 2,
                             (ra.grid[2][k] + ra.grid[2][k + 1]) / 2};
                    double hw = std::min({ra.grid[0][1] - ra.grid[0][0],
                                          ra.grid[1][1] - ra.grid[1][0],
                                          ra.grid[2][1] - ra.grid[2][0]})
                                / 2;
                    for (auto a : child)
                    {
                        // keep anchors inside the cell
                        bool in = true;
                        for (int q = 0; q < 3; ++q)
                            in = in
                                 && std::fabs(a.pos[q])
                                        < (ra.grid[q][1] - ra.grid[q][0]) / 2;
                        if (!in)
                            continue;
                        for (int q = 0; q < 3; ++q)
                            a.pos[q] += cc[q];
                        cells.push_back(a);
                    }
                    cells.push_back({{cc[0], cc[1], cc[2]}, hw * 0.5, -1});
                }
                child = std::move(cells);
            }
            for (int i = 0; i < n[0]; ++i)
                for (int j = 0; j < n[1]; ++j)
                    for (int k = 0; k < n[2]; ++k)
                    {
                        DaughterInput cd;
                        cd.universe_id = UniverseId{size_type(cslot)};
                        Real3 cc{(ra.grid[0][i] + ra.grid[0][i + 1]) / 2,
                                 (ra.grid[1][j] + ra.grid[1][j + 1]) / 2,
                                 (ra.grid[2][k] + ra.grid[2][k + 1]) / 2};
                        cd.transform = Translation{cc};
                        ra.daughters.push_back(cd);
                    }
            universes[slot] = std::move(ra);
        }
        if (anchors)
            for (auto a : child)
            {
                // daughter frame -> this frame; only points inside the hole
                double n2 = 0;
                for (int q = 0; q < 3; ++q)
                    n2 += a.pos[q] * a.pos[q];
                if (!(std::sqrt(n2) < 0.9 * rad))
                    continue;
                Real3 up = transform_up(
                    di.transform, Real3{a.pos[0], a.pos[1], a.pos[2]});
                a.radius = std::min(a.radius, 0.9 * rad - std::sqrt(n2));
                a.level = (a.level < 0 ? 0 : a.level) + child_levels;
                for (int q = 0; q < 3; ++q)
                    a.pos[q] = up[q];
                anchors->push_back(a);
            }
        b.u.daughter_map[hole_vol] = di;
        b.u.volumes[hole_vol.get()].flags |= VolumeRecord::embedded_universe;
        *rich = true;
        log.label("daughter");
    }
    // remaining space: background or explicit rest
    bool background = c.boolean(0.5);
    log.mix(int(background));
    if (background)
    {
        VolumeInput v;
        v.logic = {logic::ltrue, logic::lnot};
        v.flags = VolumeRecord::implicit_vol;
        v.zorder = ZOrder::background;
        v.label = Label{label + ".bg"};
        // background volume's faces are all surfaces of the unit
        for (size_type s = 0; s < b.u.surfaces.size(); ++s)
            v.faces.push_back(LocalSurfaceId{s});
        b.u.volumes.push_back(std::move(v));
        *rich = true;
        log.label("background");
    }
    else
    {
        std::vector<Conj> mustnot;
        for (auto const& r : regs)
            mustnot.push_back(r.conj);
        emit_volume(b.u,
                    {inside},
                    mustnot,
                    false,
                    label + ".rest",
                    ZOrder::media);
        *rich = true;
        log.label("explicit-rest");
    }
    for (size_type s = 0; s < b.u.surfaces.size(); ++s)
        b.u.surface_labels.push_back(Label{"s" + std::to_string(s)});
    (void)self_index;
    return std::move(b.u);
}

inline Built generate(Choices& c, CaseLog& log)
{
    Built out;
    out.half = c.log_uniform(1, 100);
    log.mix(out.half);
    out.input.tol = Tolerance<>::from_default(out.half);
    out.input.universes.emplace_back(UnitInput{});
    int depth = int(c.int_in(0, 2));
    log.mix(depth);
    UnitInput root = gen_unit(c,
                              log,
                              out.half,
                              true,
                              depth,
                              out.input.universes,
                              0,
                              "u0",
                              &out.rich,
                              false,
                              &out.anchors);
    out.input.universes[0] = std::move(root);
    return out;
}

}  // namespace rawgeo

//---------------------------------------------------------------------------//
inline Verdict choose_geometry(Choices& c, CaseLog& log, GeoSource& src)
{
    auto& bundled = bundled_fixtures();
#ifdef VERIF_HAVE_GEOGEN
    int kind = int(c.pick({3, 4, 3}));
#else
    int kind = int(c.pick({3, 4, 0}));
#endif
    log.mix(kind);
    if (kind == 0 && !bundled.empty())
    {
        size_t i = c.index(bundled.size());
        log.mix(i);
        src.fix = bundled[i].get();
        src.rich = true;
        log.label("geo-bundled");
        log.ds("geometry", src.fix->name);
        return Verdict::pass;
    }
    if (kind <= 1)
    {
        log.label("geo-raw");
        rawgeo::Built b = rawgeo::generate(c, log);
        try
        {
            src.owned = make_fixture("raw", std::move(b.input));
        }
        catch (celeritas::RuntimeError const& e)
        {
            log.ds("rejected", e.what());
            return Verdict::rejected;
        }
        src.fix = src.owned.get();
        src.rich = b.rich;
        src.anchors = std::move(b.anchors);
        if (log.want_desc)
        {
            std::ostringstream os;
            nlohmann::json j = src.fix->input;
            log.ds("geometry", "raw");
            log.d("universes", src.fix->input.universes.size());
            log.d("half_width", b.half);
        }
        return Verdict::pass;
    }
#ifdef VERIF_HAVE_GEOGEN
    {
        log.label("geo-api");
        geogen::Limits lim;  // defaults exclude the known-finding classes
        try
        {
            auto g = geogen::generate(c, log, lim);
            src.owned = make_fixture("api", geogen::build_input(g));
        }
        catch (geogen::Excluded const&)
        {
            log.label("geo-api-excluded-known");
            return Verdict::trivial;
        }
        catch (celeritas::DebugError const&)
        {
            // only in the (unregistered) CELERITAS_DEBUG=ON development build
            log.label("geo-api-debug-assert");
            return Verdict::trivial;
        }
        catch (celeritas::RuntimeError const& e)
        {
            return Verdict::rejected;
        }
        if (src.owned->model.duplicate_surfaces)
        {
            log.label("geo-api-duplicate-surfaces");
            return Verdict::trivial;
        }
        src.fix = src.owned.get();
        src.rich = true;
        log.ds("geometry", "api");
        return Verdict::pass;
    }
#endif
    return Verdict::trivial;
}

}  // namespace verif
