// Units, protos, generate(), build_input(), surface_points()
// (included by geogen_gen.hh; do not include directly).
#pragma once

namespace verif
{
namespace geogen
{
//---------------------------------------------------------------------------//
// Near-coincident clone of an earlier simple primitive: same kind and
// placement, one size parameter moved by k * tol (k in {0, +-1/2, +-2, +-10,
// +-1000}), or (boxes) an adjacent box sharing a face up to that offset.
inline bool plant_clone(Ctx& g, Made const& orig, Made& out)
{
    if (orig.kind < 0 || orig.kind == P_WEDGE || orig.kind == P_PARA)
        return false;
    if (orig.kind == P_ELL && !g.lim.allow_small_ellipsoid)
        return false;
    static double const ks[] = {0, 0.5, -0.5, 2, -2, 10, -10, 1000, -1000};
    double k = ks[g.i(0, 8)];
    std::vector<double> q = orig.par;
    Xf place = orig.place;
    // characteristic magnitude of the face position in the unit frame
    LD cn = orig.has_place
                ? sqrtl(place.t[0] * place.t[0] + place.t[1] * place.t[1]
                        + place.t[2] * place.t[2])
                : 0;
    int idx = 0;
    switch (orig.kind)
    {
        case P_BOX: idx = g.i(0, 2); break;
        case P_SPHERE: idx = 0; break;
        case P_CYL: idx = g.i(0, 1); break;
        case P_CONE: idx = 2; break;
        case P_ELL: idx = g.i(0, 2); break;
        case P_PRISM: idx = g.i(1, 2); break;
        default: return false;
    }
    LD tolf = std::max(LD(g.tol.abs), LD(g.tol.rel) * (cn + LD(q[idx])));
    double delta = double(k * tolf);
    g.desc << "plant[k=" << k << "]:";
    if (orig.kind == P_BOX && g.b(0.5))
    {
        // adjacent box along local axis idx
        double hnew = q[idx] * g.u(0.3, 1.0);
        double shift = q[idx] + hnew + delta;
        if (g.b(0.5))
            shift = -shift;
        std::vector<double> q2 = q;
        q2[idx] = hnew;
        for (int a = 0; a < 3; ++a)
            if (a != idx && g.b(0.5))
                q2[a] = q[a] * g.u(0.5, 1.5);
        Made p = prim_from(g, P_BOX, q2);
        Xf x = place;
        // translate along the (rotated) local axis
        for (int i = 0; i < 3; ++i)
            x.t[i] = LD(double(place.t[i] + place.R[i][idx] * LD(shift)));
        out = xformed(g, p, x);
    }
    else
    {
        if (!(q[idx] + delta > 0))
            return false;
        q[idx] += delta;
        Made p = prim_from(g, orig.kind, q);
        out = orig.has_place ? xformed(g, p, place) : p;
        if (orig.kind == P_CYL && idx == 0 && std::fabs(k) >= 2
            && orig.has_place && place.rot)
        {
            bool general = false;
            for (int i = 0; i < 3; ++i)
                for (int j = 0; j < 3; ++j)
                    general = general
                              || (place.R[i][j] != 0 && fabsl(place.R[i][j]) != 1);
            LD r = orig.par[0];
            LD thr = std::max(LD(g.tol.abs), LD(g.tol.rel) * (cn * cn + r * r));
            if (general && 2 * r * fabsl(LD(delta)) < 1.5L * thr)
            {
                if (!g.lim.allow_merged_quadric_clone)
                    return false;
                out.known |= KF13;
                ++g.feat.n_merged_gq;
            }
        }
        if (orig.kind == P_ELL && std::fabs(k) >= 2)
        {
            // F11 (third form): the soft surface comparison is applied to
            // the un-normalised quadric coefficients with an ABSOLUTE
            // threshold, so two ellipsoids whose faces are >= 2 tol apart
            // may still be merged
            auto coef = [](std::vector<double> const& r, LD* c) {
                c[0] = LD(r[1]) * r[1] * r[2] * r[2];
                c[1] = LD(r[0]) * r[0] * r[2] * r[2];
                c[2] = LD(r[0]) * r[0] * r[1] * r[1];
                c[3] = LD(r[0]) * r[0] * r[1] * r[1] * r[2] * r[2];
            };
            LD a[4], b[4];
            coef(orig.par, a);
            coef(q, b);
            LD d2 = 0, n2 = 0;
            for (int i = 0; i < 3; ++i)
            {
                d2 += (a[i] - b[i]) * (a[i] - b[i]);
                n2 = std::max(n2, a[i] * a[i] + 0);
            }
            LD thr = LD(g.tol.abs) * std::max(1.0L, sqrtl(3 * n2));
            LD thr0 = std::max(LD(g.tol.abs), LD(g.tol.rel) * a[3]);
            if (sqrtl(d2) < 1.5L * thr && fabsl(a[3] - b[3]) < 1.5L * thr0)
            {
                out.known |= KF11;
                ++g.feat.n_small_ell;
            }
        }
    }
    out.kind = -1;  // never clone a clone (no de-duplication chains)
    ++g.feat.n_planted;
    return true;
}

//---------------------------------------------------------------------------//
inline std::shared_ptr<UnitG const>
gen_unit(Ctx& g, int depth_left, LD rball, bool is_global, int level)
{
    auto u = std::make_shared<UnitG>();
    u->label = g.lab("u");
    ++g.feat.n_units;
    g.feat.depth = std::max(g.feat.depth, level);
    LD Rc = rball;
    g.desc << "\nunit " << u->label << " Rc=" << double(Rc) << " {";

    //// DAUGHTERS (pairwise disjoint: one octant slot each) ////
    int nd = 0;
    if (depth_left > 0 && g.lim.max_daughters > 0)
        nd = int(g.pick({is_global ? 2.0 : 5.0, 5, 3, 1, 1}));
    nd = std::min({nd, g.lim.max_daughters, 8});
    std::vector<Made> dint;  // daughter interiors in this unit's frame
    int used_oct = 0;
    for (int d = 0; d < nd; ++d)
    {
        int oct = g.i(0, 7);
        while (used_oct & (1 << oct))
            oct = (oct + 1) % 8;
        used_oct |= 1 << oct;
        Placement pl;
        LD rd;
        bool reuse = !u->daughters.empty() && g.b(0.2);
        g.desc << "\n daughter slot " << oct << ": ";
        if (reuse)
        {
            pl.unit = u->daughters[g.i(0, int(u->daughters.size()) - 1)].unit;
            ++g.feat.n_reuse;
            g.desc << "reuse " << pl.unit->label << " ";
        }
        else
        {
            rd = Rc * LD(g.u(0.2, 0.36));
            pl.unit = gen_unit(g, depth_left - 1, rd, false, level + 1);
            g.desc << "\n placed ";
        }
        rd = norm(pl.unit->bc) + pl.unit->br;
        LD slack = 0.4L * Rc - rd - 0.01L * Rc;
        if (slack < 0)
            slack = 0;
        for (int i = 0; i < 3; ++i)
        {
            LD ctr = ((oct >> i) & 1 ? 0.4L : -0.4L) * Rc;
            pl.x.t[i] = LD(double(ctr + slack * LD(g.u(-1, 1))));
        }
        int before = g.feat.n_rot;
        gen_rotation(g, pl.x);
        if (g.feat.n_rot > before)
            ++g.feat.n_daughter_rot;
        ++g.feat.n_daughters;
        describe(g, pl.x);
        // the interior of the daughter in this unit's frame
        Made in;
        in.orc = mk_xf(pl.x, pl.unit->boundary);
        in.bounded = true;
        in.c = up(pl.x, pl.unit->bc);
        in.r = pl.unit->br;
        in.known = pl.unit->boundary_known;
        {
            // ellipsoids of the daughter's boundary seen from this frame
            Made tmp;
            tmp.ells = pl.unit->boundary_ells;
            for (auto& e : tmp.ells)
            {
                LD r[3][3];
                for (int i = 0; i < 3; ++i)
                    for (int j = 0; j < 3; ++j)
                        r[i][j] = pl.x.R[i][0] * e.R[0][j]
                                  + pl.x.R[i][1] * e.R[1][j]
                                  + pl.x.R[i][2] * e.R[2][j];
                for (int i = 0; i < 3; ++i)
                    for (int j = 0; j < 3; ++j)
                        e.R[i][j] = r[i][j];
            }
            if (ell_cross_terms_dropped(g, tmp.ells))
            {
                if (!g.lim.allow_small_ellipsoid)
                    throw Excluded("F11 class: ellipsoid cross terms");
                in.known |= KF11;
            }
        }
        u->daughters.push_back(pl);
        dint.push_back(in);
    }

    //// CUTTING OBJECTS ////
    int nm = g.i(is_global || nd ? 0 : 1, std::max(1, g.lim.max_regions));
    nm = std::min(nm, g.lim.max_regions);
    std::vector<Made> cut;
    for (int m = 0; m < nm; ++m)
    {
        g.desc << "\n S" << m << ": ";
        Made obj;
        bool planted = false;
        if (g.lim.allow_near_coincident && !cut.empty() && g.b(0.2))
        {
            Made const& orig = cut[g.i(0, int(cut.size()) - 1)];
            planted = plant_clone(g, orig, obj);
        }
        if (!planted)
        {
            LD s = Rc * LD(g.u(0.15, 0.6));
            int cd = g.lim.max_csg_depth > 0 ? g.i(0, g.lim.max_csg_depth) : 0;
            obj = gen_obj(g, cd, s);
            obj = ensure_bounded(g, obj, s);
            if (g.b(0.85))
            {
                Xf x;
                for (int i = 0; i < 3; ++i)
                    x.t[i] = LD(double(Rc) * g.u(-0.6, 0.6));
                if (g.b(0.5))
                    gen_rotation(g, x);
                g.desc << " @";
                if (dynamic_cast<oi::Transformed const*>(obj.api.get()))
                    ++g.feat.n_compose;
                obj = xformed(g, obj, x);
            }
        }
        if (ell_cross_terms_dropped(g, obj.ells))
        {
            if (!g.lim.allow_small_ellipsoid)
                throw Excluded("F11 class: ellipsoid cross terms");
            obj.known |= KF11;
            ++g.feat.n_small_ell;
        }
        cut.push_back(obj);
        ++g.feat.n_regions;
    }

    //// BOUNDARY ////
    LD reach = 0;
    for (auto const& m : dint)
        reach = std::max(reach, norm(m.c) + m.r);
    for (auto const& m : cut)
        reach = std::max(reach, norm(m.c) + m.r);
    Made bnd;
    g.desc << "\n boundary: ";
    if (is_global)
    {
        // big box / sphere / cylinder containing everything with 10% head room
        reach = std::max(reach, Rc);
        Xf x;
        bool shifted = g.b(0.25);
        LD tn = 0;
        if (shifted)
        {
            for (int i = 0; i < 3; ++i)
                x.t[i] = LD(double(reach) * g.u(-0.2, 0.2));
            tn = sqrtl(x.t[0] * x.t[0] + x.t[1] * x.t[1] + x.t[2] * x.t[2]);
        }
        double need = double((reach + tn) * 1.1L);
        int kind = int(g.pick({6, 3, 1}));
        std::vector<double> q;
        if (kind == P_BOX)
            q = {need * g.u(1, 1.5), need * g.u(1, 1.5), need * g.u(1, 1.5)};
        else if (kind == P_SPHERE)
            q = {need * g.u(1, 1.5)};
        else
            q = {need * g.u(1, 1.5), need * g.u(1, 1.5)};
        bnd = prim_from(g, kind, q);
        if (shifted)
            bnd = xformed(g, bnd, x);
    }
    else
    {
        bool moved = g.b(0.3);
        LD s = moved ? 0.75L * rball : rball;
        bnd = gen_boundary_prim(g, s);
        if (moved)
        {
            Xf x;
            if (g.b(0.6))
                for (int i = 0; i < 3; ++i)
                    x.t[i] = LD(double(rball) * g.u(-0.12, 0.12));
            gen_rotation(g, x);
            bnd = xformed(g, bnd, x);
        }
    }
    u->boundary = bnd.orc;
    u->bc = bnd.c;
    u->br = bnd.r;
    u->boundary_known = bnd.known;
    u->boundary_has_ell = bnd.has_ell;
    u->boundary_ells = bnd.ells;
    if (ell_cross_terms_dropped(g, bnd.ells))
    {
        if (!g.lim.allow_small_ellipsoid)
            throw Excluded("F11 class: ellipsoid cross terms");
        u->boundary_known |= KF11;
    }
    u->any_known = u->boundary_known;
    u->extent = std::max({reach, norm(bnd.c) + bnd.r, Rc});

    //// VOLUMES: first-match partition ////
    int mode = int(g.pick({4, 3, 3}));
    // 0: zorder media, materials include the boundary, explicit last material
    // 1: zorder media, background fill
    // 2: zorder exterior (implicit), background fill
    bool with_b = (mode == 0) || (mode == 1 && g.b(0.5));
    u->explicit_boundary = with_b;
    u->rest_is_background = (mode != 0);
    if (with_b)
        ++g.feat.n_explicit;
    if (mode != 0)
        ++g.feat.n_background;
    g.desc << "\n mode=" << mode << (with_b ? " +B" : "");

    oi::UnitProto::Input inp;
    inp.label = u->label;
    inp.boundary.interior = bnd.api;
    inp.boundary.zorder = (mode == 2) ? celeritas::ZOrder::exterior
                                      : celeritas::ZOrder::media;
    std::vector<Made> prev;  // objects claimed so far (with API objects)
    for (size_t d = 0; d < u->daughters.size(); ++d)
    {
        oi::UnitProto::DaughterInput di;
        di.fill = u->daughters[d].unit->proto;
        di.transform = to_api(u->daughters[d].x);
        dint[d].api = di.make_interior();
        inp.daughters.push_back(di);
        Entry e;
        e.orc = dint[d].orc;
        e.daughter = int(d);
        e.known = dint[d].known;
        e.c = dint[d].c;
        e.r = dint[d].r;
        u->entries.push_back(e);
        u->any_known |= dint[d].known;
        prev.push_back(dint[d]);
    }
    bool subtract_all = g.b(0.3);
    int matid = 1;
    for (size_t m = 0; m < cut.size(); ++m)
    {
        Made const& s = cut[m];
        std::vector<Made const*> sub;
        for (auto const& p : prev)
        {
            P3 d{p.c.x - s.c.x, p.c.y - s.c.y, p.c.z - s.c.z};
            LD tl = std::max(LD(g.tol.abs), LD(g.tol.rel) * u->extent);
            bool disjoint = norm(d) > (p.r + s.r) * 1.001L + 8 * tl;
            if (subtract_all || !disjoint)
                sub.push_back(&p);
        }
        std::string vl = "v" + std::to_string(m);
        SPO interior;
        int form = int(g.pick({1, 1, 1}));
        if (sub.empty() && !with_b)
            interior = s.api;
        else if (form == 0)
        {
            oi::VecSenseObj rdv;
            if (with_b)
                rdv.push_back({celeritas::Sense::inside, bnd.api});
            rdv.push_back({celeritas::Sense::inside, s.api});
            for (auto const* p : sub)
                rdv.push_back({celeritas::Sense::outside, p->api});
            interior = oi::make_rdv(g.lab("rdv"), std::move(rdv));
        }
        else if (form == 1 && !sub.empty())
        {
            std::vector<SPO> ps;
            for (auto const* p : sub)
                ps.push_back(p->api);
            SPO minuend = s.api;
            if (with_b)
                minuend = std::make_shared<oi::AllObjects>(
                    g.lab("inb"), std::vector<SPO>{bnd.api, s.api});
            interior = oi::make_subtraction(
                g.lab("sub"), minuend,
                oi::AnyObjects::or_object(g.lab("prev"), std::move(ps)));
            ++g.feat.n_sub;
        }
        else
        {
            std::vector<SPO> ps;
            if (with_b)
                ps.push_back(bnd.api);
            ps.push_back(s.api);
            for (auto const* p : sub)
                ps.push_back(std::make_shared<oi::NegatedObject>(g.lab("not"),
                                                                 p->api));
            interior = oi::AllObjects::or_object(g.lab("vol"), std::move(ps));
        }
        oi::UnitProto::MaterialInput mi;
        mi.interior = interior;
        mi.fill = celeritas::GeoMaterialId(matid++);
        mi.label = celeritas::Label{vl, u->label};
        inp.materials.push_back(mi);
        Entry e;
        e.orc = s.orc;
        e.label = vl;
        e.known = s.known;
        e.c = s.c;
        e.r = s.r;
        u->entries.push_back(e);
        u->any_known |= s.known;
        prev.push_back(s);
    }
    u->rest_label = "rest";
    if (mode == 0)
    {
        std::vector<SPO> ps{bnd.api};
        for (auto const& p : prev)
            ps.push_back(std::make_shared<oi::NegatedObject>(g.lab("not"), p.api));
        oi::UnitProto::MaterialInput mi;
        mi.interior = oi::AllObjects::or_object(g.lab("restv"), std::move(ps));
        mi.fill = celeritas::GeoMaterialId(matid++);
        mi.label = celeritas::Label{u->rest_label, u->label};
        inp.materials.push_back(mi);
    }
    else
    {
        inp.background.fill = celeritas::GeoMaterialId(0);
        inp.background.label = celeritas::Label{u->rest_label, u->label};
    }
    g.desc << " }";
    u->proto = std::make_shared<oi::UnitProto>(std::move(inp));
    return u;
}

//---------------------------------------------------------------------------//
inline GenGeo generate(Choices& c, CaseLog& log, Limits const& lim)
{
    Ctx g{c, log, lim, celeritas::Tolerance<>::from_default(), {}, {}, 0};
    double Rc = g.logu(0.5, 1000.0);
    // tolerance
    int tk = lim.allow_nondefault_tol ? int(g.pick({11, 3, 6})) : 0;
    if (tk == 1)
    {
        double L = g.b(0.5) ? 0.1 : 10.0;
        g.tol = celeritas::Tolerance<>::from_default(L);
    }
    else if (tk == 2)
    {
        double rel = g.logu(1e-9, 1e-5);
        static double const Ls[] = {1, 0.1, 10, 100};
        double L = Ls[g.i(0, 3)];
        if (rel * L > 2e-5 * Rc)
            L = Rc;
        g.tol = celeritas::Tolerance<>::from_relative(rel, L);
    }
    g.feat.nondefault_tol = (tk != 0);
    g.desc.precision(17);
    g.desc << "tol{rel=" << g.tol.rel << ",abs=" << g.tol.abs << "}";
    int depth = lim.max_depth > 0 ? int(g.pick({3, 5, 3})) : 0;
    depth = std::min(depth, lim.max_depth);
    GenGeo out;
    out.global = gen_unit(g, depth, LD(Rc), true, 0);
    out.tol = g.tol;
    out.desc = g.desc.str();
    out.feat = g.feat;
    out.halfwidth
        = double((norm(out.global->bc) + out.global->br) * 1.05L);
    out.any_f10 = g.feat.n_skew > 0;
    return out;
}

inline celeritas::OrangeInput build_input(GenGeo const& g)
{
    oi::InputBuilder::Options o;
    o.tol = g.tol;
    return oi::InputBuilder{std::move(o)}(*g.global->proto);
}

//---------------------------------------------------------------------------//
// Points on faces of the generated objects (global frame) with the outward
// normal and the local tolerance: bisection of the analytic margin between an
// inside and an outside point of each object, then a numerical gradient.
struct SurfPoint
{
    P3 p;  // global coordinates
    P3 n;  // unit normal, global frame (direction of decreasing margin)
    LD tol;  // tolerance of the unit frame the face lives in
};

inline void surface_points_unit(GenGeo const& g, UnitG const& u, Xf const* chain,
                                int nchain, Prng& rng, int per_object,
                                std::vector<SurfPoint>& out, int budget,
                                LD floor = 0)
{
    floor = std::max(floor, std::max(LD(g.tol.abs), LD(g.tol.rel) * u.extent));
    auto to_global = [&](P3 p, bool dir) {
        for (int i = nchain - 1; i >= 0; --i)
            p = dir ? rot_up(chain[i], p) : up(chain[i], p);
        return p;
    };
    auto do_object = [&](ONode const& o, P3 const& c, LD r) {
        for (int k = 0; k < per_object && int(out.size()) < budget; ++k)
        {
            // find an inside and an outside point in the ball
            P3 a{}, b{};
            bool ha = false, hb = false;
            for (int t = 0; t < 12 && !(ha && hb); ++t)
            {
                LD rr = r * 1.15L;
                P3 q{c.x + rr * LD(rng.u(-1, 1)), c.y + rr * LD(rng.u(-1, 1)),
                     c.z + rr * LD(rng.u(-1, 1))};
                LD m = margin(o, q);
                if (m > 0 && !ha)
                {
                    a = q;
                    ha = true;
                }
                else if (m < 0 && !hb)
                {
                    b = q;
                    hb = true;
                }
            }
            if (!(ha && hb))
                return;
            for (int it = 0; it < 70; ++it)
            {
                P3 mid{(a.x + b.x) / 2, (a.y + b.y) / 2, (a.z + b.z) / 2};
                (margin(o, mid) > 0 ? a : b) = mid;
            }
            LD h = r * 1e-5L;
            P3 gr{margin(o, {a.x + h, a.y, a.z}) - margin(o, {a.x - h, a.y, a.z}),
                  margin(o, {a.x, a.y + h, a.z}) - margin(o, {a.x, a.y - h, a.z}),
                  margin(o, {a.x, a.y, a.z + h}) - margin(o, {a.x, a.y, a.z - h})};
            LD gn = norm(gr);
            if (!(gn > 0))
                continue;
            SurfPoint sp;
            sp.p = to_global(a, false);
            sp.n = to_global(P3{-gr.x / gn, -gr.y / gn, -gr.z / gn}, true);
            sp.tol = std::max(unit_tol(g, u, a), floor);
            out.push_back(sp);
        }
    };
    do_object(*u.boundary, u.bc, u.br);
    for (auto const& e : u.entries)
        do_object(*e.orc, e.c, e.r);
    for (auto const& pl : u.daughters)
    {
        if (nchain >= 8)
            break;
        Xf sub[9];
        for (int i = 0; i < nchain; ++i)
            sub[i] = chain[i];
        sub[nchain] = pl.x;
        surface_points_unit(g, *pl.unit, sub, nchain + 1, rng, per_object, out,
                            budget, floor);
    }
}

inline std::vector<SurfPoint>
surface_points(GenGeo const& g, Prng& rng, int per_object, int budget = 400)
{
    std::vector<SurfPoint> out;
    surface_points_unit(g, *g.global, nullptr, 0, rng, per_object, out, budget);
    return out;
}

// Uniform points inside every placed daughter's bounding ball (global frame)
inline void daughter_points_unit(UnitG const& u, Xf const* chain, int nchain,
                                 Prng& rng, int per_daughter,
                                 std::vector<P3>& out)
{
    for (auto const& pl : u.daughters)
    {
        if (nchain >= 8)
            break;
        Xf sub[9];
        for (int i = 0; i < nchain; ++i)
            sub[i] = chain[i];
        sub[nchain] = pl.x;
        for (int k = 0; k < per_daughter; ++k)
        {
            LD r = pl.unit->br;
            P3 q{pl.unit->bc.x + r * LD(rng.u(-1, 1)),
                 pl.unit->bc.y + r * LD(rng.u(-1, 1)),
                 pl.unit->bc.z + r * LD(rng.u(-1, 1))};
            for (int i = nchain; i >= 0; --i)
                q = up(sub[i], q);
            out.push_back(q);
        }
        daughter_points_unit(*pl.unit, sub, nchain + 1, rng, per_daughter, out);
    }
}

inline std::vector<P3>
daughter_points(GenGeo const& g, Prng& rng, int per_daughter)
{
    std::vector<P3> out;
    daughter_points_unit(*g.global, nullptr, 0, rng, per_daughter, out);
    return out;
}

}  // namespace geogen
}  // namespace verif
