// O-STATS: exact CDFs / PMFs in long double and goodness-of-fit tests whose
// p-values are either exact or rigorous upper bounds (so that a per-test
// level of 1e-9 really is a false-alarm bound), shared by the C15 harnesses.
//
//  * norm_cdf, gamma_p/gamma_q (regularised incomplete gamma, series +
//    continued fraction, Numerical-Recipes style but in long double with an
//    iteration cap that scales with sqrt(a)), poisson_pmf/poisson_cdf,
//    chi2_sf.
//  * UBins: probability-integral-transform accumulator.  Under H0 the values
//    U = F(X) are iid uniform(0,1); we keep 1024 equal bins of U and derive
//      - a binned Kolmogorov distance (a LOWER bound of the true KS distance)
//        with the Dvoretzky-Kiefer-Wolfowitz-Massart bound
//        P(D >= d) <= 2 exp(-2 n d^2)           (rigorous for every n),
//      - the mean of U with the sub-Gaussian bound for uniforms
//        P(|mean - 1/2| >= t) <= 2 exp(-6 n t^2) (rigorous),
//      - a Pearson chi-square on 32 equiprobable bins (asymptotic p-value,
//        used with a stricter level) and the largest single-bin deviation
//        with the Chernoff/KL bound + Bonferroni (rigorous).
//  * Discrete: the same three tests for an integer-valued sample against an
//    explicit PMF (DKW holds for any distribution; pooled chi-square with
//    expected >= 20 per pooled bin; per-bin Chernoff bound).
//  * bernstein_halfwidth: two-sided Bernstein bound for a mean of n
//    independent terms with variance <= v and |X - EX| (or compound-Poisson
//    jump size) <= b.
#pragma once

#include <algorithm>
#include <cmath>
#include <cstdio>
#include <string>
#include <vector>

namespace verif
{
namespace stats
{
using ld = long double;

inline ld norm_cdf(ld z)
{
    return 0.5L * erfcl(-z * 0.70710678118654752440L);
}

namespace detail
{
// log of x^a e^-x / Gamma(a)
inline ld log_prefactor(ld a, ld x)
{
    return a * logl(x) - x - lgammal(a);
}
inline ld gser(ld a, ld x)
{
    // P(a,x) by series; converges fast for x < a + 1
    if (x <= 0)
        return 0;
    ld ap = a, sum = 1 / a, del = sum;
    long itmax = 1000 + long(40 * sqrtl(a));
    for (long n = 0; n < itmax; ++n)
    {
        ap += 1;
        del *= x / ap;
        sum += del;
        if (fabsl(del) < fabsl(sum) * 1e-19L)
            break;
    }
    return sum * expl(log_prefactor(a, x));
}
inline ld gcf(ld a, ld x)
{
    // Q(a,x) by modified Lentz continued fraction; for x >= a + 1
    ld const fpmin = 1e-4000L;
    ld b = x + 1 - a, c = 1 / fpmin, d = 1 / b, h = d;
    long itmax = 1000 + long(40 * sqrtl(a));
    for (long i = 1; i <= itmax; ++i)
    {
        ld an = -i * (i - a);
        b += 2;
        d = an * d + b;
        if (fabsl(d) < fpmin)
            d = fpmin;
        c = b + an / c;
        if (fabsl(c) < fpmin)
            c = fpmin;
        d = 1 / d;
        ld del = d * c;
        h *= del;
        if (fabsl(del - 1) < 1e-19L)
            break;
    }
    return expl(log_prefactor(a, x)) * h;
}
}  // namespace detail

// Regularised lower / upper incomplete gamma function
inline ld gamma_p(ld a, ld x)
{
    if (!(x > 0))
        return 0;
    if (std::isinf((double)x))
        return 1;
    if (x < a + 1)
        return std::min<ld>(1, detail::gser(a, x));
    return std::max<ld>(0, 1 - detail::gcf(a, x));
}
inline ld gamma_q(ld a, ld x)
{
    if (!(x > 0))
        return 1;
    if (std::isinf((double)x))
        return 0;
    if (x < a + 1)
        return std::max<ld>(0, 1 - detail::gser(a, x));
    return std::min<ld>(1, detail::gcf(a, x));
}
// two-sided exact p-value of a Gamma(shape a, scale 1) observation
// (values below `floor` are indistinguishable for the sampler, e.g. because
// they underflow: the lower tail is evaluated at max(x, floor))
inline ld gamma_two_sided(ld a, ld x, ld floor = 0)
{
    return std::min<ld>(
        1, 2 * std::min(gamma_p(a, std::max(x, floor)), gamma_q(a, x)));
}
inline ld chi2_sf(ld x, ld df)
{
    return gamma_q(df / 2, x / 2);
}
inline ld poisson_pmf(long k, ld lambda)
{
    if (k < 0)
        return 0;
    return expl(k * logl(lambda) - lambda - lgammal(ld(k) + 1));
}
// P(K <= k)
inline ld poisson_cdf(long k, ld lambda)
{
    if (k < 0)
        return 0;
    return gamma_q(ld(k) + 1, lambda);
}
// two-sided exact p-value of a Poisson(lambda) observation s
inline ld poisson_two_sided(ld s, ld lambda)
{
    ld lo = gamma_q(s + 1, lambda);  // P(S <= s)
    ld hi = s > 0 ? gamma_p(s, lambda) : 1;  // P(S >= s)
    return std::min<ld>(1, 2 * std::min(lo, hi));
}
inline ld norm_two_sided(ld z)
{
    return std::min<ld>(1, 2 * norm_cdf(-fabsl(z)));
}

// Rigorous bound on P(D_n >= d) (Massart 1990)
inline double dkw_bound(double d, double n)
{
    return std::min(1.0, 2 * std::exp(-2 * n * d * d));
}

// KL(q || p) for Bernoulli parameters
inline double kl_bern(double q, double p)
{
    double r = 0;
    if (q > 0)
        r += q * std::log(q / p);
    if (q < 1)
        r += (1 - q) * std::log((1 - q) / (1 - p));
    return r;
}
// Rigorous one-sided tail bound for Binomial(n,p) observed k (Chernoff)
inline double binom_tail_bound(double k, double n, double p)
{
    if (p <= 0)
        return k > 0 ? 0.0 : 1.0;
    if (p >= 1)
        return k < n ? 0.0 : 1.0;
    double q = k / n;
    return std::min(1.0, std::exp(-n * kl_bern(q, p)));
}

struct GofResult
{
    double n = 0;
    double ks_d = 0, ks_p = 1;  // DKW bound
    double umean_p = 1;  // mean-of-U bound (continuous only)
    double chi2 = 0, chi2_df = 0, chi2_p = 1;  // asymptotic
    double bin_p = 1;  // Bonferroni-corrected largest bin deviation (rigorous)
    int worst_bin = -1;

    // smallest of the rigorous bounds
    double rigorous_p() const
    {
        return std::min(ks_p, std::min(umean_p, bin_p));
    }
    std::string str() const
    {
        char b[256];
        std::snprintf(b,
                      sizeof b,
                      "n=%g KS D=%.4g (p<=%.3g) U-mean p<=%.3g chi2=%.1f/%g "
                      "(p~%.3g) worst-bin#%d p<=%.3g",
                      n,
                      ks_d,
                      ks_p,
                      umean_p,
                      chi2,
                      chi2_df,
                      chi2_p,
                      worst_bin,
                      bin_p);
        return b;
    }
    // levels: rigorous bounds against alpha, asymptotic chi2 against
    // alpha_chi2 (stricter because the chi-square tail approximation is
    // anti-conservative far out)
    bool reject(double alpha, double alpha_chi2) const
    {
        return rigorous_p() < alpha || chi2_p < alpha_chi2;
    }
};

// Generic pooled chi-square + per-bin Chernoff on (prob, count) cells that
// are pooled in the given order until the expected count is >= min_expect.
inline void pooled_cells(std::vector<ld> const& prob,
                         std::vector<double> const& cnt,
                         double n,
                         double min_expect,
                         GofResult& r)
{
    std::vector<ld> pp;
    std::vector<double> cc;
    ld ap = 0;
    double ac = 0;
    for (size_t i = 0; i < prob.size(); ++i)
    {
        ap += prob[i];
        ac += cnt[i];
        if (ap * n >= min_expect)
        {
            pp.push_back(ap);
            cc.push_back(ac);
            ap = 0;
            ac = 0;
        }
    }
    if (ap > 0 || ac > 0)
    {
        if (pp.empty())
        {
            pp.push_back(ap);
            cc.push_back(ac);
        }
        else
        {
            pp.back() += ap;
            cc.back() += ac;
        }
    }
    size_t nb = pp.size();
    r.chi2 = 0;
    r.chi2_df = nb > 0 ? double(nb - 1) : 0;
    r.bin_p = 1;
    r.worst_bin = -1;
    if (nb < 2)
    {
        r.chi2_p = 1;
        return;
    }
    for (size_t i = 0; i < nb; ++i)
    {
        double e = double(pp[i] * n);
        if (e > 0)
            r.chi2 += (cc[i] - e) * (cc[i] - e) / e;
        else if (cc[i] > 0)
            r.chi2 += 1e300;
        double b = binom_tail_bound(cc[i], n, double(pp[i]));
        double corrected = std::min(1.0, b * 2 * double(nb));
        if (corrected < r.bin_p)
        {
            r.bin_p = corrected;
            r.worst_bin = int(i);
        }
    }
    r.chi2_p = double(chi2_sf(r.chi2, r.chi2_df));
}

// Probability-integral-transform accumulator for a continuous law
class UBins
{
  public:
    static constexpr int kFine = 1024;
    static constexpr int kCoarse = 32;

    UBins() : c_(kFine, 0.0) {}

    void add(ld u)
    {
        if (!(u >= 0))
            u = 0;
        if (u > 1)
            u = 1;
        int b = int(u * kFine);
        if (b >= kFine)
            b = kFine - 1;
        c_[b] += 1;
        sum_ += double(u);
        n_ += 1;
    }
    double n() const { return n_; }

    // umin: values of U below umin are left-censored (the sampler cannot
    // represent them, e.g. underflow); edges below umin are not compared and
    // the U-mean test is skipped if umin > 0.
    GofResult test(double umin = 0) const
    {
        GofResult r;
        r.n = n_;
        if (n_ < 1)
            return r;
        double acc = 0, d = 0;
        for (int j = 0; j < kFine - 1; ++j)
        {
            acc += c_[j];
            double edge = double(j + 1) / kFine;
            if (edge < umin)
                continue;
            d = std::max(d, std::fabs(acc / n_ - edge));
        }
        r.ks_d = d;
        r.ks_p = dkw_bound(d, n_);
        if (umin <= 0)
        {
            double t = std::fabs(sum_ / n_ - 0.5);
            r.umean_p = std::min(1.0, 2 * std::exp(-6 * n_ * t * t));
        }
        // coarse cells; those wholly or partly below umin are merged first
        int per = kFine / kCoarse;
        int first = umin > 0 ? int(std::ceil(umin * kCoarse)) : 0;
        if (first >= kCoarse)
            first = kCoarse - 1;
        std::vector<ld> p;
        std::vector<double> c;
        ld p0 = 0;
        double c0 = 0;
        for (int k = 0; k < kCoarse; ++k)
        {
            double ck = 0;
            for (int j = 0; j < per; ++j)
                ck += c_[k * per + j];
            if (k <= first && umin > 0)
            {
                p0 += 1.0L / kCoarse;
                c0 += ck;
                if (k == first)
                {
                    p.push_back(p0);
                    c.push_back(c0);
                }
            }
            else
            {
                p.push_back(1.0L / kCoarse);
                c.push_back(ck);
            }
        }
        pooled_cells(p, c, n_, 20, r);
        return r;
    }

  private:
    std::vector<double> c_;
    double sum_ = 0;
    double n_ = 0;
};

// Discrete sample on cells 0..m-1 with explicit probabilities (ordered =>
// DKW on the cumulative sums is meaningful; for unordered categories it is
// still a valid test of the same null hypothesis).
inline GofResult test_discrete(std::vector<ld> const& prob,
                               std::vector<double> const& cnt,
                               bool pool_rare_together = false)
{
    GofResult r;
    double n = 0;
    for (double c : cnt)
        n += c;
    r.n = n;
    if (n < 1)
        return r;
    ld F = 0;
    double Fn = 0, d = 0;
    for (size_t i = 0; i + 1 < prob.size(); ++i)
    {
        F += prob[i];
        Fn += cnt[i];
        d = std::max(d, std::fabs(Fn / n - double(F)));
    }
    r.ks_d = d;
    r.ks_p = dkw_bound(d, n);
    if (!pool_rare_together)
    {
        pooled_cells(prob, cnt, n, 20, r);
    }
    else
    {
        // categories: keep cells with expected >= 20, lump the rest
        std::vector<ld> p;
        std::vector<double> c;
        ld pr = 0;
        double cr = 0;
        for (size_t i = 0; i < prob.size(); ++i)
        {
            if (prob[i] * n >= 20)
            {
                p.push_back(prob[i]);
                c.push_back(cnt[i]);
            }
            else
            {
                pr += prob[i];
                cr += cnt[i];
            }
        }
        if (pr > 0 || cr > 0)
        {
            // a lumped cell with tiny expectation is fine for the Chernoff
            // bound; pooled_cells merges it into its neighbour if < 20
            p.push_back(pr);
            c.push_back(cr);
        }
        pooled_cells(p, c, n, 20, r);
    }
    return r;
}

// Half-width t such that P(|mean - mu| >= t) <= alpha for n independent
// terms with per-term variance <= v and deviations / jump sizes <= b
inline double bernstein_halfwidth(double v, double b, double n, double alpha)
{
    double L = std::log(2 / alpha);
    return std::sqrt(2 * v * L / n) + b * L / (3 * n);
}

}  // namespace stats
}  // namespace verif

//---------------------------------------------------------------------------//
// Counting / adversarial engine shared by the C15 harnesses.  Opt-in because
// it needs the celeritas headers:  #define VERIF_STATS_WITH_ENGINE before
// including this file.
//
// AdvEngine wraps a real XorwowRngEngine (seed / subsequence from the choice
// sequence).  generate_canonical is specialised for it exactly like the
// XorwowRngEngine specialisation (detail::GenerateCanonical32), but counts
// canonical draws and replaces the draws at planned indices by planned
// values (which are all of the form k * 2^-53, i.e. values the production
// generator can return).  The underlying stream is always advanced, so the
// rest of the stream is unchanged.
//---------------------------------------------------------------------------//
#ifdef VERIF_STATS_WITH_ENGINE
#    include <cstdint>
#    include <memory>

#    include "corecel/OpaqueId.hh"
#    include "corecel/Types.hh"
#    include "corecel/data/CollectionStateStore.hh"
#    include "celeritas/Types.hh"
#    include "celeritas/random/XorwowRngData.hh"
#    include "celeritas/random/XorwowRngEngine.hh"
#    include "celeritas/random/XorwowRngParams.hh"
#    include "celeritas/random/detail/GenerateCanonical32.hh"
#    include "celeritas/random/distribution/GenerateCanonical.hh"

namespace verif
{
namespace c15
{
struct Stream
{
    uint32_t seed = 0;
    unsigned subseq = 0;
};

struct AdvPlan
{
    int n = 0;
    long at[8] = {};
    double val[8] = {};

    void add(long a, double v)
    {
        if (n < 8)
        {
            at[n] = a;
            val[n] = v;
            ++n;
        }
    }
    // sort by index, drop duplicates (first one wins)
    void finish()
    {
        for (int i = 1; i < n; ++i)
            for (int j = i; j > 0 && at[j] < at[j - 1]; --j)
            {
                std::swap(at[j], at[j - 1]);
                std::swap(val[j], val[j - 1]);
            }
        int m = 0;
        for (int i = 0; i < n; ++i)
            if (m == 0 || at[i] != at[m - 1])
            {
                at[m] = at[i];
                val[m] = val[i];
                ++m;
            }
        n = m;
    }
};

struct AdvEngine
{
    using result_type = unsigned int;
    static constexpr result_type min() { return 0u; }
    static constexpr result_type max() { return 0xffffffffu; }

    celeritas::XorwowRngEngine base;
    AdvPlan plan;
    long raw = 0;  // 32-bit outputs consumed
    long canon = 0;  // canonical draws consumed
    int next = 0;  // next planned entry (== number of forced draws so far)
    bool last_forced = false;
    double last_value = -1;
    bool any_forced_zero = false;

    result_type operator()()
    {
        ++raw;
        return base();
    }
};

using RngStore
    = celeritas::CollectionStateStore<celeritas::XorwowRngStateData,
                                      celeritas::MemSpace::host>;
inline std::unique_ptr<celeritas::XorwowRngParams> g_rng_params;
inline std::unique_ptr<RngStore> g_rng_store;

inline void init_engine_pool()
{
    if (g_rng_params)
        return;
    g_rng_params = std::make_unique<celeritas::XorwowRngParams>(20240923u);
    g_rng_store = std::make_unique<RngStore>(
        g_rng_params->host_ref(), celeritas::StreamId{0}, 1);
}

struct EngineSnapshot
{
    celeritas::XorwowState st;
    long raw, canon;
    int next;
    bool last_forced;
    double last_value;
    bool any_forced_zero;
};

// One live holder at a time (single state slot)
struct EngineHolder
{
    AdvEngine e;

    EngineHolder(Stream s, AdvPlan const& plan)
        : e{celeritas::XorwowRngEngine(g_rng_params->host_ref(),
                                       g_rng_store->ref(),
                                       celeritas::TrackSlotId{0}),
            plan}
    {
        celeritas::XorwowRngInitializer init;
        init.seed = {s.seed};
        init.subsequence = s.subseq;
        init.offset = 0;
        e.base = init;
    }
    celeritas::XorwowState& state()
    {
        return g_rng_store->ref().state[celeritas::TrackSlotId{0}];
    }
    EngineSnapshot snapshot()
    {
        return {this->state(),
                e.raw,
                e.canon,
                e.next,
                e.last_forced,
                e.last_value,
                e.any_forced_zero};
    }
    void restore(EngineSnapshot const& s)
    {
        this->state() = s.st;
        e.raw = s.raw;
        e.canon = s.canon;
        e.next = s.next;
        e.last_forced = s.last_forced;
        e.last_value = s.last_value;
        e.any_forced_zero = s.any_forced_zero;
    }
};
}  // namespace c15
}  // namespace verif

namespace celeritas
{
template<class T>
class GenerateCanonical<verif::c15::AdvEngine, T>
{
  public:
    using real_type = T;
    using result_type = T;

    result_type operator()(verif::c15::AdvEngine& e)
    {
        T v = detail::GenerateCanonical32<T>()(e);
        long i = e.canon++;
        e.last_forced = false;
        if (e.next < e.plan.n && e.plan.at[e.next] == i)
        {
            v = T(e.plan.val[e.next++]);
            e.last_forced = true;
            if (v == 0)
                e.any_forced_zero = true;
        }
        e.last_value = double(v);
        return v;
    }
};
}  // namespace celeritas
#endif  // VERIF_STATS_WITH_ENGINE
