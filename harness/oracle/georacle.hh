// O-GEO: independent geometry oracle computed from an `OrangeInput`.
//
// Written from the mathematical definitions (doc/implementation/orange.rst,
// surface class documentation) in long double.  It reads ONLY: surface type +
// stored coefficients, volume face lists + RPN logic, the background volume,
// daughter transforms and array grids.  It never reads bounding boxes, BIH
// data, connectivity, flags or anything produced by OrangeParams.
#pragma once

#include <algorithm>
#include <cmath>
#include <map>
#include <string>
#include <variant>
#include <vector>

#include "orange/OrangeInput.hh"
#include "orange/OrangeTypes.hh"

namespace verif
{
namespace geo
{
using LD = long double;

struct V3
{
    LD v[3];
    LD& operator[](int i) { return v[i]; }
    LD const& operator[](int i) const { return v[i]; }
};
inline LD dot(V3 const& a, V3 const& b)
{
    return a[0] * b[0] + a[1] * b[1] + a[2] * b[2];
}
inline V3 along(V3 const& p, V3 const& d, LD t)
{
    return {{p[0] + t * d[0], p[1] + t * d[1], p[2] + t * d[2]}};
}
inline LD norm(V3 const& a)
{
    return sqrtl(dot(a, a));
}

// f(x) = sum a_i x_i^2 + c0 xy + c1 yz + c2 zx + sum b_i x_i + k
struct Quadric
{
    LD a[3] = {0, 0, 0};
    LD c[3] = {0, 0, 0};
    LD b[3] = {0, 0, 0};
    LD k = 0;
    bool linear = true;
    celeritas::SurfaceType type{};

    LD eval(V3 const& x) const
    {
        return a[0] * x[0] * x[0] + a[1] * x[1] * x[1] + a[2] * x[2] * x[2]
               + c[0] * x[0] * x[1] + c[1] * x[1] * x[2] + c[2] * x[2] * x[0]
               + b[0] * x[0] + b[1] * x[1] + b[2] * x[2] + k;
    }
    V3 grad(V3 const& x) const
    {
        return {{2 * a[0] * x[0] + c[0] * x[1] + c[2] * x[2] + b[0],
                 2 * a[1] * x[1] + c[0] * x[0] + c[1] * x[2] + b[1],
                 2 * a[2] * x[2] + c[1] * x[1] + c[2] * x[0] + b[2]}};
    }
    LD second_norm() const
    {
        LD s = 0;
        for (int i = 0; i < 3; ++i)
            s += fabsl(a[i]) + fabsl(c[i]);
        return s;
    }
    // |f| small compared with the change of f over distance delta?
    bool near(V3 const& x, LD delta) const
    {
        LD g = norm(grad(x));
        return fabsl(eval(x)) <= delta * g + delta * delta * second_norm();
    }
    // Approximate distance to the surface (first order, second-order guarded)
    LD approx_dist(V3 const& x) const
    {
        LD f = fabsl(eval(x));
        LD g = norm(grad(x));
        LD s = second_norm();
        if (s == 0)
            return g > 0 ? f / g : INFINITY;
        // smallest positive root of s d^2 + g d - f = 0 (lower bound on dist)
        return 2 * f / (g + sqrtl(g * g + 4 * s * f));
    }
    // All real roots t of f(p + t d) = 0, ascending; returns count (0..2).
    int roots(V3 const& p, V3 const& d, LD out[2]) const
    {
        // q2 t^2 + q1 t + q0
        LD q2 = a[0] * d[0] * d[0] + a[1] * d[1] * d[1] + a[2] * d[2] * d[2]
                + c[0] * d[0] * d[1] + c[1] * d[1] * d[2] + c[2] * d[2] * d[0];
        V3 g = grad(p);
        LD q1 = dot(g, d);
        LD q0 = eval(p);
        LD scale2 = second_norm();
        if (linear || fabsl(q2) <= 1e-30L * (scale2 + 1e-300L))
        {
            if (q1 == 0)
                return 0;
            out[0] = -q0 / q1;
            return 1;
        }
        LD disc = q1 * q1 - 4 * q2 * q0;
        if (disc < 0)
            return 0;
        LD s = sqrtl(disc);
        LD qq = -0.5L * (q1 + (q1 >= 0 ? s : -s));
        LD r1 = qq / q2;
        LD r2 = (qq != 0) ? q0 / qq : r1;
        if (r1 > r2)
            std::swap(r1, r2);
        out[0] = r1;
        out[1] = r2;
        return 2;
    }
};

template<class S>
inline Quadric make_quadric(S const& s)
{
    using celeritas::SurfaceType;
    Quadric q;
    auto d = s.data();
    SurfaceType t = S::surface_type();
    q.type = t;
    auto axis_of = [](SurfaceType st, SurfaceType x0) {
        return int(st) - int(x0);
    };
    auto uv = [](int T, int& U, int& V) {
        U = (T == 0) ? 1 : 0;
        V = (T == 2) ? 1 : 2;
    };
    switch (t)
    {
        case SurfaceType::px:
        case SurfaceType::py:
        case SurfaceType::pz: {
            int ax = axis_of(t, SurfaceType::px);
            q.b[ax] = 1;
            q.k = -LD(d[0]);
            break;
        }
        case SurfaceType::cxc:
        case SurfaceType::cyc:
        case SurfaceType::czc: {
            int T = axis_of(t, SurfaceType::cxc), U, V;
            uv(T, U, V);
            q.a[U] = 1;
            q.a[V] = 1;
            q.k = -LD(d[0]);
            q.linear = false;
            break;
        }
        case SurfaceType::sc:
            q.a[0] = q.a[1] = q.a[2] = 1;
            q.k = -LD(d[0]);
            q.linear = false;
            break;
        case SurfaceType::cx:
        case SurfaceType::cy:
        case SurfaceType::cz: {
            int T = axis_of(t, SurfaceType::cx), U, V;
            uv(T, U, V);
            LD u0 = d[0], v0 = d[1], r2 = d[2];
            q.a[U] = 1;
            q.a[V] = 1;
            q.b[U] = -2 * u0;
            q.b[V] = -2 * v0;
            q.k = u0 * u0 + v0 * v0 - r2;
            q.linear = false;
            break;
        }
        case SurfaceType::p:
            q.b[0] = d[0];
            q.b[1] = d[1];
            q.b[2] = d[2];
            q.k = -LD(d[3]);
            break;
        case SurfaceType::s: {
            LD o[3] = {d[0], d[1], d[2]};
            for (int i = 0; i < 3; ++i)
            {
                q.a[i] = 1;
                q.b[i] = -2 * o[i];
            }
            q.k = o[0] * o[0] + o[1] * o[1] + o[2] * o[2] - LD(d[3]);
            q.linear = false;
            break;
        }
        case SurfaceType::kx:
        case SurfaceType::ky:
        case SurfaceType::kz: {
            int T = axis_of(t, SurfaceType::kx), U, V;
            uv(T, U, V);
            LD o[3] = {d[0], d[1], d[2]};
            LD tsq = d[3];
            q.a[U] = 1;
            q.a[V] = 1;
            q.a[T] = -tsq;
            q.b[U] = -2 * o[U];
            q.b[V] = -2 * o[V];
            q.b[T] = 2 * tsq * o[T];
            q.k = o[U] * o[U] + o[V] * o[V] - tsq * o[T] * o[T];
            q.linear = false;
            break;
        }
        case SurfaceType::sq:
            for (int i = 0; i < 3; ++i)
            {
                q.a[i] = d[i];
                q.b[i] = d[3 + i];
            }
            q.k = d[6];
            q.linear = false;
            break;
        case SurfaceType::gq:
            for (int i = 0; i < 3; ++i)
            {
                q.a[i] = d[i];
                q.c[i] = d[3 + i];
                q.b[i] = d[6 + i];
            }
            q.k = d[9];
            q.linear = false;
            break;
        default: break;
    }
    return q;
}

struct Xform
{
    bool identity = true;
    LD R[3][3] = {{1, 0, 0}, {0, 1, 0}, {0, 0, 1}};
    LD t[3] = {0, 0, 0};
    V3 down(V3 const& x) const
    {
        if (identity)
            return x;
        V3 y = {{x[0] - t[0], x[1] - t[1], x[2] - t[2]}};
        return rot_down(y);
    }
    V3 rot_down(V3 const& d) const
    {
        if (identity)
            return d;
        V3 r;
        for (int j = 0; j < 3; ++j)
            r[j] = R[0][j] * d[0] + R[1][j] * d[1] + R[2][j] * d[2];
        return r;
    }
};

struct Daughter
{
    int universe = -1;
    Xform xf;
};

struct Vol
{
    std::vector<int> faces;
    std::vector<celeritas::logic_int> logic;
    bool background = false;
    std::string label;
};

struct Unit
{
    std::vector<Quadric> surfs;
    std::vector<bool> unsupported;  // e.g. involute
    std::vector<Vol> vols;
    std::map<int, Daughter> daughters;
    int background = -1;
    std::string label;
};

struct Array
{
    std::vector<double> grid[3];
    std::vector<Daughter> daughters;
    std::string label;
};

struct Universe
{
    bool is_array = false;
    Unit unit;
    Array array;
    int num_volumes() const
    {
        if (!is_array)
            return int(unit.vols.size());
        return int(array.daughters.size());
    }
};

struct Model
{
    std::vector<Universe> univ;
    std::vector<int> vol_offset;  // global volume id offset per universe
    LD tol_rel = 1.5e-8L, tol_abs = 1.5e-8L;
    bool unsupported = false;  // contains a surface the oracle cannot model
    bool duplicate_surfaces = false;  // a unit holds two identical surfaces
                                      // (not a valid ORANGE input)
    int max_depth = 0;
};

inline Xform make_xform(celeritas::VariantTransform const& vt)
{
    Xform x;
    std::visit(
        [&x](auto const& t) {
            auto d = t.data();
            if (d.size() == 3)
            {
                x.identity = false;
                for (int i = 0; i < 3; ++i)
                    x.t[i] = d[i];
            }
            else if (d.size() == 12)
            {
                x.identity = false;
                for (int i = 0; i < 3; ++i)
                    for (int j = 0; j < 3; ++j)
                        x.R[i][j] = d[3 * i + j];
                for (int i = 0; i < 3; ++i)
                    x.t[i] = d[9 + i];
            }
        },
        vt);
    return x;
}

inline Model build_model(celeritas::OrangeInput const& in)
{
    using namespace celeritas;
    Model m;
    m.tol_rel = in.tol.rel;
    m.tol_abs = in.tol.abs;
    int off = 0;
    for (auto const& uv : in.universes)
    {
        Universe U;
        if (auto const* u = std::get_if<UnitInput>(&uv))
        {
            U.unit.label = u->label.name;
            for (auto const& vs : u->surfaces)
            {
                bool unsup = false;
                Quadric q = std::visit(
                    [&unsup](auto const& s) {
                        using S = std::decay_t<decltype(s)>;
                        if constexpr (S::surface_type() == SurfaceType::inv)
                        {
                            unsup = true;
                            return Quadric{};
                        }
                        else
                            return make_quadric(s);
                    },
                    vs);
                for (auto const& o : U.unit.surfs)
                {
                    bool same = !unsup && o.k == q.k;
                    for (int i = 0; i < 3 && same; ++i)
                        same = o.a[i] == q.a[i] && o.b[i] == q.b[i]
                               && o.c[i] == q.c[i];
                    if (same)
                        m.duplicate_surfaces = true;
                }
                U.unit.surfs.push_back(q);
                U.unit.unsupported.push_back(unsup);
                if (unsup)
                    m.unsupported = true;
            }
            for (size_t vi = 0; vi < u->volumes.size(); ++vi)
            {
                auto const& v = u->volumes[vi];
                Vol ov;
                for (auto f : v.faces)
                    ov.faces.push_back(int(f.unchecked_get()));
                ov.logic = v.logic;
                ov.background = (v.zorder == ZOrder::background);
                ov.label = v.label.name;
                if (ov.background)
                    U.unit.background = int(vi);
                U.unit.vols.push_back(std::move(ov));
            }
            for (auto const& kv : u->daughter_map)
            {
                Daughter d;
                d.universe = int(kv.second.universe_id.unchecked_get());
                d.xf = make_xform(kv.second.transform);
                U.unit.daughters[int(kv.first.unchecked_get())] = d;
            }
        }
        else
        {
            auto const& r = std::get<RectArrayInput>(uv);
            U.is_array = true;
            U.array.label = r.label.name;
            for (int ax = 0; ax < 3; ++ax)
                U.array.grid[ax] = r.grid[ax];
            for (auto const& di : r.daughters)
            {
                Daughter d;
                d.universe = int(di.universe_id.unchecked_get());
                d.xf = make_xform(di.transform);
                U.array.daughters.push_back(d);
            }
        }
        m.vol_offset.push_back(off);
        off += U.num_volumes();
        m.univ.push_back(std::move(U));
    }
    return m;
}

// Own RPN evaluator (64-entry stack)
inline bool eval_logic(std::vector<celeritas::logic_int> const& lg,
                       std::vector<int> const& face_sense /* +1 / -1 */,
                       bool* ok)
{
    using namespace celeritas;
    bool st[64];
    int n = 0;
    *ok = true;
    for (auto t : lg)
    {
        if (!logic::is_operator_token(t))
        {
            if (n >= 64 || t >= face_sense.size())
            {
                *ok = false;
                return false;
            }
            st[n++] = face_sense[t] > 0;
        }
        else if (t == logic::ltrue)
        {
            if (n >= 64)
            {
                *ok = false;
                return false;
            }
            st[n++] = true;
        }
        else if (t == logic::lnot)
        {
            if (n < 1)
            {
                *ok = false;
                return false;
            }
            st[n - 1] = !st[n - 1];
        }
        else
        {
            if (n < 2)
            {
                *ok = false;
                return false;
            }
            bool b = st[--n];
            bool a = st[n - 1];
            st[n - 1] = (t == logic::land) ? (a && b) : (a || b);
        }
    }
    if (n != 1)
    {
        *ok = false;
        return false;
    }
    return st[0];
}

struct LevelFrame
{
    int universe;
    int volume;  // local volume (cell index for arrays), -1 if none
    V3 pos;  // local position
    V3 dir;  // local direction (if given)
};

struct Path
{
    std::vector<LevelFrame> lv;
    bool ambiguous = false;  // within delta of a surface on the path
    bool overlap = false;  // more than one volume claims the point
    bool nowhere = false;  // no volume and no background at some level
    bool bad_logic = false;
    bool outside() const
    {
        return !lv.empty() && lv[0].volume == 0;
    }
    bool same_as(Path const& o) const
    {
        if (lv.size() != o.lv.size())
            return false;
        for (size_t i = 0; i < lv.size(); ++i)
            if (lv[i].universe != o.lv[i].universe
                || lv[i].volume != o.lv[i].volume)
                return false;
        return true;
    }
    std::string str() const
    {
        std::string s;
        for (auto const& l : lv)
            s += "/" + std::to_string(l.universe) + ":"
                 + std::to_string(l.volume);
        if (ambiguous)
            s += "?";
        if (overlap)
            s += "!overlap";
        if (nowhere)
            s += "!nowhere";
        return s;
    }
};

// delta at a point: 4*max(abs, rel*|x|) + rounding
inline LD delta_at(Model const& m, V3 const& x, LD t = 0)
{
    LD n = norm(x) + fabsl(t);
    return 4 * std::max(m.tol_abs, m.tol_rel * n) + 64 * 1.1e-16L * n;
}

inline void locate_rec(Model const& m,
                       int uid,
                       V3 const& x,
                       V3 const& d,
                       LD delta,
                       Path& out,
                       int depth = 0)
{
    if (depth > 32)
    {
        out.nowhere = true;
        return;
    }
    Universe const& U = m.univ[uid];
    if (!U.is_array)
    {
        Unit const& u = U.unit;
        std::vector<int> sense(u.surfs.size());
        for (size_t i = 0; i < u.surfs.size(); ++i)
        {
            if (u.unsupported[i])
            {
                sense[i] = 1;
                out.ambiguous = true;
                continue;
            }
            LD f = u.surfs[i].eval(x);
            sense[i] = f > 0 ? 1 : -1;
            if (u.surfs[i].near(x, delta))
                out.ambiguous = true;
        }
        int found = -1;
        std::vector<int> fs;
        for (size_t v = 0; v < u.vols.size(); ++v)
        {
            Vol const& vol = u.vols[v];
            if (vol.background || vol.logic.empty())
                continue;
            fs.resize(vol.faces.size());
            for (size_t f = 0; f < vol.faces.size(); ++f)
                fs[f] = sense[vol.faces[f]];
            bool ok = true;
            bool in = eval_logic(vol.logic, fs, &ok);
            if (!ok)
                out.bad_logic = true;
            if (in)
            {
                if (found >= 0)
                    out.overlap = true;
                else
                    found = int(v);
            }
        }
        if (found < 0)
            found = u.background;
        out.lv.push_back({uid, found, x, d});
        if (found < 0)
        {
            out.nowhere = true;
            return;
        }
        auto it = u.daughters.find(found);
        if (it != u.daughters.end())
        {
            locate_rec(m,
                       it->second.universe,
                       it->second.xf.down(x),
                       it->second.xf.rot_down(d),
                       delta,
                       out,
                       depth + 1);
        }
    }
    else
    {
        Array const& a = U.array;
        int idx[3];
        for (int ax = 0; ax < 3; ++ax)
        {
            auto const& g = a.grid[ax];
            if (x[ax] < g.front() || x[ax] > g.back())
            {
                out.lv.push_back({uid, -1, x, d});
                out.nowhere = true;
                return;
            }
            int i = int(std::upper_bound(g.begin(), g.end(), (double)x[ax])
                        - g.begin())
                    - 1;
            i = std::min(std::max(i, 0), int(g.size()) - 2);
            idx[ax] = i;
            for (double gp : g)
                if (fabsl(x[ax] - gp) <= delta)
                    out.ambiguous = true;
        }
        int ny = int(a.grid[1].size()) - 1, nz = int(a.grid[2].size()) - 1;
        int cell = (idx[0] * ny + idx[1]) * nz + idx[2];
        out.lv.push_back({uid, cell, x, d});
        Daughter const& dd = a.daughters[cell];
        locate_rec(m,
                   dd.universe,
                   dd.xf.down(x),
                   dd.xf.rot_down(d),
                   delta,
                   out,
                   depth + 1);
    }
}

inline Path locate(Model const& m, V3 const& x, LD delta, V3 d = {{0, 0, 1}})
{
    Path p;
    locate_rec(m, 0, x, d, delta, p);
    return p;
}

// Candidate crossing distances (> tmin) from the surfaces / grid planes of the
// universes on `path`, whose frames were evaluated at parameter t0.
inline void candidates(Model const& m,
                       Path const& path,
                       LD t0,
                       LD tmin,
                       std::vector<LD>& out)
{
    for (auto const& l : path.lv)
    {
        Universe const& U = m.univ[l.universe];
        if (!U.is_array)
        {
            for (size_t i = 0; i < U.unit.surfs.size(); ++i)
            {
                if (U.unit.unsupported[i])
                    continue;
                LD r[2];
                int n = U.unit.surfs[i].roots(l.pos, l.dir, r);
                for (int k = 0; k < n; ++k)
                    if (t0 + r[k] > tmin && std::isfinite((double)r[k]))
                        out.push_back(t0 + r[k]);
            }
        }
        else
        {
            for (int ax = 0; ax < 3; ++ax)
            {
                if (l.dir[ax] == 0)
                    continue;
                for (double gp : U.array.grid[ax])
                {
                    LD t = (gp - l.pos[ax]) / l.dir[ax];
                    if (t0 + t > tmin)
                        out.push_back(t0 + t);
                }
            }
        }
    }
    std::sort(out.begin(), out.end());
}

struct Segment
{
    LD t0 = 0, t1 = 0;  // [t0, t1): t1 = INFINITY if unbounded
    Path path;
    LD base_t = 0;  // ray parameter at which path's frames were evaluated
    bool fuzzy_end = false;  // the crossing at t1 lies in a cluster of several
                             // candidates closer than 2*delta to each other
    LD end_lo = 0, end_hi = 0;  // extent of the candidate cluster at t1
};

// A group of candidate crossing distances closer than 2*delta to each other
struct Cluster
{
    LD lo, hi;
    int n;  // number of candidates
    bool changed;  // the volume path differs across the cluster
};

// March along the ray p + t d from an unambiguous start.  The path can only
// change where the ray crosses a surface (or grid plane) of a universe on the
// current path, so candidates are taken from those universes only.  The path
// behind a cluster is located a distance ~delta beyond it with a much smaller
// ambiguity threshold (the arithmetic is exact to ~1e-19; delta is the slack
// granted to the *navigator*, not needed by the oracle); candidates of newly
// entered universes that lie within that distance are merged into the
// cluster.
inline std::vector<Segment> trace(Model const& m,
                                  V3 const& p,
                                  V3 const& d,
                                  int max_segments,
                                  bool* truncated,
                                  std::vector<Cluster>* clusters = nullptr)
{
    std::vector<Segment> segs;
    *truncated = false;
    Segment s;
    s.t0 = 0;
    s.base_t = 0;
    s.path = locate(m, p, delta_at(m, p), d);
    LD tmin = 0;  // candidates must lie beyond this parameter
    int guard = 0;
    while (true)
    {
        if (s.path.outside() || s.path.nowhere)
        {
            s.t1 = INFINITY;
            segs.push_back(s);
            return segs;
        }
        if (int(segs.size()) >= max_segments || ++guard > 4000)
        {
            *truncated = true;
            s.t1 = INFINITY;
            segs.push_back(s);
            return segs;
        }
        std::vector<LD> cand;
        candidates(m, s.path, s.base_t, tmin, cand);
        bool changed = false;
        size_t i = 0;
        while (i < cand.size())
        {
            LD dl = delta_at(m, along(p, d, cand[i]));
            size_t j = i;
            while (j + 1 < cand.size() && cand[j + 1] - cand[j] <= 2 * dl)
                ++j;
            LD lo = cand[i], hi = cand[j];
            int ncl = int(j - i + 1);
            Path np;
            LD probe = 0;
            // locate just beyond the cluster, absorbing candidates of newly
            // entered universes that lie within the probe distance
            for (int it = 0; it < 8; ++it)
            {
                probe = hi + dl;
                if (j + 1 < cand.size() && probe >= cand[j + 1] - dl / 2)
                    probe = (hi + cand[j + 1]) / 2;
                V3 xp = along(p, d, probe);
                np = locate(m, xp, dl * 1e-4L, d);
                if (np.same_as(s.path))
                    break;
                std::vector<LD> nc;
                candidates(m, np, probe, hi, nc);
                bool grew = false;
                for (LD t : nc)
                    if (t > hi && t <= probe + dl)
                    {
                        hi = std::max(hi, t);
                        ++ncl;
                        grew = true;
                    }
                if (!grew)
                    break;
                // absorb old candidates now covered
                while (j + 1 < cand.size() && cand[j + 1] <= hi + 2 * dl)
                {
                    ++j;
                    hi = std::max(hi, cand[j]);
                    ++ncl;
                }
            }
            bool chg = !np.same_as(s.path);
            if (clusters)
                clusters->push_back({lo, hi, ncl, chg});
            if (chg)
            {
                s.t1 = (lo + hi) / 2;
                s.fuzzy_end = ncl > 1;
                s.end_lo = lo;
                s.end_hi = hi;
                segs.push_back(s);
                Segment ns;
                ns.t0 = s.t1;
                ns.path = np;
                ns.base_t = probe;
                s = ns;
                tmin = hi;
                changed = true;
                break;
            }
            i = j + 1;
        }
        if (!changed)
        {
            s.t1 = INFINITY;
            segs.push_back(s);
            return segs;
        }
    }
}

}  // namespace geo
}  // namespace verif
