// Geometry fixtures shared by the navigation harnesses: an OrangeInput (kept
// for the oracle), the OrangeParams built from it, and a one-slot track state.
#pragma once

#include <cmath>
#include <fstream>
#include <memory>
#include <string>
#include <vector>

#include <nlohmann/json.hpp>

#include "corecel/data/CollectionStateStore.hh"
#include "corecel/io/Logger.hh"
#include "corecel/math/ArrayUtils.hh"
#include "orange/OrangeInput.hh"
#include "orange/OrangeInputIO.json.hh"
#include "orange/OrangeParams.hh"
#include "orange/OrangeTrackView.hh"
#include "orange/detail/LevelStateAccessor.hh"

#include "georacle.hh"

namespace verif
{
struct GeoFixture
{
    std::string name;
    celeritas::OrangeInput input;  // copy kept for the oracle / JSON checks
    geo::Model model;
    std::shared_ptr<celeritas::OrangeParams> params;
    using Store = celeritas::CollectionStateStore<celeritas::OrangeStateData,
                                                  celeritas::MemSpace::host>;
    std::unique_ptr<Store> state;
    double lo[3], hi[3];  // sampling box
    double scale = 1;

    celeritas::OrangeTrackView track()
    {
        return celeritas::OrangeTrackView(
            params->host_ref(), state->ref(), celeritas::TrackSlotId{0});
    }

    // Path (universe, local volume) per level read from the navigation state
    geo::Path nav_path() const
    {
        using namespace celeritas;
        geo::Path p;
        auto const& st = state->ref();
        LevelId lev = st.level[TrackSlotId{0}];
        for (size_type i = 0; i <= lev.unchecked_get(); ++i)
        {
            detail::LevelStateAccessor lsa(&st, TrackSlotId{0}, LevelId{i});
            geo::LevelFrame f;
            f.universe = int(lsa.universe().unchecked_get());
            f.volume = lsa.vol() ? int(lsa.vol().unchecked_get()) : -1;
            for (int k = 0; k < 3; ++k)
            {
                f.pos[k] = lsa.pos()[k];
                f.dir[k] = lsa.dir()[k];
            }
            p.lv.push_back(f);
        }
        return p;
    }
};

// Build a fixture from an input; throws what OrangeParams throws.
inline std::unique_ptr<GeoFixture>
make_fixture(std::string name, celeritas::OrangeInput inp)
{
    auto f = std::make_unique<GeoFixture>();
    f->name = std::move(name);
    f->input = inp;
    f->model = geo::build_model(f->input);
    f->params = std::make_shared<celeritas::OrangeParams>(std::move(inp));
    f->state = std::make_unique<GeoFixture::Store>(f->params->host_ref(), 1);
    auto const& bb = f->params->bbox();
    double sc = 0;
    for (int i = 0; i < 3; ++i)
    {
        double l = bb.lower()[i], h = bb.upper()[i];
        if (!std::isfinite(l) || !std::isfinite(h))
        {
            l = -100;
            h = 100;
        }
        f->lo[i] = l;
        f->hi[i] = h;
        sc = std::fmax(sc, std::fmax(std::fabs(l), std::fabs(h)));
    }
    f->scale = sc > 0 ? sc : 1;
    return f;
}

inline celeritas::OrangeInput load_org_json(std::string const& path)
{
    std::ifstream is(path);
    if (!is)
        throw std::runtime_error("cannot open " + path);
    celeritas::OrangeInput inp;
    nlohmann::json::parse(is).get_to(inp);
    return inp;
}

inline std::vector<std::string> const& bundled_geometry_files()
{
    static std::vector<std::string> const files = {
        "/repo/test/orange/data/five-volumes.org.json",
        "/repo/test/orange/data/universes.org.json",
        "/repo/test/orange/data/nested-rect-arrays.org.json",
        "/repo/test/orange/data/rect-array.org.json",
        "/repo/test/orange/data/hex-array.org.json",
        "/repo/test/orange/data/testem3.org.json",
        "/repo/test/orange/data/geant4-testem15.org.json",
        "/repo/test/orange/data/field-layers.org.json",
        "/repo/test/orange/data/inputbuilder-bgspheres.org.json",
        "/repo/test/orange/data/inputbuilder-globalspheres.org.json",
        "/repo/test/orange/data/inputbuilder-hierarchy.org.json",
        "/repo/test/orange/data/inputbuilder-incomplete-bb.org.json",
        "/repo/test/orange/data/inputbuilder-universes.org.json",
        "/repo/test/geocel/data/four-steel-slabs.org.json",
        "/repo/test/geocel/data/lar-sphere.org.json",
        "/repo/test/geocel/data/lead-box.org.json",
        "/repo/test/geocel/data/one-steel-sphere.org.json",
        "/repo/test/geocel/data/simple-cms.org.json",
        "/repo/test/geocel/data/testem15.org.json",
        "/repo/test/geocel/data/testem3-flat.org.json",
        "/repo/test/geocel/data/three-spheres.org.json",
        "/repo/test/geocel/data/two-boxes.org.json",
    };
    return files;
}

}  // namespace verif
