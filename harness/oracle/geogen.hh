// G-GEO source A: random construction-API (orangeinp) models together with an
// analytic membership oracle.
//
//   namespace verif::geogen {
//     struct Limits;  struct GenGeo;  struct Expect;
//     GenGeo generate(Choices&, CaseLog&, Limits const&);   // may throw celeritas::RuntimeError
//     celeritas::OrangeInput build_input(GenGeo const&);    // may throw celeritas::RuntimeError
//     Expect expected(GenGeo const&, x, y, z);              // oracle
//     double world_halfwidth(GenGeo const&);
//     std::vector<SurfPoint> surface_points(GenGeo const&, Prng&, int per_object);
//     void quiet_logs();
//   }
//
// The oracle (ONode + margin()) is written from the class documentation of
// IntersectRegion.hh / Solid.hh / PolySolid.hh / Transformed.hh / CsgObject.hh
// / UnitProto.hh -- never from the build() implementations -- in long double.
// Every margin is >= 0 inside, < 0 outside, and first-order equal to the
// distance to the nearest face of the object near that face.
//
// Validity of a model is BY CONSTRUCTION (ORANGE does not check overlaps):
// in each unit the volumes are the first-match partition of the list
//   [interior(daughter 1), ..., interior(daughter k), S1, ..., Sn]
// (daughter interiors are pairwise disjoint by placement in octant slots),
// and the remaining space is the background or an explicit last material.
#pragma once

#include <algorithm>
#include <array>
#include <cmath>
#include <cstdint>
#include <memory>
#include <optional>
#include <sstream>
#include <stdexcept>
#include <string>
#include <utility>
#include <vector>

#include "caselog.hh"
#include "choices.hh"
#include "corecel/io/Logger.hh"
#include "corecel/math/Turn.hh"
#include "orange/OrangeInput.hh"
#include "orange/OrangeTypes.hh"
#include "orange/orangeinp/CsgObject.hh"
#include "orange/orangeinp/InputBuilder.hh"
#include "orange/orangeinp/IntersectRegion.hh"
#include "orange/orangeinp/PolySolid.hh"
#include "orange/orangeinp/Shape.hh"
#include "orange/orangeinp/Solid.hh"
#include "orange/orangeinp/Transformed.hh"
#include "orange/orangeinp/UnitProto.hh"
#include "orange/transform/Transformation.hh"
#include "orange/transform/Translation.hh"
#include "orange/transform/VariantTransform.hh"

namespace verif
{
namespace geogen
{
using LD = long double;
namespace oi = celeritas::orangeinp;
using SPO = std::shared_ptr<oi::ObjectInterface const>;
using celeritas::Real2;
using celeritas::Real3;
using celeritas::Turn;

constexpr LD kPi = 3.14159265358979323846264338327950288L;

struct P3
{
    LD x, y, z;
};
inline LD norm(P3 const& p)
{
    return sqrtl(p.x * p.x + p.y * p.y + p.z * p.z);
}

//---------------------------------------------------------------------------//
// Affine isometry  x_parent = R x_daughter + t  (entries are exact doubles:
// the values handed to the construction API)
struct Xf
{
    LD R[3][3] = {{1, 0, 0}, {0, 1, 0}, {0, 0, 1}};
    LD t[3] = {0, 0, 0};
    bool rot = false;  // R is not the identity
    bool improper = false;  // det R = -1
    bool tiny = false;  // rotation angle of a few tolerances
};
inline P3 up(Xf const& x, P3 const& p)
{
    return {x.R[0][0] * p.x + x.R[0][1] * p.y + x.R[0][2] * p.z + x.t[0],
            x.R[1][0] * p.x + x.R[1][1] * p.y + x.R[1][2] * p.z + x.t[1],
            x.R[2][0] * p.x + x.R[2][1] * p.y + x.R[2][2] * p.z + x.t[2]};
}
// inverse: R^T (p - t)
inline P3 down(Xf const& x, P3 const& p)
{
    LD a = p.x - x.t[0], b = p.y - x.t[1], c = p.z - x.t[2];
    return {x.R[0][0] * a + x.R[1][0] * b + x.R[2][0] * c,
            x.R[0][1] * a + x.R[1][1] * b + x.R[2][1] * c,
            x.R[0][2] * a + x.R[1][2] * b + x.R[2][2] * c};
}
inline P3 rot_up(Xf const& x, P3 const& p)
{
    return {x.R[0][0] * p.x + x.R[0][1] * p.y + x.R[0][2] * p.z,
            x.R[1][0] * p.x + x.R[1][1] * p.y + x.R[1][2] * p.z,
            x.R[2][0] * p.x + x.R[2][1] * p.y + x.R[2][2] * p.z};
}
inline celeritas::VariantTransform to_api(Xf const& x)
{
    Real3 t{double(x.t[0]), double(x.t[1]), double(x.t[2])};
    if (!x.rot)
        return celeritas::Translation{t};
    celeritas::SquareMatrixReal3 m;
    for (int i = 0; i < 3; ++i)
        for (int j = 0; j < 3; ++j)
            m[i][j] = double(x.R[i][j]);
    return celeritas::Transformation{m, t};
}

//---------------------------------------------------------------------------//
// ORACLE TREE
//---------------------------------------------------------------------------//
enum class K
{
    box,  // hx hy hz
    sphere,  // r
    cyl,  // r hh
    cone,  // rlo rhi hh
    ellipsoid,  // a b c
    prism,  // n apothem hh orientation
    genprism,  // hz n sign lo(2n) hi(2n)
    para,  // hx hy hz alpha theta phi   (G4Para semantics of the class doc)
    wedge,  // start interior (turns, interior <= 1/2)
    any,
    all,
    neg,
    xf
};

struct ONode
{
    K k;
    std::vector<LD> p;
    std::vector<std::shared_ptr<ONode const>> kids;
    Xf x;
};
using SPN = std::shared_ptr<ONode const>;

inline LD margin(ONode const& n, P3 const& q)
{
    auto const& p = n.p;
    switch (n.k)
    {
        case K::box:
            return std::min({p[0] - fabsl(q.x), p[1] - fabsl(q.y),
                             p[2] - fabsl(q.z)});
        case K::sphere:
            return p[0] - norm(q);
        case K::cyl:
            return std::min(p[0] - hypotl(q.x, q.y), p[1] - fabsl(q.z));
        case K::cone: {
            // radius linear between rlo at -hh and rhi at +hh
            LD hh = p[2];
            LD slope = (p[1] - p[0]) / (2 * hh);
            LD r = p[0] + slope * (q.z + hh);
            LD side = (r - hypotl(q.x, q.y)) / sqrtl(1 + slope * slope);
            return std::min(side, hh - fabsl(q.z));
        }
        case K::ellipsoid: {
            LD g = 1 - (q.x / p[0]) * (q.x / p[0]) - (q.y / p[1]) * (q.y / p[1])
                   - (q.z / p[2]) * (q.z / p[2]);
            LD gx = q.x / (p[0] * p[0]), gy = q.y / (p[1] * p[1]),
               gz = q.z / (p[2] * p[2]);
            LD gn = 2 * sqrtl(gx * gx + gy * gy + gz * gz);
            LD rmin = std::min({p[0], p[1], p[2]});
            if (!(gn > 1e-300L))
                return rmin;
            return std::min(g / gn, rmin);
        }
        case K::prism: {
            int ns = int(p[0]);
            LD m = p[2] - fabsl(q.z);
            for (int k = 0; k < ns; ++k)
            {
                // flat bottom (normal -y) for orientation 0; orientation 1
                // moves every face onto its counterclockwise neighbour
                LD th = -kPi / 2 + 2 * kPi * (k + p[3]) / ns;
                m = std::min(m, p[1] - (q.x * cosl(th) + q.y * sinl(th)));
            }
            return m;
        }
        case K::genprism: {
            LD hz = p[0];
            int ns = int(p[1]);
            LD sgn = p[2];
            LD const* lo = &p[3];
            LD const* hi = &p[3 + 2 * ns];
            LD m = hz - fabsl(q.z);
            LD u = (q.z + hz) / (2 * hz);
            for (int i = 0; i < ns; ++i)
            {
                int j = (i + 1) % ns;
                LD vix = hi[2 * i] - lo[2 * i], viy = hi[2 * i + 1] - lo[2 * i + 1];
                LD vjx = hi[2 * j] - lo[2 * j], vjy = hi[2 * j + 1] - lo[2 * j + 1];
                LD pix = lo[2 * i] + u * vix, piy = lo[2 * i + 1] + u * viy;
                LD pjx = lo[2 * j] + u * vjx, pjy = lo[2 * j + 1] + u * vjy;
                LD ex = pjx - pix, ey = pjy - piy;
                LD dx = q.x - pix, dy = q.y - piy;
                LD g = sgn * (ex * dy - ey * dx);
                LD gx = -sgn * ey, gy = sgn * ex;
                LD dex = vjx - vix, dey = vjy - viy;
                LD gu = sgn * (dex * dy - dey * dx - ex * viy + ey * vix);
                LD gz = gu / (2 * hz);
                LD gn = sqrtl(gx * gx + gy * gy + gz * gz);
                if (!(gn > 1e-300L))
                    continue;
                m = std::min(m, g / gn);
            }
            return m;
        }
        case K::para: {
            LD ta = tanl(2 * kPi * p[3]);
            LD tt = tanl(2 * kPi * p[4]);
            LD tc = tt * cosl(2 * kPi * p[5]), ts = tt * sinl(2 * kPi * p[5]);
            LD yp = q.y - ts * q.z;
            LD xp = q.x - tc * q.z - ta * yp;
            LD my = (p[1] - fabsl(yp)) / sqrtl(1 + ts * ts);
            LD cz = ta * ts - tc;
            LD mx = (p[0] - fabsl(xp)) / sqrtl(1 + ta * ta + cz * cz);
            return std::min({mx, my, p[2] - fabsl(q.z)});
        }
        case K::wedge: {
            // azimuth in [start, start + interior], interior <= 1/2 turn
            LD s = 2 * kPi * p[0], e = 2 * kPi * (p[0] + p[1]);
            LD d1 = cosl(s) * q.y - sinl(s) * q.x;  // ccw of start ray
            LD d2 = sinl(e) * q.x - cosl(e) * q.y;  // cw of end ray
            return std::min(d1, d2);
        }
        case K::any: {
            LD m = -HUGE_VALL;
            for (auto const& k : n.kids)
                m = std::max(m, margin(*k, q));
            return m;
        }
        case K::all: {
            LD m = HUGE_VALL;
            for (auto const& k : n.kids)
                m = std::min(m, margin(*k, q));
            return m;
        }
        case K::neg:
            return -margin(*n.kids[0], q);
        case K::xf:
            return margin(*n.kids[0], down(n.x, q));
    }
    return 0;
}

inline SPN mk(K k, std::vector<LD> p)
{
    auto n = std::make_shared<ONode>();
    n->k = k;
    n->p = std::move(p);
    return n;
}
inline SPN mk(K k, std::vector<SPN> kids)
{
    auto n = std::make_shared<ONode>();
    n->k = k;
    n->kids = std::move(kids);
    return n;
}
inline SPN mk_xf(Xf const& x, SPN kid)
{
    auto n = std::make_shared<ONode>();
    n->k = K::xf;
    n->x = x;
    n->kids = {std::move(kid)};
    return n;
}
// azimuthal restriction [start, start+interior] of Solid.hh, any interior<1
inline SPN mk_angle(LD start, LD interior)
{
    auto wrap = [](LD v) {
        v = fmodl(v, 1.0L);
        return v < 0 ? v + 1 : v;
    };
    if (interior <= 0.5L)
        return mk(K::wedge, std::vector<LD>{wrap(start), interior});
    return mk(K::neg,
              std::vector<SPN>{mk(K::wedge,
                                  std::vector<LD>{wrap(start + interior),
                                                  1 - interior})});
}

//---------------------------------------------------------------------------//
// PUBLIC TYPES
//---------------------------------------------------------------------------//
// Known-finding input classes (bits)
enum : unsigned
{
    KF10 = 1,  // skewed parallelepiped
    KF11 = 2,  // ellipsoid: un-normalised quadric vs absolute thresholds
    KF12 = 4,  // GenPrism face with a twist below sqrt(2 rel) made planar
    KF13 = 8  // two rotated cylinders merged: coefficient-space soft equality
};

// Thrown by generate() when the drawn model falls in a known-finding class
// that the Limits exclude (counted by the harness as a clean rejection)
struct Excluded : std::runtime_error
{
    using std::runtime_error::runtime_error;
};

struct Limits
{
    int max_depth = 2;  // proto nesting below the global unit
    int max_daughters = 2;  // per unit (<= 8)
    int max_regions = 5;  // cutting objects per unit
    int max_csg_depth = 2;  // boolean/transform nesting inside one object
    bool allow_parallelepiped_skew = false;  // F10 class (alpha/theta != 0)
    // F11 class: ellipsoid whose un-normalised quadric coefficients (products
    // of two squared radii) fall below tol.rel.  (If all three do, the build
    // overflows the stack: that sub-class is never generated.)
    bool allow_small_ellipsoid = false;
    // F12 class: GenPrism side face whose twist is small enough for the
    // builder to emit a plane although the face is measurably non-planar
    bool allow_flattened_twist = false;
    // F13 class: near-coincident clone of a generally rotated cylinder whose
    // radius differs by >= 2 tol but whose quadric's constant term differs by
    // less than the (absolute) tolerance, so the two surfaces are merged
    bool allow_merged_quadric_clone = false;
    bool allow_near_coincident = true;  // planted faces at k*tol offsets
    bool allow_nondefault_tol = true;
    bool allow_improper = true;  // reflections
};

// Record of one ellipsoid inside an object: un-normalised quadric coefficients
// (products of two squared radii, as documented in Ellipsoid::build) and the
// accumulated rotation into the frame of the enclosing unit (finding F11)
struct EllRec
{
    LD q[3];
    LD rmax;
    LD R[3][3];
};

// A generated object: API object + oracle + bounding ball (if bounded)
struct Made
{
    std::vector<EllRec> ells;
    SPO api;
    SPN orc;
    bool bounded = false;
    P3 c{0, 0, 0};
    LD r = 0;
    unsigned known = 0;  // KF* bits: member of a known-finding input class
    bool has_ell = false;  // contains a non-spherical ellipsoid
    // recipe of a simple primitive (for planting near-coincident clones)
    int kind = -1;
    std::vector<double> par;
    Xf place;
    bool has_place = false;
};

struct UnitG;
struct Placement
{
    std::shared_ptr<UnitG const> unit;
    Xf x;  // daughter-to-parent
};
struct Entry
{
    SPN orc;  // in the unit frame
    int daughter = -1;  // index into daughters, or -1 for a material
    std::string label;  // volume name (materials)
    unsigned known = 0;
    P3 c{0, 0, 0};  // bounding ball (unit frame)
    LD r = 0;
};
struct UnitG
{
    std::string label;
    SPN boundary;  // unit frame
    P3 bc{0, 0, 0};
    LD br = 0;  // ball containing the boundary object
    unsigned boundary_known = 0;
    bool boundary_has_ell = false;
    std::vector<EllRec> boundary_ells;
    std::vector<Entry> entries;  // first-match order
    std::vector<Placement> daughters;
    std::string rest_label;
    bool rest_is_background = false;
    bool explicit_boundary = false;
    LD extent = 0;  // length scale of the unit frame (for tol)
    unsigned any_known = 0;  // KF* bits of everything in THIS unit
    std::shared_ptr<oi::UnitProto const> proto;
};

struct Features
{
    int prim[20] = {0};
    int n_any = 0, n_all = 0, n_neg = 0, n_sub = 0, n_xf = 0, n_rot = 0,
        n_improper = 0, n_compose = 0, n_tiny_offset = 0, n_planted = 0, n_units = 0,
        n_daughters = 0, n_daughter_rot = 0, n_reuse = 0, n_regions = 0,
        depth = 0, n_skew = 0, n_twisted = 0, n_degenerate = 0,
        n_oriented_prism = 0, n_explicit = 0, n_background = 0,
        n_merged_gq = 0, n_tinyrot = 0, n_small_ell = 0, n_excluded_f11 = 0, n_flat_twist = 0;
    bool nondefault_tol = false;
};

struct GenGeo
{
    std::shared_ptr<UnitG const> global;
    celeritas::Tolerance<> tol;
    std::string desc;
    Features feat;
    double halfwidth = 0;
    bool any_f10 = false;
};

struct Expect
{
    bool ambiguous = false;
    bool outside = false;  // outside the global boundary
    std::string unit_label;
    std::string volume_label;
    LD margin = HUGE_VALL;  // smallest |margin| met on the way
    int depth = 0;  // proto level of the leaf
    unsigned known = 0;  // KF* bits of the units on the path
};

inline double world_halfwidth(GenGeo const& g)
{
    return g.halfwidth;
}

inline void quiet_logs()
{
    celeritas::world_logger().level(celeritas::LogLevel::critical);
    celeritas::self_logger().level(celeritas::LogLevel::critical);
}

inline LD unit_tol(GenGeo const& g, UnitG const& u, P3 const& p)
{
    LD len = std::max(norm(p), u.extent);
    return std::max(LD(g.tol.abs), LD(g.tol.rel) * len);
}

//---------------------------------------------------------------------------//
// ORACLE: expected leaf volume of a global point
//---------------------------------------------------------------------------//
// `floor` is the largest tolerance of the enclosing levels: a daughter
// placement is itself only defined up to the parent's tolerance (e.g. a
// rotation by ~rel is dropped), which displaces everything inside it.
inline void walk(GenGeo const& g, UnitG const& u, P3 const& p, bool top,
                 int depth, Expect& e, LD floor = 0)
{
    LD tol_here = std::max(unit_tol(g, u, p), floor);
    LD mex = 4 * tol_here;
    e.unit_label = u.label;
    e.depth = depth;
    e.known |= u.any_known;
    if (top)
    {
        LD mb = margin(*u.boundary, p);
        e.margin = std::min(e.margin, fabsl(mb) / mex);
        if (!(fabsl(mb) > mex))
        {
            e.ambiguous = true;
            return;
        }
        if (mb < 0)
        {
            e.outside = true;
            e.volume_label = "[EXTERIOR]";
            return;
        }
    }
    for (auto const& en : u.entries)
    {
        LD m = margin(*en.orc, p);
        e.margin = std::min(e.margin, fabsl(m) / mex);
        if (!(fabsl(m) > mex))
        {
            e.ambiguous = true;
            return;
        }
        if (m > 0)
        {
            if (en.daughter >= 0)
            {
                auto const& pl = u.daughters[en.daughter];
                return walk(g, *pl.unit, down(pl.x, p), false, depth + 1, e,
                            tol_here);
            }
            e.volume_label = en.label;
            return;
        }
    }
    e.volume_label = u.rest_label;
}

inline Expect expected(GenGeo const& g, LD x, LD y, LD z)
{
    Expect e;
    walk(g, *g.global, P3{x, y, z}, true, 0, e);
    return e;
}

// Human-readable trace of the oracle's descent (for failure messages)
inline void explain_walk(GenGeo const& g, UnitG const& u, P3 const& p, bool top,
                         std::ostringstream& os, LD floor = 0)
{
    LD tol = std::max(unit_tol(g, u, p), floor);
    os.precision(12);
    os << " [" << u.label << " local=(" << double(p.x) << "," << double(p.y)
       << "," << double(p.z) << ") tol=" << double(tol);
    if (top)
        os << " bnd=" << double(margin(*u.boundary, p) / tol);
    for (size_t i = 0; i < u.entries.size(); ++i)
    {
        auto const& en = u.entries[i];
        LD m = margin(*en.orc, p);
        os << " " << (en.daughter >= 0 ? "d" : "m") << i << "=" << double(m / tol);
        if (fabsl(m) <= 4 * tol)
            break;
        if (m > 0)
        {
            if (en.daughter >= 0)
            {
                auto const& pl = u.daughters[en.daughter];
                explain_walk(g, *pl.unit, down(pl.x, p), false, os, tol);
            }
            break;
        }
    }
    os << "]";
}
inline std::string explain(GenGeo const& g, LD x, LD y, LD z)
{
    std::ostringstream os;
    explain_walk(g, *g.global, P3{x, y, z}, true, os);
    return os.str();
}

//---------------------------------------------------------------------------//
// Small deterministic generator for probe points (seeded from the choices)
struct Prng
{
    uint64_t s;
    uint64_t next()
    {
        uint64_t z = (s += 0x9e3779b97f4a7c15ull);
        z = (z ^ (z >> 30)) * 0xbf58476d1ce4e5b9ull;
        z = (z ^ (z >> 27)) * 0x94d049bb133111ebull;
        return z ^ (z >> 31);
    }
    double u() { return double(next() >> 11) / 9007199254740992.0; }
    double u(double a, double b) { return a + (b - a) * u(); }
};

}  // namespace geogen
}  // namespace verif

#include "geogen_build.hh"
