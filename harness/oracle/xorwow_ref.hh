// O-XORWOW: independent reference for the xorwow generator (DESIGN §3.4).
//
//  * the recurrence is transcribed from G. Marsaglia, "Xorshift RNGs",
//    J. Stat. Soft. 8(14), 2003, section 3.1 ("xorwow"):
//
//      unsigned long xorwow(){
//        static unsigned long x=123456789,y=362436069,z=521288629,
//                             w=88675123,v=5783321,d=6615241;
//        unsigned long t;
//        t=(x^(x>>2)); x=y; y=z; z=w; w=v; v=(v^(v<<4))^(t^(t<<1));
//        return (d+=362437)+v; }
//
//    with "unsigned long" = 32 bits as in the paper;
//  * the 160x160 transition matrix T over GF(2) is built from that
//    transcription (column i = image of the i-th unit vector), products and
//    powers by squaring work on 64-bit words;
//  * 160-bit unsigned integers (exponents), deterministic Miller-Rabin for
//    64-bit integers (to certify the factorisation of 2^160 - 1 used in the
//    order test).
//
// Nothing in this file includes or calls celeritas.
#pragma once

#include <array>
#include <cstdint>
#include <memory>
#include <vector>

namespace verif
{
namespace xorwow_ref
{
//---------------------------------------------------------------------------//
// Recurrence
//---------------------------------------------------------------------------//
using Words = std::array<uint32_t, 5>;  // x, y, z, w, v

struct RefState
{
    Words s;  // x, y, z, w, v
    uint32_t d;  // Weyl counter
};

constexpr uint32_t weyl_increment = 362437u;

// One application of the xorshift part
inline Words next_words(Words const& in)
{
    uint32_t x = in[0], y = in[1], z = in[2], w = in[3], v = in[4];
    uint32_t t = (x ^ (x >> 2));
    x = y;
    y = z;
    z = w;
    w = v;
    v = (v ^ (v << 4)) ^ (t ^ (t << 1));
    return Words{x, y, z, w, v};
}

// Full generator step: returns the output
inline uint32_t step(RefState& st)
{
    st.s = next_words(st.s);
    st.d += weyl_increment;
    return st.d + st.s[4];
}

// Weyl counter after n steps: d + n * 362437 (mod 2^32), exact integers
inline uint32_t weyl_after(uint32_t d, uint64_t n)
{
    unsigned __int128 t = (unsigned __int128)n * weyl_increment + d;
    return uint32_t(uint64_t(t) & 0xffffffffu);
}

//---------------------------------------------------------------------------//
// GF(2) vectors and matrices
//---------------------------------------------------------------------------//
struct V160
{
    uint64_t w[3];  // bit i of the state = bit (i % 64) of w[i / 64]
};

inline bool operator==(V160 const& a, V160 const& b)
{
    return a.w[0] == b.w[0] && a.w[1] == b.w[1] && a.w[2] == b.w[2];
}
inline bool operator!=(V160 const& a, V160 const& b)
{
    return !(a == b);
}
inline bool operator<(V160 const& a, V160 const& b)
{
    if (a.w[2] != b.w[2])
        return a.w[2] < b.w[2];
    if (a.w[1] != b.w[1])
        return a.w[1] < b.w[1];
    return a.w[0] < b.w[0];
}

// state bit (32*k + j) = bit j of word k
inline V160 pack(Words const& s)
{
    V160 v;
    v.w[0] = uint64_t(s[0]) | (uint64_t(s[1]) << 32);
    v.w[1] = uint64_t(s[2]) | (uint64_t(s[3]) << 32);
    v.w[2] = uint64_t(s[4]);
    return v;
}

inline Words unpack(V160 const& v)
{
    return Words{uint32_t(v.w[0]),
                 uint32_t(v.w[0] >> 32),
                 uint32_t(v.w[1]),
                 uint32_t(v.w[1] >> 32),
                 uint32_t(v.w[2])};
}

inline V160 unit(int i)
{
    V160 v{{0, 0, 0}};
    v.w[i / 64] = uint64_t(1) << (i % 64);
    return v;
}

struct Mat
{
    V160 col[160];  // column i = image of unit(i)
};

inline V160 apply(Mat const& a, V160 const& v)
{
    V160 r{{0, 0, 0}};
    for (int k = 0; k < 3; ++k)
    {
        uint64_t bits = v.w[k];
        while (bits)
        {
            int i = __builtin_ctzll(bits);
            bits &= bits - 1;
            V160 const& c = a.col[64 * k + i];
            r.w[0] ^= c.w[0];
            r.w[1] ^= c.w[1];
            r.w[2] ^= c.w[2];
        }
    }
    return r;
}

// r = a * b  (apply b first, then a)
inline void mul(Mat const& a, Mat const& b, Mat& r)
{
    Mat t;
    for (int i = 0; i < 160; ++i)
        t.col[i] = apply(a, b.col[i]);
    r = t;
}

inline Mat identity()
{
    Mat m;
    for (int i = 0; i < 160; ++i)
        m.col[i] = unit(i);
    return m;
}

inline bool is_identity(Mat const& m)
{
    for (int i = 0; i < 160; ++i)
        if (m.col[i] != unit(i))
            return false;
    return true;
}

inline bool equal(Mat const& a, Mat const& b)
{
    for (int i = 0; i < 160; ++i)
        if (a.col[i] != b.col[i])
            return false;
    return true;
}

// Transition matrix of the transcription above
inline Mat transition()
{
    Mat t;
    for (int i = 0; i < 160; ++i)
        t.col[i] = pack(next_words(unpack(unit(i))));
    return t;
}

//---------------------------------------------------------------------------//
// 160-bit unsigned integers (little-endian 32-bit limbs)
//---------------------------------------------------------------------------//
struct U160
{
    uint32_t w[5];
};

inline U160 u160_from(uint64_t v)
{
    return U160{{uint32_t(v), uint32_t(v >> 32), 0, 0, 0}};
}
inline U160 u160_all_ones()
{
    return U160{{0xffffffffu, 0xffffffffu, 0xffffffffu, 0xffffffffu, 0xffffffffu}};
}
inline bool operator==(U160 const& a, U160 const& b)
{
    for (int i = 0; i < 5; ++i)
        if (a.w[i] != b.w[i])
            return false;
    return true;
}
inline bool bit(U160 const& a, int i)
{
    return (a.w[i / 32] >> (i % 32)) & 1u;
}
inline int bit_length(U160 const& a)
{
    for (int i = 159; i >= 0; --i)
        if (bit(a, i))
            return i + 1;
    return 0;
}
// a * m; sets *overflow if the product needs more than 160 bits
inline U160 mul_small(U160 const& a, uint64_t m, bool* overflow)
{
    U160 r;
    unsigned __int128 carry = 0;
    for (int i = 0; i < 5; ++i)
    {
        unsigned __int128 t = (unsigned __int128)a.w[i] * m + carry;
        r.w[i] = uint32_t(uint64_t(t) & 0xffffffffu);
        carry = t >> 32;
    }
    if (overflow)
        *overflow = *overflow || carry != 0;
    return r;
}
// a / d (d < 2^64); remainder in *rem
inline U160 div_small(U160 const& a, uint64_t d, uint64_t* rem)
{
    U160 q;
    unsigned __int128 r = 0;
    for (int i = 4; i >= 0; --i)
    {
        unsigned __int128 cur = (r << 32) | a.w[i];
        q.w[i] = uint32_t(uint64_t(cur / d));
        r = cur % d;
    }
    if (rem)
        *rem = uint64_t(r);
    return q;
}
// a * 2^s (s < 160), dropping nothing: caller guarantees the result fits
inline U160 shl(U160 const& a, int s)
{
    U160 r{{0, 0, 0, 0, 0}};
    for (int i = 0; i < 160 - s; ++i)
        if (bit(a, i))
            r.w[(i + s) / 32] |= 1u << ((i + s) % 32);
    return r;
}

// m^e by binary square-and-multiply
inline Mat pow(Mat const& m, U160 const& e)
{
    Mat r = identity();
    Mat b = m;
    int n = bit_length(e);
    for (int i = 0; i < n; ++i)
    {
        if (bit(e, i))
            mul(b, r, r);
        if (i + 1 < n)
            mul(b, b, b);
    }
    return r;
}

//---------------------------------------------------------------------------//
// Tables T^(2^i), i < 64 and T^(2^(67+i)), i < 64 obtained by repeated
// squaring of the reference matrix: advancing a state by an arbitrary n (or
// k * 2^67) is then one matrix-vector product per set bit.
//---------------------------------------------------------------------------//
class JumpTable
{
  public:
    JumpTable() : step_(64), sub_(64)
    {
        Mat m = transition();
        for (int i = 0; i < 67 + 64; ++i)
        {
            if (i < 64)
                step_[i] = m;
            if (i >= 67)
                sub_[i - 67] = m;
            mul(m, m, m);
        }
    }

    // T^n * s
    V160 advance(V160 s, uint64_t n) const
    {
        for (int i = 0; n; ++i, n >>= 1)
            if (n & 1)
                s = apply(step_[i], s);
        return s;
    }

    // T^(k * 2^67) * s
    V160 advance_subsequences(V160 s, uint64_t k) const
    {
        for (int i = 0; k; ++i, k >>= 1)
            if (k & 1)
                s = apply(sub_[i], s);
        return s;
    }

    Mat const& step_pow2(int i) const { return step_[i]; }  // T^(2^i)
    Mat const& sub_pow2(int i) const { return sub_[i]; }  // T^(2^(67+i))

  private:
    std::vector<Mat> step_, sub_;
};

//---------------------------------------------------------------------------//
// Deterministic Miller-Rabin for n < 2^64 (bases 2..37 are sufficient for
// n < 3.3e24)
//---------------------------------------------------------------------------//
inline uint64_t mulmod(uint64_t a, uint64_t b, uint64_t m)
{
    return uint64_t((unsigned __int128)a * b % m);
}
inline uint64_t powmod(uint64_t a, uint64_t e, uint64_t m)
{
    uint64_t r = 1 % m;
    a %= m;
    while (e)
    {
        if (e & 1)
            r = mulmod(r, a, m);
        a = mulmod(a, a, m);
        e >>= 1;
    }
    return r;
}
inline bool is_prime(uint64_t n)
{
    if (n < 2)
        return false;
    static uint64_t const bases[] = {2, 3, 5, 7, 11, 13, 17, 19, 23, 29, 31, 37};
    for (uint64_t p : bases)
    {
        if (n % p == 0)
            return n == p;
    }
    uint64_t d = n - 1;
    int r = 0;
    while ((d & 1) == 0)
    {
        d >>= 1;
        ++r;
    }
    for (uint64_t a : bases)
    {
        uint64_t x = powmod(a, d, n);
        if (x == 1 || x == n - 1)
            continue;
        bool comp = true;
        for (int i = 1; i < r; ++i)
        {
            x = mulmod(x, x, n);
            if (x == n - 1)
            {
                comp = false;
                break;
            }
        }
        if (comp)
            return false;
    }
    return true;
}

}  // namespace xorwow_ref
}  // namespace verif
