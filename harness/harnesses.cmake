file(GLOB _hfiles CONFIGURE_DEPENDS ${CMAKE_CURRENT_SOURCE_DIR}/cmake.d/*.cmake)
foreach(_f ${_hfiles})
  include(${_f})
endforeach()
