// C14 (calculators) — XsCalculator / EnergyLossCalculator / RangeCalculator /
// InverseRangeCalculator / GenericCalculator agree with a long-double
// reference interpolation on the same knots, at every knot, one or two ulp
// either side of every knot and of both grid ends, inside bins and outside the
// grid, for tables built directly and through the production builders
// (ValueGridXsBuilder::from_geant/from_scaled, ValueGridLogBuilder::
// from_geant/from_range + ValueGridInserter, GenericGridBuilder).
//
// Memory safety is part of the property: every generated table is either the
// LAST item of an exactly-reserved backing vector (so that a read of
// value[size] is a heap-buffer-overflow under ASan) or is followed by a NaN
// sentinel (so that the read shows up as a NaN / wild value in the oracle).
#include <algorithm>
#include <cmath>
#include <memory>
#include <string>
#include <vector>

#include "caselog.hh"
#include "corecel/cont/Span.hh"
#include "corecel/data/Collection.hh"
#include "corecel/data/CollectionBuilder.hh"
#include "corecel/grid/UniformGrid.hh"
#include "corecel/grid/UniformGridData.hh"
#include "corecel/math/SoftEqual.hh"
#include "celeritas/Quantities.hh"
#include "celeritas/grid/EnergyLossCalculator.hh"
#include "celeritas/grid/GenericCalculator.hh"
#include "celeritas/grid/GenericGridBuilder.hh"
#include "celeritas/grid/GenericGridData.hh"
#include "celeritas/grid/InverseRangeCalculator.hh"
#include "celeritas/grid/RangeCalculator.hh"
#include "celeritas/grid/ValueGridBuilder.hh"
#include "celeritas/grid/ValueGridInserter.hh"
#include "celeritas/grid/XsCalculator.hh"
#include "celeritas/grid/XsGridData.hh"

namespace verif
{
char const* const kPropertyId = "C14";
char const* const kHarness = "c14_calc";
size_t const kMaxBytes = 224;
char const* const kRule
    = "byte string -> (calculator kind, construction path, uniform log grid "
      "2..200 knots / log-width 0.1..30, table shape smooth|rough|zeros-low|"
      "zeros-high|const over 1e-30..1e30, prime_index none|0|interior|last, "
      "storage layout table-at-end|NaN-sentinel, 4..16 queries aimed at "
      "exp(knot) and its +-1,+-2 (sometimes +-300) ulp neighbours for first/"
      "last/prime/random knots, at log-space ulp neighbours of both grid "
      "ends, inside bins, below and above the grid); oracle = long double "
      "piecewise reference on the same knots with the conditioning-aware "
      "tolerance tau; non-trivial = at least one judged query within 2 ulp "
      "of a knot or grid end";
void setup() {}

namespace
{
using namespace celeritas;
using ld = long double;
using HostVals = Collection<real_type, Ownership::value, MemSpace::host>;
using HostRef
    = Collection<real_type, Ownership::const_reference, MemSpace::host>;
using HostGrids = Collection<XsGridData, Ownership::value, MemSpace::host>;
using MevEnergy = units::MevEnergy;
constexpr double eps = 2.220446049250313e-16;
// Knot/misbin relative displacement is bounded by ~3 eps c (c = 1 + |front| +
// |back|); slopes of a neighbouring bin are admitted into tau when the query
// lies within kNear eps c (relative) of the shared knot.
constexpr double kNear = 256;
constexpr double kTauSlope = 64;  // design: 64 eps (1 + |ln E|) E |slope|
constexpr double kTauMag = 8;  // design: 8 eps |y|

char const* const kNegKey = "F16-xs-negative-within-rounding";

uint64_t splitmix(uint64_t& s)
{
    uint64_t z = (s += 0x9e3779b97f4a7c15ull);
    z = (z ^ (z >> 30)) * 0xbf58476d1ce4e5b9ull;
    z = (z ^ (z >> 27)) * 0x94d049bb133111ebull;
    return z ^ (z >> 31);
}

std::string fmt(ld v)
{
    char buf[64];
    std::snprintf(buf, sizeof buf, "%.17Lg", v);
    return buf;
}

//---------------------------------------------------------------------------//
// Reference model of an XsGridData (the *input definition*): true knots are
// exp(front + delta i) in long double, the last one exp(back).
struct Model
{
    int n = 0;
    long p = -1;  // prime index, -1 = none
    bool range_mode = false;  // sqrt(E) scaling below, clamp above
    double front = 0, back = 0, delta = 0;
    double c = 1;
    std::vector<double> raw;  // stored values
    std::vector<ld> E;  // true knot energies

    void finish()
    {
        E.resize(n);
        for (int i = 0; i < n; ++i)
            E[i] = expl((ld)front + (ld)delta * i);
        E[n - 1] = expl((ld)back);
        c = 1 + std::fabs(front) + std::fabs(back);
    }
    bool scaled(int i) const { return p >= 0 && i >= p; }
    ld y(int i) const { return scaled(i) ? raw[i] / E[i] : (ld)raw[i]; }

    // -1 below (e <= E0), n-1 above (e >= E[n-1]), else bin index
    int region(double e) const
    {
        if ((ld)e <= E[0])
            return -1;
        if ((ld)e >= E[n - 1])
            return n - 1;
        int k = int(std::upper_bound(E.begin(), E.end(), (ld)e) - E.begin())
                - 1;
        return std::min(std::max(k, 0), n - 2);
    }

    ld value(int r, double e) const
    {
        if (r < 0)
        {
            if (range_mode)
                return raw[0] * sqrtl((ld)e / E[0]);
            return scaled(0) ? raw[0] / (ld)e : (ld)raw[0];
        }
        if (r >= n - 1)
            return scaled(n - 1) ? raw[n - 1] / (ld)e : (ld)raw[n - 1];
        ld t = ((ld)e - E[r]) / (E[r + 1] - E[r]);
        if (scaled(r))
            return (raw[r] + ((ld)raw[r + 1] - raw[r]) * t) / (ld)e;
        ld yl = raw[r], yr = y(r + 1);
        return yl + (yr - yl) * t;
    }

    // bound of E |df/dE| over the region, and of the operand magnitudes
    void slope_mag(int r, double e, ld& S, ld& M) const
    {
        ld s = 0, m = 0;
        if (r < 0)
        {
            m = fabsl(value(r, e));
            s = range_mode ? m / 2 : (scaled(0) ? m : 0);
        }
        else if (r >= n - 1)
        {
            m = fabsl(value(r, e));
            s = scaled(n - 1) ? m : 0;
        }
        else if (scaled(r))
        {
            ld ms = fabsl((ld)raw[r + 1] - raw[r]) / (E[r + 1] - E[r]);
            m = std::max(raw[r] / E[r], raw[r + 1] / E[r]);  // /e <= /E[r]
            s = ms + m;
        }
        else
        {
            ld yl = raw[r], yr = y(r + 1);
            s = (ld)e * fabsl(yr - yl) / (E[r + 1] - E[r]);
            m = std::max(fabsl(yl), fabsl(yr));
            // the upper knot is stored E-scaled (r + 1 == prime): its
            // unscaled value raw/exp(knot) inherits the knot's eps*c error
            if (scaled(r + 1))
                s += fabsl(yr);
        }
        S = std::max(S, s);
        M = std::max(M, m);
    }

    struct Ref
    {
        ld v, tau, lo, hi;
        int region;
    };

    Ref eval(double e) const
    {
        Ref r;
        r.region = region(e);
        r.v = value(r.region, e);
        ld S = 0, M = 0;
        slope_mag(r.region, e, S, M);
        ld w = kNear * eps * c * (ld)e;
        if (r.region >= 0 && (ld)e - E[r.region] <= w)
            slope_mag(r.region - 1, e, S, M);
        if (r.region <= n - 2 && E[r.region + 1] - (ld)e <= w)
            slope_mag(r.region + 1, e, S, M);
        r.tau = kTauSlope * eps * c * S + kTauMag * eps * M;
        // betweenness interval (unscaled knot values of the bin)
        if (r.region < 0 || r.region >= n - 1)
            r.lo = r.hi = r.v;
        else
        {
            ld a = y(r.region), b = y(r.region + 1);
            r.lo = std::min(a, b);
            r.hi = std::max(a, b);
        }
        return r;
    }
};

//---------------------------------------------------------------------------//
// Backing storage with the table placed so that an overrun is observable
struct Store
{
    HostVals reals;
    HostGrids grids;
    HostRef ref;
    bool at_end = true;
    int pad = 0;

    void begin(int pad_, int n_total, bool at_end_)
    {
        pad = pad_;
        at_end = at_end_;
        auto b = make_builder(&reals);
        b.reserve(pad + n_total);  // exact: the heap block ends at the table
        std::vector<double> padv(pad, std::nan(""));
        b.insert_back(padv.begin(), padv.end());
    }
    void finish()
    {
        if (!at_end)
            make_builder(&reals).push_back(std::nan(""));
        ref = reals;
    }
};

//---------------------------------------------------------------------------//
struct TableGen
{
    int shape = 0;
    char const* shape_label = "";
};

// n non-negative "unscaled" values on the knots (lnE relative to front)
std::vector<double> gen_values(Choices& c,
                               CaseLog& log,
                               int n,
                               double delta,
                               bool positive_only,
                               double lo,
                               double hi,
                               TableGen& tg)
{
    std::vector<double> y(n);
    int shape = positive_only ? int(c.pick({3, 3, 0, 0, 1}))
                              : int(c.pick({3, 3, 2, 1, 1}));
    tg.shape = shape;
    static char const* const names[]
        = {"shape-smooth", "shape-rough", "shape-zeros-low", "shape-zeros-high",
           "shape-const"};
    tg.shape_label = names[shape];
    double A = c.log_uniform(lo, hi);
    uint64_t seed = c.bits(4);
    bool direct = n <= 12;
    auto u01 = [&]() {
        return direct ? c.unit16() : double(splitmix(seed) >> 11) / 9007199254740992.0;
    };
    if (shape == 0)
    {
        double a = c.real_in(-2, 2), w = c.real_in(0, 3), ph = c.real_in(0, 6.3);
        for (int i = 0; i < n; ++i)
        {
            double x = delta * i;
            y[i] = A * std::exp(a * x) * (1 + 0.5 * std::sin(w * x + ph));
        }
    }
    else if (shape == 4)
    {
        for (int i = 0; i < n; ++i)
            y[i] = A;
    }
    else
    {
        static double const spans[] = {0.1, 1, 6, 12};
        double span = spans[c.int_in(0, positive_only ? 2 : 3)];
        for (int i = 0; i < n; ++i)
            y[i] = A * std::pow(10.0, span * (u01() - 0.5));
        if (shape == 2)
        {
            int z = int(c.int_in(1, n - 1));
            for (int i = 0; i < z; ++i)
                y[i] = 0;
        }
        else if (shape == 3)
        {
            int z = int(c.int_in(1, n - 1));
            for (int i = z; i < n; ++i)
                y[i] = 0;
        }
    }
    for (int i = 0; i < n; ++i)
    {
        if (!(y[i] >= 0) || !std::isfinite(y[i]))
            y[i] = A;
        if (positive_only && !(y[i] > 0))
            y[i] = A;
        log.mix(y[i]);
    }
    return y;
}

struct GridGen
{
    int n;
    double emin, front, back;
};

GridGen gen_grid(Choices& c, CaseLog& log, int min_n)
{
    GridGen g;
    switch (c.pick({5, 3, 1}))
    {
        case 0: g.n = int(c.int_in(min_n, 8)); break;
        case 1: g.n = int(c.int_in(9, 40)); break;
        default: g.n = int(c.int_in(41, 200)); break;
    }
    g.emin = c.log_uniform(1e-6, 1e2);
    double width = c.boolean(0.5) ? c.real_in(0.1, 30)
                                  : c.log_uniform(0.1, 30);
    g.front = std::log(g.emin);
    g.back = g.front + width;
    log.mix(g.n);
    log.mix(g.front);
    log.mix(g.back);
    return g;
}

//---------------------------------------------------------------------------//
// Query energies for a log grid
struct Query
{
    double e;
    bool near;  // within 2 ulp of a knot / end
};

Query gen_query(Choices& c, CaseLog& log, Model const& m)
{
    Query q{1.0, false};
    int n = m.n;
    switch (c.pick({10, 3, 3, 1, 1}))
    {
        case 0: {
            int k;
            switch (c.int_in(0, 5))
            {
                case 0: k = 0; break;
                case 1: k = n - 1; break;
                case 2: k = n - 2; break;
                case 3:
                    k = m.p >= 0 ? int(std::min<long>(
                            n - 1, std::max<long>(0, m.p + c.int_in(0, 2) - 1)))
                                 : int(c.int_in(0, n - 1));
                    log.count("q_prime_knot", m.p >= 0);
                    break;
                default: k = int(c.int_in(0, n - 1)); break;
            }
            double base = c.boolean(0.5)
                              ? std::exp(m.front + m.delta * k)  // code-style
                              : double(m.E[k]);
            if (c.boolean(0.75))
            {
                q.e = c.ulp_neighbour(base, 2);
                q.near = true;
                log.count("q_knot_pm2ulp");
            }
            else
            {
                int j = int(c.log_uniform(3, 300));
                q.e = Choices::step_ulps(base, c.boolean(0.5) ? j : -j);
                log.count("q_knot_pm300ulp");
            }
            break;
        }
        case 1: {
            // neighbours of the grid ends in LOG space (what find() sees)
            double x;
            if (c.boolean(0.7))
            {
                x = Choices::step_ulps(m.back, -int(c.int_in(0, 4)));
                log.count("q_logspace_back");
            }
            else
            {
                x = Choices::step_ulps(m.front, int(c.int_in(0, 4)));
                log.count("q_logspace_front");
            }
            q.e = c.ulp_neighbour(std::exp(x), 2);
            q.near = true;
            break;
        }
        case 2:
            q.e = std::exp(m.front + (m.back - m.front) * c.unit53());
            log.count("q_inside");
            break;
        case 3:
            q.e = std::exp(m.front - c.log_uniform(1e-3, 7));
            log.count("q_below");
            break;
        default:
            q.e = std::exp(m.back + c.log_uniform(1e-3, 7));
            log.count("q_above");
            break;
    }
    if (!(q.e > 0) || !std::isfinite(q.e))
        q.e = std::exp(m.front);
    log.mix(q.e);
    return q;
}

//---------------------------------------------------------------------------//
// Judge one calculator result against the reference
// returns 0 ok, 1 violation (msg set), 2 known-class negative
int judge(Model const& m,
          double e,
          double got,
          char const* what,
          std::string& msg,
          CaseLog& log)
{
    auto r = m.eval(e);
    auto head = [&] {
        return std::string(what) + " at E=" + fmt(e) + " (region "
               + std::to_string(r.region) + " of n=" + std::to_string(m.n)
               + ", prime=" + std::to_string(m.p) + "): got " + fmt(got)
               + ", reference " + fmt(r.v) + ", tau " + fmt(r.tau);
    };
    if (std::isnan(got) || std::isinf(got))
    {
        msg = head() + " -> not finite";
        return 1;
    }
    if (fabsl((ld)got - r.v) > r.tau)
    {
        msg = head() + " -> differs from the long double reference by "
              + fmt(fabsl((ld)got - r.v));
        return 1;
    }
    if ((ld)got < r.lo - r.tau || (ld)got > r.hi + r.tau)
    {
        msg = head() + " -> outside the knot interval [" + fmt(r.lo) + ", "
              + fmt(r.hi) + "]";
        return 1;
    }
    if (got < 0)
    {
        // inside tau of the reference but strictly negative
        msg = head() + " -> NEGATIVE value (within rounding distance tau of "
                       "the reference)";
        return 2;
    }
    if (r.region >= 0 && r.region < m.n - 1)
        log.count("judged_inside");
    else
        log.count("judged_extrapolated");
    return 0;
}

//---------------------------------------------------------------------------//
// Preconditions of the builders (they are CELER_EXPECTs, i.e. unchecked in
// this build): evaluated here so that only in-contract inputs are passed.
bool log_spaced(std::vector<double> const& v)
{
    if (v.size() < 2)
        return false;
    double d = std::pow(v.back() / v.front(), 1.0 / (v.size() - 1));
    for (size_t i = 0; i + 1 < v.size(); ++i)
        if (!soft_equal(d, v[i + 1] / v[i]))
            return false;
    return true;
}

//---------------------------------------------------------------------------//
Verdict k_loggrid(Choices& c, CaseLog& log, int kind)
{
    // kind 0: xs, 1: eloss (no scaling, log builder), 2: range + inverse
    bool const is_range = kind == 2;
    GridGen g = gen_grid(c, log, 2);
    int n = g.n;
    // construction path
    // 0 direct, 1 builder (xs: from_geant / from_scaled; eloss: Log::
    // from_geant; range: Log::from_range)
    bool via_builder = c.boolean(0.5);
    int pad = int(c.int_in(0, 3));
    bool at_end = c.boolean(0.5);
    log.label(at_end ? "layout-table-at-end" : "layout-nan-sentinel");

    // user energies as Geant4 would tabulate them
    std::vector<double> eu(n);
    double du = (g.back - g.front) / (n - 1);
    for (int i = 0; i < n; ++i)
        eu[i] = std::exp(g.front + du * i);
    eu[0] = g.emin;

    Model m;
    m.n = n;
    m.range_mode = is_range;
    TableGen tg;
    std::vector<double> y;
    if (!is_range)
    {
        y = gen_values(c, log, n, du, false, 1e-30, 1e30, tg);
    }
    else
    {
        // dE/dx > 0 on the knots; range = r0 + trapezoid integral of 1/dedx
        auto dedx = gen_values(c, log, n, du, true, 1e-6, 1e6, tg);
        y.resize(n);
        y[0] = c.log_uniform(0.25, 4) * eu[0] / dedx[0];
        for (int i = 1; i < n; ++i)
        {
            double inc = 0.5 * (eu[i] - eu[i - 1])
                         * (1 / dedx[i] + 1 / dedx[i - 1]);
            double v = y[i - 1] + inc;
            y[i] = v > y[i - 1] ? v : std::nextafter(y[i - 1], INFINITY);
        }
        if (!std::isfinite(y[n - 1]) || !(y[0] > 0))
            return Verdict::trivial;
    }
    log.label(tg.shape_label);

    // prime index
    long p = -1;
    if (kind == 0)
    {
        switch (c.pick({2, 2, 3, 1}))
        {
            case 0: p = -1; break;
            case 1: p = 0; break;
            case 2: p = n >= 3 ? long(c.int_in(1, n - 2)) : 0; break;
            default: p = n - 1; break;
        }
    }
    log.mix(p);

    Store st;
    XsGridData grid;
    char const* path = "path-direct";
    bool built = false;
    if (via_builder)
    {
        try
        {
            std::unique_ptr<ValueGridBuilder> b;
            std::vector<double> expect_raw;
            long expect_p = -1;
            if (kind == 0 && p >= 1 && p <= n - 2)
            {
                std::vector<double> e_lo(eu.begin(), eu.begin() + p + 1),
                    e_hi(eu.begin() + p, eu.end()),
                    l_lo(y.begin(), y.begin() + p + 1), l_hi;
                for (int i = int(p); i < n; ++i)
                    l_hi.push_back(y[i] * eu[i]);
                double dlo = std::pow(e_lo.back() / e_lo.front(),
                                      1.0 / (e_lo.size() - 1)),
                       dhi = std::pow(e_hi.back() / e_hi.front(),
                                      1.0 / (e_hi.size() - 1));
                double lem = std::log(eu[0]), lep = std::log(eu[p]),
                       lex = std::log(eu[n - 1]);
                bool ok = log_spaced(e_lo) && log_spaced(e_hi)
                          && soft_equal(l_lo.back(), l_hi.front() / e_hi.front())
                          && soft_equal(dlo, dhi)
                          && soft_mod(lep - lem, (lex - lem) / (n - 1));
                if (ok)
                {
                    b = ValueGridXsBuilder::from_geant(make_span(e_lo),
                                                       make_span(l_lo),
                                                       make_span(e_hi),
                                                       make_span(l_hi));
                    expect_raw.assign(l_lo.begin(), l_lo.end() - 1);
                    expect_raw.insert(expect_raw.end(), l_hi.begin(), l_hi.end());
                    expect_p = p;
                    path = "path-xs-from_geant";
                }
            }
            else if (kind == 0 && p == 0)
            {
                std::vector<double> l_hi(n);
                for (int i = 0; i < n; ++i)
                    l_hi[i] = y[i] * eu[i];
                if (log_spaced(eu))
                {
                    b = ValueGridXsBuilder::from_scaled(make_span(eu),
                                                        make_span(l_hi));
                    expect_raw = l_hi;
                    expect_p = 0;
                    path = "path-xs-from_scaled";
                }
            }
            else if (kind == 1 && log_spaced(eu))
            {
                b = ValueGridLogBuilder::from_geant(make_span(eu), make_span(y));
                expect_raw = y;
                path = "path-log-from_geant";
            }
            else if (kind == 2 && log_spaced(eu))
            {
                b = ValueGridLogBuilder::from_range(make_span(eu), make_span(y));
                expect_raw = y;
                path = "path-log-from_range";
            }
            if (b)
            {
                st.begin(pad, n, at_end);
                ValueGridInserter ins(&st.reals, &st.grids);
                auto id = b->build(ins);
                if (!id || id.get() != 0 || st.grids.size() != 1)
                    return log.fail("builder returned an invalid grid id");
                grid = st.grids[id];
                st.finish();
                // the built record must be the input
                if (!grid)
                    return log.fail("built XsGridData is not valid");
                if (grid.log_energy.size != size_type(n)
                    || grid.log_energy.front != std::log(eu[0])
                    || grid.log_energy.back != std::log(eu[n - 1]))
                    return log.fail("built log-energy grid differs from "
                                    "log(emin), log(emax), size of the input");
                long gp = grid.prime_index == XsGridData::no_scaling()
                              ? -1
                              : long(grid.prime_index);
                if (gp != expect_p)
                    return log.fail(
                        "built prime_index " + std::to_string(gp)
                        + " differs from the index of the coincident point "
                        + std::to_string(expect_p));
                if (grid.value.size() != size_type(n))
                    return log.fail("built value range has wrong size");
                for (int i = 0; i < n; ++i)
                    if (st.ref[grid.value[i]] != expect_raw[i])
                        return log.fail("built values differ from the input");
                if (int((*grid.value.begin()).get()) != pad)
                    return log.fail("built values not appended at the end");
                built = true;
            }
            else if (via_builder)
                log.count("builder_precondition_unmet");
        }
        catch (RuntimeError const&)
        {
            log.label("builder-rejected");
            return Verdict::rejected;
        }
    }
    if (!built)
    {
        path = "path-direct";
        grid.log_energy = UniformGridData::from_bounds(g.front, g.back, n);
        grid.prime_index = p < 0 ? XsGridData::no_scaling() : size_type(p);
        std::vector<double> raw(y);
        for (int i = 0; i < n; ++i)
            if (p >= 0 && i >= p)
                raw[i] = y[i] * eu[i];
        st.begin(pad, n, at_end);
        grid.value = make_builder(&st.reals).insert_back(raw.begin(), raw.end());
        st.finish();
        if (!grid)
            return log.fail("directly built XsGridData is not valid");
    }
    log.label(path);
    log.label(kind == 0 ? "calc-xs" : kind == 1 ? "calc-eloss" : "calc-range");
    if (kind == 0)
        log.label(p < 0 ? "prime-none"
                        : p == 0 ? "prime-0"
                                 : p == n - 1 ? "prime-last" : "prime-interior");
    log.label(n <= 8 ? "n-2..8" : n <= 40 ? "n-9..40" : "n-41..200");

    // reference model from the record under test
    m.front = grid.log_energy.front;
    m.back = grid.log_energy.back;
    m.delta = grid.log_energy.delta;
    m.p = grid.prime_index == XsGridData::no_scaling() ? -1
                                                        : long(grid.prime_index);
    m.raw.resize(n);
    for (int i = 0; i < n; ++i)
        m.raw[i] = st.ref[grid.value[i]];
    m.finish();
    if (log.want_desc)
    {
        log.ds("calc", kind == 0 ? "xs" : kind == 1 ? "eloss" : "range");
        log.ds("path", path);
        log.d("n", n);
        log.d("front", m.front);
        log.d("back", m.back);
        log.d("prime", m.p);
        log.d("pad", pad);
        log.d("at_end", at_end);
        log.dv("raw", m.raw.data(), std::min(n, 16));
    }
    {
        ld d_exact = ((ld)m.back - m.front) / (n - 1);
        if (fabsl(m.delta - d_exact) > 2 * eps * d_exact)
            return log.fail("UniformGridData delta != (back-front)/(size-1)");
    }

    int nq = int(c.int_in(4, 16));
    long near = 0;
    std::string msg;
    bool neg_seen = false;
    std::string neg_msg;

    if (!is_range)
    {
        XsCalculator calc(grid, st.ref);
        // accessors
        if (calc.energy_min().value() != std::exp(m.front)
            || calc.energy_max().value() != std::exp(m.back))
            return log.fail("energy_min/energy_max != exp(front/back)");
        {
            int i = int(c.int_in(0, n - 1));
            double got = calc[i];
            ld want = m.y(i);
            if (std::isnan(got)
                || fabsl(got - want) > 8 * eps * m.c * fabsl(want))
                return log.fail("XsCalculator::operator[] differs from the "
                                "unscaled tabulated value");
        }
        for (int qi = 0; qi < nq; ++qi)
        {
            Query q = gen_query(c, log, m);
            if (log.want_desc)
                log.d("E", fmt(q.e));
            double got = calc(MevEnergy{q.e});
            int rc = judge(m,
                           q.e,
                           got,
                           kind == 0 ? "XsCalculator" : "EnergyLossCalculator",
                           msg,
                           log);
            if (rc == 1)
                return log.fail(msg);
            if (rc == 2 && !neg_seen)
            {
                neg_seen = true;
                neg_msg = msg;
            }
            near += q.near;
        }
    }
    else
    {
        RangeCalculator rcalc(grid, st.ref);
        InverseRangeCalculator icalc(grid, st.ref);
        struct Pt
        {
            double x, v;
            ld tau;
        };
        std::vector<Pt> rpts, ipts;
        double rback = m.raw[n - 1];
        for (int qi = 0; qi < nq; ++qi)
        {
            Query q = gen_query(c, log, m);
            if (log.want_desc)
                log.d("E", fmt(q.e));
            double r = rcalc(MevEnergy{q.e});
            int rc = judge(m, q.e, r, "RangeCalculator", msg, log);
            if (rc == 1)
                return log.fail(msg);
            if (rc == 2)
                return log.fail(msg);  // ranges are strictly positive
            auto ref = m.eval(q.e);
            rpts.push_back({q.e, r, ref.tau});
            near += q.near;

            // --- inverse at the computed range (round trip) and at an
            //     independently chosen range
            for (int which = 0; which < 2; ++which)
            {
                double rr;
                if (which == 0)
                    rr = r;
                else
                {
                    switch (c.pick({3, 2, 1, 1}))
                    {
                        case 0: {
                            int k = int(c.int_in(0, n - 1));
                            rr = c.ulp_neighbour(m.raw[k], 2);
                            log.count("q_range_knot_pm2ulp");
                            break;
                        }
                        case 1:
                            rr = m.raw[0]
                                 + (rback - m.raw[0]) * c.unit53();
                            log.count("q_range_inside");
                            break;
                        case 2:
                            rr = m.raw[0] * c.unit53();
                            log.count("q_range_below");
                            break;
                        default:
                            rr = rback;
                            log.count("q_range_back");
                            break;
                    }
                    log.mix(rr);
                }
                if (!(rr >= 0 && rr <= rback))
                {
                    if (which == 0)
                        log.count("range_exceeds_table_back_by_rounding");
                    continue;  // precondition of InverseRangeCalculator
                }
                double ei = icalc(rr).value();
                // reference
                ld want, tol;
                int k = -1;
                if (rr < m.raw[0])
                {
                    ld s = (ld)rr / m.raw[0];
                    want = m.E[0] * s * s;
                    tol = 16 * eps * m.c * want;
                }
                else if (rr >= rback)
                {
                    want = m.E[n - 1];
                    tol = 16 * eps * m.c * want;
                    k = n - 1;
                }
                else
                {
                    k = int(std::upper_bound(m.raw.begin(), m.raw.end(), rr)
                            - m.raw.begin())
                        - 1;
                    ld t = ((ld)rr - m.raw[k])
                           / ((ld)m.raw[k + 1] - m.raw[k]);
                    want = m.E[k] + (m.E[k + 1] - m.E[k]) * t;
                    tol = 16 * eps * m.c * m.E[k + 1];
                }
                if (std::isnan(ei) || std::isinf(ei) || ei < 0)
                    return log.fail("InverseRangeCalculator(" + fmt(rr)
                                    + ") = " + fmt(ei)
                                    + " is not finite non-negative");
                if (fabsl(ei - want) > tol)
                    return log.fail(
                        "InverseRangeCalculator(" + fmt(rr) + ") = " + fmt(ei)
                        + " differs from the long double reference "
                        + fmt(want) + " by more than " + fmt(tol));
                if (k >= 0 && k < n - 1
                    && (ei < m.E[k] - tol || ei > m.E[k + 1] + tol))
                    return log.fail("InverseRangeCalculator result outside "
                                    "the knot energies of its bin");
                ipts.push_back({rr, ei, tol});
                if (which == 0)
                {
                    // round trip E -> r -> E' for E inside the table, with
                    // the conditioning of the inverse: dE/dr of the bins
                    // adjacent to E
                    if (ref.region >= 0 && ref.region < n - 1)
                    {
                        ld cond = 0;
                        ld dr = ref.tau + 2 * eps * r;
                        int jlo = std::max(0, ref.region - 1),
                            jhi = std::min(n - 2, ref.region + 1);
                        while (jlo > 0 && (ld)m.raw[jlo] >= (ld)r - dr)
                            --jlo;
                        while (jhi < n - 2 && (ld)m.raw[jhi + 1] <= (ld)r + dr)
                            ++jhi;
                        for (int j = jlo; j <= jhi; ++j)
                            cond = std::max(
                                cond,
                                (m.E[j + 1] - m.E[j])
                                    / ((ld)m.raw[j + 1] - m.raw[j]));
                        ld rt = 2 * (ref.tau + 2 * eps * r) * cond + 2 * tol;
                        if (fabsl((ld)ei - q.e) > rt)
                            return log.fail(
                                "InverseRange(Range(E)) != E: E=" + fmt(q.e)
                                + " range=" + fmt(r) + " back=" + fmt(ei)
                                + " allowed " + fmt(rt));
                        log.count("roundtrip_E_r_E");
                    }
                }
                else if (rr >= m.raw[0] * 1e-3)
                {
                    // round trip r -> E -> r'
                    double r2 = rcalc(MevEnergy{ei});
                    if (ei > 0)
                    {
                        auto ref2 = m.eval(ei);
                        // slope dr/dE at E times the error of E
                        ld S = 0, M = 0;
                        m.slope_mag(ref2.region, ei, S, M);
                        if (ref2.region > 0)
                            m.slope_mag(ref2.region - 1, ei, S, M);
                        if (ref2.region < n - 1)
                            m.slope_mag(ref2.region + 1, ei, S, M);
                        ld rt = 2 * (ref2.tau + S * tol / ei) + 4 * eps * rr;
                        if (std::isnan(r2) || fabsl((ld)r2 - rr) > rt)
                            return log.fail(
                                "Range(InverseRange(r)) != r: r=" + fmt(rr)
                                + " E=" + fmt(ei) + " back=" + fmt(r2)
                                + " allowed " + fmt(rt));
                        log.count("roundtrip_r_E_r");
                    }
                }
            }
        }
        // monotone on ordered query sequences
        auto by_x = [](Pt const& a, Pt const& b) { return a.x < b.x; };
        std::sort(rpts.begin(), rpts.end(), by_x);
        for (size_t i = 0; i + 1 < rpts.size(); ++i)
            if (rpts[i + 1].v < rpts[i].v - (rpts[i].tau + rpts[i + 1].tau))
                return log.fail("RangeCalculator not monotone: R("
                                + fmt(rpts[i].x) + ")=" + fmt(rpts[i].v)
                                + " > R(" + fmt(rpts[i + 1].x)
                                + ")=" + fmt(rpts[i + 1].v));
        std::sort(ipts.begin(), ipts.end(), by_x);
        for (size_t i = 0; i + 1 < ipts.size(); ++i)
            if (ipts[i + 1].v < ipts[i].v - (ipts[i].tau + ipts[i + 1].tau))
                return log.fail("InverseRangeCalculator not monotone: E("
                                + fmt(ipts[i].x) + ")=" + fmt(ipts[i].v)
                                + " > E(" + fmt(ipts[i + 1].x)
                                + ")=" + fmt(ipts[i + 1].v));
    }
    log.count("queries_near_knot", near);
    if (neg_seen)
        return log.fail(neg_msg, kNegKey);
    log.nontrivial = near > 0;
    return Verdict::pass;
}

//---------------------------------------------------------------------------//
Verdict k_generic(Choices& c, CaseLog& log)
{
    log.label("calc-generic");
    int n = c.boolean(0.7) ? int(c.int_in(2, 8)) : int(c.int_in(9, 40));
    log.mix(n);
    // strictly increasing x
    std::vector<double> x(n), y(n);
    bool logsp = c.boolean(0.5);
    double v = logsp ? c.log_uniform(1e-6, 1e2) : c.real_in(-100, 100);
    for (int i = 0; i < n; ++i)
    {
        x[i] = v;
        log.mix(v);
        double nv;
        if (c.boolean(0.1))
            nv = std::nextafter(v, INFINITY);
        else if (logsp)
            nv = v * (1 + c.log_uniform(1e-3, 10));
        else
            nv = v + c.log_uniform(1e-6, 1e3);
        v = nv > v ? nv : std::nextafter(v, INFINITY);
    }
    bool increasing = c.boolean(0.5);
    {
        double yy = c.signed_log_uniform(1e-10, 1e10);
        for (int i = 0; i < n; ++i)
        {
            if (increasing)
            {
                y[i] = yy;
                double inc = c.log_uniform(1e-6, 1e3) * (1 + std::fabs(yy));
                double ny = c.boolean(0.1) ? std::nextafter(yy, INFINITY)
                                           : yy + inc * 1e-3;
                yy = ny > yy ? ny : std::nextafter(yy, INFINITY);
            }
            else
                y[i] = c.boolean(0.1) ? 0.0 : c.signed_log_uniform(1e-10, 1e10);
            log.mix(y[i]);
        }
    }
    log.label(increasing ? "generic-increasing" : "generic-any");
    HostVals reals;
    GenericGridRecord rec;
    bool via_builder = c.boolean(0.4);
    bool at_end = c.boolean(0.5);
    int pad = int(c.int_in(0, 3));
    if (via_builder)
    {
        log.label("path-generic-builder");
        GenericGridBuilder build(&reals);
        rec = build(Span<double const>(x.data(), x.size()),
                    Span<double const>(y.data(), y.size()));
    }
    else
    {
        log.label("path-generic-direct");
        auto b = make_builder(&reals);
        b.reserve(pad + 2 * n);
        std::vector<double> padv(pad, std::nan(""));
        b.insert_back(padv.begin(), padv.end());
        if (at_end)
        {
            rec.grid = b.insert_back(x.begin(), x.end());
            rec.value = b.insert_back(y.begin(), y.end());
        }
        else
        {
            rec.value = b.insert_back(y.begin(), y.end());
            rec.grid = b.insert_back(x.begin(), x.end());
        }
    }
    HostRef ref;
    ref = reals;
    if (!rec || rec.grid.size() != size_type(n))
        return log.fail("GenericGridRecord invalid after construction");
    for (int i = 0; i < n; ++i)
        if (ref[rec.grid[i]] != x[i] || ref[rec.value[i]] != y[i])
            return log.fail("GenericGridRecord does not hold the input");
    if (log.want_desc)
    {
        log.ds("calc", "generic");
        log.dv("x", x.data(), n);
        log.dv("y", y.data(), n);
    }
    GenericCalculator calc(rec, ref);
    auto reference = [&](std::vector<double> const& gx,
                         std::vector<double> const& gy,
                         double q,
                         ld& want,
                         ld& tol,
                         ld& lo,
                         ld& hi) {
        if (q <= gx.front())
        {
            want = lo = hi = gy.front();
            tol = 0;
        }
        else if (q >= gx.back())
        {
            want = lo = hi = gy.back();
            tol = 0;
        }
        else
        {
            int k = int(std::upper_bound(gx.begin(), gx.end(), q) - gx.begin())
                    - 1;
            ld t = ((ld)q - gx[k]) / ((ld)gx[k + 1] - gx[k]);
            want = gy[k] + ((ld)gy[k + 1] - gy[k]) * t;
            tol = 8 * eps * (fabsl(gy[k]) + fabsl(gy[k + 1]));
            lo = std::min(gy[k], gy[k + 1]);
            hi = std::max(gy[k], gy[k + 1]);
        }
    };
    auto gen_q = [&](std::vector<double> const& gx, bool& near) {
        near = false;
        switch (c.pick({6, 2, 1, 1}))
        {
            case 0: {
                int k;
                switch (c.int_in(0, 3))
                {
                    case 0: k = 0; break;
                    case 1: k = n - 1; break;
                    default: k = int(c.int_in(0, n - 1)); break;
                }
                near = true;
                return c.ulp_neighbour(gx[k], 2);
            }
            case 1:
                return gx.front() + (gx.back() - gx.front()) * c.unit53();
            case 2:
                return gx.front()
                       - c.log_uniform(1e-6, 1e3) * (1 + std::fabs(gx.front()));
            default:
                return gx.back()
                       + c.log_uniform(1e-6, 1e3) * (1 + std::fabs(gx.back()));
        }
    };
    int nq = int(c.int_in(4, 16));
    long near_n = 0;
    for (int qi = 0; qi < nq; ++qi)
    {
        bool near;
        double q = gen_q(x, near);
        log.mix(q);
        if (log.want_desc)
            log.d("x", fmt(q));
        double got = calc(q);
        ld want, tol, lo, hi;
        reference(x, y, q, want, tol, lo, hi);
        if (std::isnan(got) || fabsl(got - want) > tol || got < lo - tol
            || got > hi + tol)
            return log.fail("GenericCalculator(" + fmt(q) + ") = " + fmt(got)
                            + ", reference " + fmt(want) + " tol " + fmt(tol));
        near_n += near;
        if (increasing)
        {
            // inverse calculators: make_inverse and from_inverse
            bool nr;
            double qy = gen_q(y, nr);
            log.mix(qy);
            auto inv1 = calc.make_inverse();
            auto inv2 = GenericCalculator::from_inverse(rec, ref);
            double g1 = inv1(qy), g2 = inv2(qy);
            reference(y, x, qy, want, tol, lo, hi);
            if (std::isnan(g1) || g1 != g2 || fabsl(g1 - want) > tol
                || g1 < lo - tol || g1 > hi + tol)
                return log.fail("inverse GenericCalculator(" + fmt(qy)
                                + ") = " + fmt(g1) + " / " + fmt(g2)
                                + ", reference " + fmt(want));
            near_n += nr;
            log.count("generic_inverse_queries");
        }
    }
    {
        int i = int(c.int_in(0, n - 1));
        if (calc[i] != y[i] || calc.grid()[i] != x[i]
            || calc.grid().size() != size_type(n))
            return log.fail("GenericCalculator accessors differ");
    }
    log.count("queries_near_knot", near_n);
    log.nontrivial = near_n > 0;
    return Verdict::pass;
}

}  // namespace

Verdict run_case(Choices& c, CaseLog& log)
{
    int kind = int(c.pick({5, 2, 4, 1.5}));
    log.mix(kind);
    switch (kind)
    {
        case 0: return k_loggrid(c, log, 0);
        case 1: return k_loggrid(c, log, 1);
        case 2: return k_loggrid(c, log, 2);
        default: return k_generic(c, log);
    }
}

bool run_exhaustive(ExhaustiveResult&)
{
    return false;
}

}  // namespace verif
