// C05 — each track's step history is continuous and respects its step limits.
#include <cmath>
#include <cstring>
#include <map>
#include <sstream>

#include "caselog.hh"
#include "simcheck.hh"
#include "simrun.hh"
#include "celeritas/phys/PhysicsStepUtils.hh"

namespace verif
{
#ifdef VERIF_C08_ALONGSTEP
// The same history checker registered for C08 with every problem forced into
// a uniform-field along-step (PropagationApplier + FieldPropagator inside the
// stepping loop, incl. looping tracks in near-vacuum)
char const* const kPropertyId = "C08";
char const* const kHarness = "c08_alongstep";
size_t const kMaxBytes = 660;
char const* const kRule
    = "problems as for C01 forced into a uniform-field along-step (70 % "
      "without MSC; |B| log-uniform 0.05-10 T, random direction; 60 % with a "
      "near-vacuum first material so that e+- loop and are abandoned by the "
      "looping threshold); the C05 history checker runs on the step stream: "
      "post(k) == pre(k+1), 0 < length <= pre-step limit, chord <= length + "
      "documented field slack, displacement along B = length x pitch cosine "
      "(gyroradius > 0.05 cm), volumes == independent point location, volume "
      "changes only on boundary steps; non-trivial = >= 5 charged field steps "
      "checked against the pitch relation";
#else
char const* const kPropertyId = "C05";
char const* const kHarness = "c05_steps";
size_t const kMaxBytes = 640;
char const* const kRule
    = "problems and events as for C01 (generated geometry, materials, "
      "tables, cuts, along-step variant incl. MSC and uniform field, slots, "
      "track order); the step stream plus harness snapshots at user_start / "
      "user_pre / user_post (pre-step physics limit, status) are checked: "
      "post(k) == pre(k+1) bitwise, time/energy monotone, dt = len/v(E_pre), "
      "0 < length <= limit, displacement <= length, volumes == independent "
      "point location, volume changes only on boundary steps, status moves "
      "forward; straight steps move by length x direction, field steps "
      "(no MSC, gyroradius > 0.05 cm) move by length x pitch cosine along B; "
      "non-trivial = a track with >= 3 steps including a boundary "
      "crossing and a physics-limited step";
#endif

void setup()
{
    geosrc_setup();
}

namespace
{
using namespace sim;

struct Snap
{
    double limit = -1;  // physics step limit at user_pre
    int status_start = -1, status_pre = -1, status_post = -1;
    unsigned track = 0;
};

struct Snaps
{
    long const* call = nullptr;
    std::map<std::pair<long, int>, Snap> by_call_slot;
};

bool same_bits(double a, double b)
{
    return std::memcmp(&a, &b, sizeof(double)) == 0;
}

int leaf_volume(geo::Model const& m, geo::Path const& p)
{
    if (p.lv.empty() || p.lv.back().volume < 0)
        return -1;
    return m.vol_offset[p.lv.back().universe] + p.lv.back().volume;
}

}  // namespace

Verdict run_case(Choices& c, CaseLog& log)
{
    auto snaps = std::make_shared<Snaps>();
    auto snap_at = [snaps](int which) {
        return [snaps, which](CoreParams const& p,
                              CoreState<MemSpace::host>& st) {
            if (!snaps->call)
                return;
            for (auto i : range(TrackSlotId{st.size()}))
            {
                CoreTrackView t(p.host_ref(), st.ref(), i);
                auto sim = t.make_sim_view();
                auto status = sim.status();
                if (status == TrackStatus::inactive)
                    continue;
                Snap& s = snaps->by_call_slot[{*snaps->call, int(i.get())}];
                s.track = sim.track_id().get();
                if (which == 0)
                    s.status_start = int(status);
                else if (which == 1)
                {
                    s.status_pre = int(status);
                    s.limit = sim.step_length();
                }
                else
                    s.status_post = int(status);
            }
        };
    };
    // Injected RNG outcome ("mfp/boundary tie"): on one generated step of the
    // first primary the sampled number of mean free paths is replaced by the
    // value that puts the discrete interaction EXACTLY on the next boundary
    // (mfp = distance-to-boundary x macroscopic xs) and the physics limit is
    // recomputed with the code's own calc_physics_step_limit, exactly as
    // PreStepExecutor does after sampling.  This is a possible (measure-zero)
    // history that no RNG seed will ever produce on demand.
    struct Tie
    {
        bool enabled = false;
        int at_step = 0;  // number of steps already taken
        int ulps = 0;  // offset of the injected value from the exact tie
        bool done = false;
        bool linear = false;
        int remaining = 1;  // consecutive steps of the track to inject on
        bool negative_remainder = false;
        int all_budget = 0;  // injections left in the any-neutral-track mode
        bool constructive = false;  // search the ulp offset that leaves a
                                    // negative remainder after the step
    };
    auto tie = std::make_shared<Tie>();
    auto tie_hook = [tie](CoreParams const& cp, CoreState<MemSpace::host>& st) {
        // second mode: on ANY neutral track, whenever a floating-point
        // neighbour of the exact tie exists for which the limit still reaches
        // the boundary but distance*xs exceeds the mfp (the step is then
        // boundary-limited and leaves a tiny negative remainder), inject it
        for (auto i : range(TrackSlotId{st.size()}))
        {
            if (!tie->enabled || tie->all_budget <= 0)
                break;
            CoreTrackView t(cp.host_ref(), st.ref(), i);
            auto sim = t.make_sim_view();
            if (sim.status() != TrackStatus::alive)
                continue;
            auto particle = t.make_particle_view();
            if (!(particle.charge() == zero_quantity()))
                continue;
            auto pstep = t.make_physics_step_view();
            double xs = pstep.macro_xs();
            auto geo = t.make_geo_view();
            if (!(xs > 0) || geo.is_outside())
                continue;
            Propagation pr = geo.find_next_step();
            if (!pr.boundary || !(pr.distance > 0) || !std::isfinite(pr.distance))
                continue;
            for (int k : {-1, -2, -3, -4})
            {
                double m = Choices::step_ulps(pr.distance * xs, k);
                if (m > 0 && m / xs >= pr.distance && m - pr.distance * xs < 0)
                {
                    auto phys = t.make_physics_view();
                    phys.interaction_mfp(m);
                    auto mat = t.make_material_view();
                    sim.reset_step_limit(
                        calc_physics_step_limit(mat, particle, phys, pstep));
                    --tie->all_budget;
                    tie->done = true;
                    if (sim.step_length() >= pr.distance)
                        tie->negative_remainder = true;
                    break;
                }
            }
        }
        if (!tie->enabled || tie->remaining <= 0)
            return;
        for (auto i : range(TrackSlotId{st.size()}))
        {
            CoreTrackView t(cp.host_ref(), st.ref(), i);
            auto sim = t.make_sim_view();
            if (sim.status() != TrackStatus::alive || sim.track_id().get() != 0
                || sim.event_id().get() != 0
                || int(sim.num_steps()) < tie->at_step)
                continue;
            auto particle = t.make_particle_view();
            bool neutral = particle.charge() == zero_quantity();
            if (!neutral && !tie->linear)
                return;  // curved or MSC-converted steps cannot tie exactly
            auto pstep = t.make_physics_step_view();
            double xs = pstep.macro_xs();
            auto geo = t.make_geo_view();
            if (!(xs > 0) || geo.is_outside())
                return;
            Propagation pr = geo.find_next_step();
            if (!pr.boundary || !(pr.distance > 0) || !std::isfinite(pr.distance))
                return;
            auto phys = t.make_physics_view();
            // the exact tie and its floating-point neighbours: with -1/-2
            // ulp the limit may still round up to the boundary distance, and
            // the remaining mfp after the (boundary-limited) step is then a
            // tiny NEGATIVE number
            double mfp = Choices::step_ulps(pr.distance * xs, tie->ulps);
            if (tie->constructive)
            {
                // the neighbour (if any) for which the limit mfp/xs still
                // reaches the boundary while distance*xs exceeds mfp
                for (int k : {-1, -2, -3})
                {
                    double m = Choices::step_ulps(pr.distance * xs, k);
                    if (m > 0 && m / xs >= pr.distance
                        && m - pr.distance * xs < 0)
                    {
                        mfp = m;
                        break;
                    }
                }
            }
            if (!(mfp > 0) || !std::isfinite(mfp))
                return;
            phys.interaction_mfp(mfp);
            auto mat = t.make_material_view();
            sim.reset_step_limit(
                calc_physics_step_limit(mat, particle, phys, pstep));
            tie->done = true;
            --tie->remaining;
            if (mfp - pr.distance * xs < 0 && sim.step_length() >= pr.distance)
                tie->negative_remainder = true;
            if (std::getenv("VERIF_TIEDEBUG"))
                std::fprintf(stderr,
                             "TIE slot %d pdg-neutral %d d_b %.17g xs %.17g mfp "
                             "%.17g ulps %d limit %.17g action %d\n",
                             int(i.get()), int(neutral), pr.distance, xs, mfp,
                             tie->ulps, sim.step_length(),
                             int(sim.post_step_action().get()));
            return;
        }
    };
    std::vector<Hook> hooks = {
        {"verif-snap-start", StepActionOrder::user_start, snap_at(0)},
        // (registered before the snapshot so that the recorded pre-step limit
        // is the recomputed one)
        {"verif-mfp-tie", StepActionOrder::user_pre, tie_hook},
        {"verif-snap-pre", StepActionOrder::user_pre, snap_at(1)},
        {"verif-snap-post", StepActionOrder::user_post, snap_at(2)},
    };
    GenOptions opt;
    Problem p;
#ifdef VERIF_C08_ALONGSTEP
    Verdict v = setup_problem(c, log, opt, p, hooks, {}, [&](SimSpec& s) {
        if (!has_field(s.along))
        {
            s.along = c.boolean(0.7) ? AlongStep::uniform_field
                                     : AlongStep::uniform_field_msc;
            double dir[3];
            c.unit_vector(dir);
            double b = c.log_uniform(0.05, 10);
            for (int k = 0; k < 3; ++k)
                s.field[k] = b * dir[k];
            log.mix(b);
        }
        if (c.boolean(0.6))
        {
            s.materials[0].rel_density = c.log_uniform(1e-8, 1e-4);
            s.materials[0].number_density = 8.5e22 * s.materials[0].rel_density;
            log.mix(s.materials[0].rel_density);
            log.label("near-vacuum");
        }
    });
#else
    Verdict v = setup_problem(c, log, opt, p, hooks);
#endif
    if (v != Verdict::pass)
        return v;
    snaps->call = &p.w->rec->call;
    if (c.boolean(0.25))
    {
        tie->enabled = !std::getenv("VERIF_NOTIE");  // (debug aid)
        tie->at_step = int(c.int_in(0, 3));
        tie->ulps = int(c.int_in(0, 4)) - 2;
        tie->remaining = int(c.int_in(1, 3));
        tie->constructive = c.boolean(0.6);
        tie->all_budget = c.boolean(0.5) ? int(c.int_in(2, 16)) : 0;
        log.mix(tie->all_budget);
        log.mix(tie->ulps);
        log.mix(tie->remaining * 2 + int(tie->constructive));
        tie->linear = !has_field(p.spec.along) && !has_msc(p.spec.along);
        log.mix(tie->at_step);
    }
    v = run_all_events(p, log, 20000);
    if (tie->done)
        log.label("mfp-boundary-tie-injected");
    if (tie->negative_remainder)
        log.label("mfp-tie-negative-remainder");
    if (v != Verdict::pass)
        return v;
    World& w = *p.w;
    if (w.rec->has_nan)
        return log.fail("NaN in the step stream");
    int boundary_action = -1, range_action = -1, tracking_cut_action = -1;
    {
        auto const& reg = *w.core->action_reg();
        boundary_action = int(reg.find_action("geo-boundary").get());
        tracking_cut_action = int(reg.find_action("tracking-cut").get());
        (void)range_action;
    }
    GeoFixture& fix = *p.src.fix;
    auto events = split_events(w.rec->steps);
    long joined = 0, located = 0, rich_tracks = 0, limit_checked = 0,
         n_straight = 0, n_helix = 0;
    double c_light = constants::c_light;
    // Known finding F41: a step that is NOT limited by a boundary but ends
    // within the geometry tolerance of a surface (the physics limit ties with
    // the distance to the boundary to an ulp) leaves the navigator "inside"
    // while the position is already across; every later anomaly of that track
    // and of its descendants is a consequence.  Classifier: the track or one
    // of its ancestors has such a step (oracle: the end point is ambiguous).
    auto tie_in_history = [&](EventLog const& ev, unsigned track) {
        int guard = 0;
        long cur = long(track);
        while (cur >= 0 && guard++ < 64)
        {
            auto it = ev.tracks.find(unsigned(cur));
            if (it == ev.tracks.end())
                break;
            for (StepRec const* sp : it->second.steps)
            {
                if (sp->action == boundary_action)
                    continue;
                // only straight steps can tie exactly
                if (w.pdg[sp->particle] != 22 && has_field(p.spec.along))
                    continue;
                geo::V3 x{{sp->post.pos[0], sp->post.pos[1], sp->post.pos[2]}};
                geo::LD dl = geo::delta_at(fix.model, x);
                // a genuine (positive-length) step; a zero or negative
                // step is never a consequence of the tie
                if (!(sp->length > 0))
                    continue;
                if (geo::locate(fix.model, x, 4 * dl).ambiguous)
                    return true;
            }
            cur = it->second.parent;
        }
        return false;
    };
    EventLog const* cur_event = nullptr;
    unsigned cur_track = 0;
    auto fail = [&](std::string const& msg) {
        if (cur_event && tie_in_history(*cur_event, cur_track))
            return log.fail(msg
                                + " [after a physics-limited step that ended "
                                  "within tolerance of a boundary]",
                            "F41-step-end-within-tolerance-of-boundary");
        return log.fail(msg);
    };
    for (auto const& ek : events)
    {
        cur_event = &ek.second;
        for (auto const& tk : ek.second.tracks)
        {
            TrackLog const& t = tk.second;
            cur_track = tk.first;
            bool crossed = false, physlim = false, skip_track = false;
            double mass = w.mass[t.particle];
            for (size_t k = 0; k < t.steps.size(); ++k)
            {
                StepRec const& s = *t.steps[k];
                std::ostringstream id;
                id << "event " << s.event << " track " << s.track << " step "
                   << s.step_count << " (pdg " << w.pdg[s.particle]
                   << ", action " << s.action << ")";
                if (t.steps.size() == 1 && s.step_count == 0 && s.length == 0
                    && s.action == tracking_cut_action)
                {
                    // a track that could not be initialised (started outside
                    // / on a surface) is killed without taking a step; the
                    // collector reports a zero-length pseudo step
                    log.label("killed-at-initialisation");
                    skip_track = true;
                    break;
                }
                if (s.step_count != k + 1)
                    return fail(id.str() + ": step counts are not "
                                    "consecutive from 1");
                // join-up with the next step
                if (k + 1 < t.steps.size())
                {
                    StepRec const& n = *t.steps[k + 1];
                    bool ok = same_bits(s.post.energy, n.pre.energy)
                              && same_bits(s.post.time, n.pre.time)
                              && s.post.volume == n.pre.volume;
                    for (int a = 0; a < 3; ++a)
                        ok = ok && same_bits(s.post.pos[a], n.pre.pos[a]);
                    if (!ok)
                    {
                        std::ostringstream m;
                        m.precision(17);
                        m << id.str()
                          << ": post-step state is not the next pre-step "
                             "state: E "
                          << s.post.energy << " vs " << n.pre.energy << ", t "
                          << s.post.time << " vs " << n.pre.time << ", vol "
                          << s.post.volume << " vs " << n.pre.volume
                          << ", x " << s.post.pos[0] << " vs " << n.pre.pos[0];
                        return fail(m.str());
                    }
                    ++joined;
                }
                // monotone time / energy
                if (s.post.time < s.pre.time)
                    return fail(id.str() + ": time decreases");
                if (s.post.energy > s.pre.energy)
                    return fail(id.str() + ": kinetic energy increases");
                // step length
                bool stopped = (s.pre.energy == 0);
                if (!(s.length > 0) && !(stopped && s.length == 0))
                {
                    std::ostringstream m;
                    m << id.str() << ": step length " << s.length
                      << " with pre-step energy " << s.pre.energy;
                    return fail(m.str());
                }
                // time increment = length / v(E_pre)
                {
                    double e = s.pre.energy;
                    double beta = mass > 0 ? std::sqrt(e * (e + 2 * mass))
                                                 / (e + mass)
                                           : 1.0;
                    double expect = beta > 0 ? s.length / (beta * c_light) : 0;
                    double dt = s.post.time - s.pre.time;
                    double tol = 1e-9 * expect + 4e-16 * std::fabs(s.post.time);
                    if (std::fabs(dt - expect) > tol)
                    {
                        std::ostringstream m;
                        m.precision(12);
                        m << id.str() << ": time step " << dt
                          << " s != length/speed(E_pre) = " << expect
                          << " s (length " << s.length << ", E_pre " << e
                          << ")";
                        return fail(m.str());
                    }
                }
                // displacement <= length
                {
                    double d2 = 0;
                    for (int a = 0; a < 3; ++a)
                        d2 += (s.post.pos[a] - s.pre.pos[a])
                              * (s.post.pos[a] - s.pre.pos[a]);
                    double d = std::sqrt(d2);
                    double slack = 1e-10 * s.length
                                   + 1e-13 * (fix.scale + std::fabs(s.pre.pos[0]));
                    // FieldPropagator documents that at a boundary the
                    // position may deviate from the curved path by a driver
                    // tolerance and that the reported distance is reduced
                    // conservatively: allow delta_intersection (default
                    // 1e-4 mm) there
                    // and the driver integrates with a relative position
                    // error up to epsilon_rel_max = 1e-3 per (sub)step
                    if (has_field(p.spec.along))
                        slack += 1e-4 * units::millimeter + 1e-3 * s.length;
                    // field + MSC: the lateral displacement is applied
                    // perpendicular to the *initial* direction of a curved
                    // path, so chord and displacement are not orthogonal;
                    // the bound is not claimed there (counted, not judged)
                    if (has_field(p.spec.along) && has_msc(p.spec.along))
                        slack = INFINITY;
                    if (d > s.length + slack)
                    {
                        std::ostringstream m;
                        m.precision(15);
                        m << id.str() << ": straight-line displacement " << d
                          << " exceeds the step length " << s.length;
                        // known finding F13: rotate() drops the sign of y for
                        // a direction within 0.005 rad of +-z, so the MSC
                        // lateral displacement is not perpendicular to the
                        // direction of travel
                        double st = std::sqrt(s.pre.dir[0] * s.pre.dir[0]
                                              + s.pre.dir[1] * s.pre.dir[1]);
                        if (has_msc(p.spec.along) && st > 0 && st < 0.005
                            && s.pre.dir[1] < 0)
                            return log.fail(m.str()
                                                + " [MSC displacement rotated "
                                                  "about a direction within "
                                                  "0.005 rad of the z axis with "
                                                  "y < 0]",
                                            "F13-rotate-near-z-sinphi-sign");
                        return fail(m.str());
                    }
                }
                // the reported length is the length actually travelled:
                // straight steps (neutral, or charged without field and MSC)
                // move by length * direction; in a uniform field without MSC
                // the displacement ALONG the field is length * cos(pitch)
                {
                    bool charged = w.pdg[s.particle] != 22;
                    double dx[3];
                    for (int a = 0; a < 3; ++a)
                        dx[a] = s.post.pos[a] - s.pre.pos[a];
                    bool straight = !charged
                                    || (!has_field(p.spec.along)
                                        && !has_msc(p.spec.along));
                    if (straight && std::isfinite(s.length))
                    {
                        double err = 0;
                        for (int a = 0; a < 3; ++a)
                            err = std::max(err,
                                           std::fabs(dx[a]
                                                     - s.length * s.pre.dir[a]));
                        double tol = 1e-9 * s.length
                                     + 1e-12 * (fix.scale + std::fabs(s.pre.pos[0])
                                                + std::fabs(s.pre.pos[1])
                                                + std::fabs(s.pre.pos[2]));
                        if (err > tol)
                        {
                            std::ostringstream m;
                            m.precision(15);
                            m << id.str() << ": a straight step of length "
                              << s.length << " moved the track by (" << dx[0]
                              << ", " << dx[1] << ", " << dx[2]
                              << "), not by length x direction";
                            return fail(m.str());
                        }
                        ++n_straight;
                    }
                    else if (charged && has_field(p.spec.along)
                             && !has_msc(p.spec.along))
                    {
                        double b2 = 0;
                        for (int a = 0; a < 3; ++a)
                            b2 += p.spec.field[a] * p.spec.field[a];
                        double bmag = std::sqrt(b2);  // tesla
                        double e = s.pre.energy;
                        double mom = std::sqrt(e * (e + 2 * mass));  // MeV/c
                        double radius = bmag > 0 ? mom / (2.99792458 * bmag)
                                                 : INFINITY;  // cm
                        double upar = 0, dpar = 0;
                        for (int a = 0; a < 3 && bmag > 0; ++a)
                        {
                            upar += s.pre.dir[a] * p.spec.field[a] / bmag;
                            dpar += dx[a] * p.spec.field[a] / bmag;
                        }
                        // (for gyroradii below ~0.05 cm a substep may span
                        // many turns and the integrator's pitch error is not
                        // bounded by the driver tolerances: not judged)
                        if (bmag > 0 && radius > 0.05 && std::fabs(upar) > 0.05)
                        {
                            double tol = 0.01 * s.length + 1e-4;
                            if (!(std::fabs(dpar - s.length * upar) <= tol))
                            {
                                std::ostringstream m;
                                m.precision(12);
                                m << id.str() << ": step length " << s.length
                                  << " with pitch cosine " << upar
                                  << " but the displacement along the field is "
                                  << dpar << " (gyroradius " << radius
                                  << " cm): the reported length is not the "
                                     "length travelled";
                                return fail(m.str());
                            }
                            ++n_helix;
                        }
                    }
                }
                // pre-step physics limit
                auto it = snaps->by_call_slot.find({s.call, s.slot});
                if (it == snaps->by_call_slot.end()
                    || it->second.track != s.track)
                    return fail(id.str() + ": no harness snapshot for "
                                    "this step (slot/track mismatch)");
                Snap const& sn = it->second;
                if (sn.limit >= 0)
                {
                    ++limit_checked;
                    if (s.length > sn.limit * (1 + 1e-12))
                    {
                        std::ostringstream m;
                        m.precision(17);
                        m << id.str() << ": step length " << s.length
                          << " exceeds the physics limit " << sn.limit
                          << " chosen before the step (relative excess "
                          << (s.length / sn.limit - 1) << ")";
                        return fail(m.str());
                    }
                }
                // status only moves forward within the step
                {
                    int a = sn.status_start, b = sn.status_pre,
                        cst = sn.status_post;
                    auto fwd = [](int x, int y) {
                        return x < 0 || y < 0 || x <= y
                               || (x >= int(TrackStatus::begin_dying_)
                                   && y >= int(TrackStatus::begin_dying_));
                    };
                    if (!fwd(a, b) || !fwd(b, cst) || !fwd(a, cst))
                    {
                        std::ostringstream m;
                        m << id.str() << ": track status sequence start/pre/"
                          << "post = " << a << "/" << b << "/" << cst
                          << " moves backward";
                        return fail(m.str());
                    }
                    if (b >= 0 && b != int(TrackStatus::alive))
                    {
                        std::ostringstream m;
                        m << id.str() << ": a stepping track has status " << b
                          << " at user_pre";
                        return fail(m.str());
                    }
                }
                // volume only changes on boundary steps
                if (s.pre.volume != s.post.volume && s.action != boundary_action)
                {
                    std::ostringstream m;
                    m << id.str() << ": volume changes " << s.pre.volume
                      << " -> " << s.post.volume
                      << " but the step was not limited by a boundary";
                    return fail(m.str());
                }
                if (s.action == boundary_action)
                    crossed = true;
                else
                    physlim = true;
                // reported volumes contain the reported positions
                if (located < 4000)
                {
                    geo::V3 x{{s.pre.pos[0], s.pre.pos[1], s.pre.pos[2]}};
                    geo::V3 d{{s.pre.dir[0], s.pre.dir[1], s.pre.dir[2]}};
                    geo::LD dl = geo::delta_at(fix.model, x);
                    // pre-step point may sit on a boundary (after a crossing):
                    // look a little ahead along the direction
                    bool on_bnd = (k > 0
                                   && t.steps[k - 1]->action == boundary_action);
                    geo::Path pp;
                    bool judge = true;
                    if (!on_bnd)
                    {
                        pp = geo::locate(fix.model, x, 8 * dl);
                    }
                    else
                    {
                        // march from a point just behind the boundary and take
                        // the segment that starts at the boundary (a plain
                        // look-ahead can overshoot a thin sliver volume)
                        geo::LD back = 64 * dl;
                        geo::V3 xb = geo::along(x, d, -back);
                        geo::Path pb = geo::locate(fix.model, xb, 4 * dl);
                        judge = !pb.ambiguous && !pb.overlap && !pb.nowhere
                                && !pb.outside();
                        if (judge)
                        {
                            bool trunc = false;
                            auto segs = geo::trace(fix.model, xb, d, 4, &trunc);
                            judge = false;
                            for (size_t si = 0; si + 1 < segs.size(); ++si)
                            {
                                if (segs[si].end_lo - 2 * dl <= back
                                    && back <= segs[si].end_hi + 2 * dl)
                                {
                                    auto const& nx = segs[si + 1];
                                    if (nx.t1 - nx.t0 > 8 * dl
                                        && !nx.path.overlap)
                                    {
                                        pp = nx.path;
                                        judge = true;
                                    }
                                    break;
                                }
                            }
                        }
                    }
                    if (judge && on_bnd)
                    {
                        // a sliver thinner than the tolerance right behind the
                        // boundary: the oracle's clusters merge its two faces,
                        // the navigator (exact arithmetic) may report it.
                        // Consistent if the point just (0.01 delta) ahead is
                        // in the reported volume.
                        geo::Path near_p = geo::locate(
                            fix.model, geo::along(x, d, dl * 0.01L), dl * 1e-4L);
                        if (!near_p.overlap && !near_p.nowhere
                            && !near_p.outside()
                            && leaf_volume(fix.model, near_p) == s.pre.volume)
                        {
                            judge = false;
                            log.label("sliver-behind-boundary");
                        }
                    }
                    if (judge && !pp.ambiguous && !pp.overlap && !pp.nowhere
                        && pp.outside() && !on_bnd && s.pre.volume >= 0)
                    {
                        std::ostringstream m;
                        m.precision(15);
                        m << id.str() << ": pre-step volume " << s.pre.volume
                          << " but the position (" << s.pre.pos[0] << ", "
                          << s.pre.pos[1] << ", " << s.pre.pos[2]
                          << ") lies outside the world";
                        return fail(m.str());
                    }
                    if (judge && !pp.ambiguous && !pp.overlap && !pp.nowhere
                        && !pp.outside())
                    {
                        ++located;
                        int leaf = leaf_volume(fix.model, pp);
                        if (leaf != s.pre.volume)
                        {
                            std::ostringstream m;
                            m.precision(15);
                            m << id.str() << ": pre-step volume "
                              << s.pre.volume << " but the position ("
                              << s.pre.pos[0] << ", " << s.pre.pos[1] << ", "
                              << s.pre.pos[2] << ") lies in volume " << leaf
                              << " (" << pp.str() << "); dir (" << s.pre.dir[0]
                              << ", " << s.pre.dir[1] << ", " << s.pre.dir[2]
                              << "), previous step action "
                              << (k > 0 ? t.steps[k - 1]->action : -1)
                              << (on_bnd ? " [looked ahead]" : "");
                            return fail(m.str());
                        }
                    }
                }
            }
            if (skip_track)
                continue;
            // the end point of the track (unless it sits on a boundary)
            if (!t.steps.empty() && t.steps.back()->action != boundary_action
                && located < 4000)
            {
                StepRec const& s = *t.steps.back();
                geo::V3 x{{s.post.pos[0], s.post.pos[1], s.post.pos[2]}};
                geo::LD dl = geo::delta_at(fix.model, x);
                geo::Path pp = geo::locate(fix.model, x, 8 * dl);
                if (!pp.ambiguous && !pp.overlap && !pp.nowhere
                    && s.post.volume >= 0
                    && (pp.outside()
                        || leaf_volume(fix.model, pp) != s.post.volume))
                {
                    std::ostringstream m;
                    m.precision(15);
                    m << "event " << s.event << " track " << s.track
                      << " step " << s.step_count << ": post-step volume "
                      << s.post.volume << " but the end point ("
                      << s.post.pos[0] << ", " << s.post.pos[1] << ", "
                      << s.post.pos[2] << ") lies in " << pp.str();
                    return fail(m.str());
                }
            }
            if (t.steps.size() >= 3 && crossed && physlim)
                ++rich_tracks;
        }
    }
    log.count("joined_step_pairs", joined);
    log.count("located_points", located);
    log.count("limit_checked", limit_checked);
    log.count("straight_steps_checked", n_straight);
    log.count("helix_pitch_steps_checked", n_helix);
    log.count("rich_tracks", rich_tracks);
    if (has_msc(p.spec.along))
        log.label("msc");
    if (has_field(p.spec.along))
        log.label("field");
#ifdef VERIF_C08_ALONGSTEP
    log.nontrivial = n_helix >= 5;
#else
    log.nontrivial = rich_tracks > 0;
#endif
    return Verdict::pass;
}

bool run_exhaustive(ExhaustiveResult&)
{
    return false;
}

}  // namespace verif
