// C01 — transport conserves energy over every event and every track.
#include <cstdio>
#include <cstdlib>
#include <map>
#include <set>
#include <sstream>

#include "caselog.hh"
#include "simcheck.hh"
#include "simrun.hh"

namespace verif
{
char const* const kPropertyId = "C01";
char const* const kHarness = "c01_energy";
size_t const kMaxBytes = 640;
char const* const kRule
    = "byte string -> physics problem (geometry: bundled / generated raw "
      "OrangeInput; 1-3 materials from near-vacuum to dense; generated "
      "lambda / dE/dx / range tables on a generated log grid; production "
      "cuts, tracking cut, apply_cuts, loss limit, step limiter; along-step "
      "variant linear / +fluctuation / +Urban MSC / uniform field; 1-64 track "
      "slots; all track orders) + 1-2 events of 1-4 primaries (gamma, e-, e+; "
      "energy log-uniform); oracle = whole-event and per-track ledger of "
      "E* = T + 2mc^2[antiparticle] computed from the public step stream; "
      "non-trivial = event with >= 1 secondary track and >= 2 different "
      "post-step actions";

void setup()
{
    geosrc_setup();
}

Verdict run_case(Choices& c, CaseLog& log)
{
    using namespace sim;
    GeoSource src;
    Verdict gv = choose_sim_geometry(c, log, src);
    if (gv != Verdict::pass)
        return gv;
    GenOptions opt;
    SimSpec spec = gen_spec(c, log, *src.fix, opt);
    // fault class: one primary starts outside the world; it cannot be
    // initialised, is killed by the tracking cut without a step, and its
    // energy (+ 2mc^2 for a positron) must appear as deposited - exactly
    // once, whatever the slot held before
    if (!spec.events.empty() && c.boolean(0.12))
    {
        size_t ev = c.index(spec.events.size());
        size_t pi = c.index(spec.events[ev].size());
        int ax = int(c.int_in(0, 2));
        bool neg = c.boolean();
        GeoFixture const& fx = *src.fix;
        spec.events[ev][pi].pos[ax] = neg ? double(fx.lo[ax]) - 0.5 * fx.scale
                                          : double(fx.hi[ax]) + 0.5 * fx.scale;
        log.mix(int(ev * 16 + pi));
        log.mix(ax * 2 + int(neg));
        log.label("primary-outside-world");
    }
    describe(log, spec);
    if (spec.events.empty())
        return Verdict::trivial;
    std::unique_ptr<World> w;
    std::vector<Hook> hooks;
    if (std::getenv("VERIF_SIMDEBUG"))
    {
        hooks.push_back(
            {"dbg-pre",
             StepActionOrder::user_pre,
             [](CoreParams const& p, CoreState<MemSpace::host>& st) {
                 for (auto i : range(TrackSlotId{st.size()}))
                 {
                     CoreTrackView t(p.host_ref(), st.ref(), i);
                     auto sim = t.make_sim_view();
                     if (sim.status() != TrackStatus::alive)
                         continue;
                     auto phys = t.make_physics_view();
                     auto ps = t.make_physics_step_view();
                     auto par = t.make_particle_view();
                     std::fprintf(stderr,
                                  "PRE slot %u trk %u E=%.17g step_limit=%.17g "
                                  "act=%d mfp=%.17g xs=%.17g n=%u\n",
                                  i.get(),
                                  sim.track_id().get(),
                                  par.energy().value(),
                                  sim.step_length(),
                                  int(sim.post_step_action().get()),
                                  phys.interaction_mfp(),
                                  ps.macro_xs(),
                                  unsigned(sim.num_steps()));
                 }
             }});
    }
    try
    {
        w = build_world(spec, src.fix->params, hooks);
    }
    catch (celeritas::RuntimeError const& e)
    {
        log.ds("rejected", e.what());
        return Verdict::rejected;
    }
    StepperInput si;
    si.params = w->core;
    si.stream_id = StreamId{0};
    si.num_track_slots = spec.track_slots;
    Stepper<MemSpace::host> step(si);
    long total_steps = 0;
    LedgerStats st;
    for (size_t e = 0; e < spec.events.size(); ++e)
    {
        auto prim = make_primaries(*w, spec.events[e], int(e));
        RunResult r = run_event(*w, step, prim, unsigned(e), 20000);
        if (r.error.find("insufficient") != std::string::npos)
        {
            // storage exhaustion is C16's subject; here capacity is "ample"
            log.label("capacity-exceeded");
            return Verdict::rejected;
        }
        if (!r.error.empty())
        {
            return log.fail("exception during transport of event "
                            + std::to_string(e) + ": " + r.error);
        }
        if (!r.completed)
        {
            // budget exhausted: not judged here (termination is C02)
            log.label("budget-exhausted");
            if (std::getenv("VERIF_SIMDEBUG"))
            {
                auto const& st = w->rec->steps;
                std::map<unsigned, long> per;
                for (auto const& s : st)
                    ++per[s.track];
                std::fprintf(stderr,
                             "budget exhausted: calls=%ld steps=%zu tracks=%zu "
                             "alive=%u queued=%u\n",
                             r.calls,
                             st.size(),
                             per.size(),
                             r.results.back().alive,
                             r.results.back().queued);
                {
                    auto const& reg = *w->core->action_reg();
                    for (auto aid : range(ActionId{reg.num_actions()}))
                        std::fprintf(stderr,
                                     "  action %u = %s\n",
                                     aid.get(),
                                     std::string(reg.id_to_label(aid)).c_str());
                    unsigned tr = st.back().track;
                    int shown = 0;
                    for (auto const& s : st)
                        if (s.track == tr && shown++ < 8)
                            std::fprintf(stderr,
                                         "  first: trk %u step %u E %.9g -> "
                                         "%.9g len %.6g act %d edep %.6g\n",
                                         s.track,
                                         s.step_count,
                                         s.pre.energy,
                                         s.post.energy,
                                         s.length,
                                         s.action,
                                         s.edep);
                }
                for (size_t i = st.size() > 6 ? st.size() - 6 : 0;
                     i < st.size();
                     ++i)
                    std::fprintf(stderr,
                                 "  trk %u step %u pdg %d E %.6g -> %.6g len "
                                 "%.6g act %d vol %d->%d edep %.6g\n",
                                 st[i].track,
                                 st[i].step_count,
                                 w->pdg[st[i].particle],
                                 st[i].pre.energy,
                                 st[i].post.energy,
                                 st[i].length,
                                 st[i].action,
                                 st[i].pre.volume,
                                 st[i].post.volume,
                                 st[i].edep);
            }
            return Verdict::trivial;
        }
        total_steps += long(w->rec->steps.size());
    }
    if (w->rec->has_nan)
        return log.fail("NaN in the step stream");
    std::string msg = check_ledger(*w, w->rec->steps, &st);
    if (!msg.empty())
        return log.fail(msg);
    log.count("tracks", st.tracks);
    log.count("steps", st.steps);
    log.count("secondaries", st.secondaries);
    log.count("escaped_tracks", st.escaped);
    log.count("positron_tracks", st.positrons);
    switch (spec.along)
    {
        case AlongStep::linear: log.label("along-linear"); break;
        case AlongStep::linear_fluct: log.label("along-fluct"); break;
        case AlongStep::linear_msc: log.label("along-msc"); break;
        case AlongStep::linear_msc_fluct: log.label("along-msc-fluct"); break;
        case AlongStep::uniform_field: log.label("along-field"); break;
        case AlongStep::uniform_field_msc: log.label("along-field-msc"); break;
    }
    if (st.positrons)
        log.label("with-positron");
    if (st.escaped)
        log.label("with-escape");
    if (spec.apply_cuts)
        log.label("apply-cuts");
    if (spec.track_slots == 1)
        log.label("one-slot");
    log.nontrivial = st.secondaries >= 1 && st.action_kinds >= 2;
    return Verdict::pass;
}

bool run_exhaustive(ExhaustiveResult&)
{
    return false;
}

}  // namespace verif
