// C18 — uniform / non-uniform grid lookups and interpolators agree with an
// exact-arithmetic (long double) reference, including values adjacent to
// grid points and ends.
#include <algorithm>
#include <cmath>
#include <vector>

#include "caselog.hh"
#include "corecel/cont/Array.hh"
#include "corecel/data/Collection.hh"
#include "corecel/data/CollectionBuilder.hh"
#include "corecel/grid/FindInterp.hh"
#include "corecel/grid/Interpolator.hh"
#include "corecel/grid/NonuniformGrid.hh"
#include "corecel/grid/TwodGridCalculator.hh"
#include "corecel/grid/TwodGridData.hh"
#include "corecel/grid/TwodSubgridCalculator.hh"
#include "corecel/grid/UniformGrid.hh"
#include "corecel/grid/UniformGridData.hh"

namespace verif
{
char const* const kPropertyId = "C18";
char const* const kHarness = "c18_grid";
size_t const kMaxBytes = 160;
char const* const kRule
    = "byte string -> (grid kind, grid bounds/size or strictly increasing "
      "points, queries aimed at every knot and its +-1,+-2 ulp neighbours, "
      "both ends, and interior points); oracle = long-double grid points and "
      "interpolation; non-trivial = at least one query within 2 ulp of a "
      "grid point (lookups) or strictly inside a cell (interpolation)";
void setup() {}

namespace
{
using namespace celeritas;
using HostVals = Collection<double, Ownership::value, MemSpace::host>;
using HostRef = Collection<double, Ownership::const_reference, MemSpace::host>;
constexpr double eps = 2.220446049250313e-16;

double ulp_of(double x)
{
    x = std::fabs(x);
    return std::nextafter(x, INFINITY) - x;
}

Verdict k_uniform(Choices& c, CaseLog& log)
{
    log.label("uniform");
    double front, back;
    bool loggrid = c.boolean(0.6);
    if (loggrid)
    {
        front = std::log(c.log_uniform(1e-6, 1e2));
        back = front + c.real_in(0.1, 30);
    }
    else
    {
        front = c.boolean(0.5) ? 0.0 : c.signed_log_uniform(1e-3, 1e3);
        back = front + c.log_uniform(1e-3, 1e4);
    }
    size_type size = size_type(c.int_in(2, 200));
    log.mix(front);
    log.mix(back);
    log.mix(size);
    log.d("kind", "\"uniform\"");
    log.d("front", front);
    log.d("back", back);
    log.d("size", size);
    if (!(front < back))
        return Verdict::trivial;
    auto data = UniformGridData::from_bounds(front, back, size);
    UniformGrid grid(data);
    if (grid.size() != size || grid.front() != front || grid.back() != back)
        return log.fail("UniformGrid accessors differ from construction");
    long near = 0;
    int nq = int(c.int_in(4, 24));
    for (int q = 0; q < nq; ++q)
    {
        // aim: knot index (weighted toward the ends) and ulp offset
        size_type k;
        switch (c.int_in(0, 3))
        {
            case 0: k = 0; break;
            case 1: k = size - 1; break;
            case 2: k = size - 2; break;
            default: k = size_type(c.int_in(0, size - 1)); break;
        }
        double knot = grid[k];
        long double exact_knot
            = (long double)front + (long double)data.delta * k;
        if (fabsl(knot - exact_knot)
            > ulp_of(knot) + ulp_of(data.delta * k) + ulp_of(front))
            return log.fail("operator[] differs from front + delta*i");
        double v;
        bool adjacent = c.boolean(0.8);
        if (adjacent)
            v = (k == size - 1) ? Choices::step_ulps(back, -int(c.int_in(1, 3)))
                                : c.ulp_neighbour(knot, 2);
        else
            v = c.real_in53(front, back);
        if (!(v >= front && v < back))
            continue;  // outside find's precondition
        log.mix(v);
        log.d("query", v);
        size_type bin = grid.find(v);
        if (!(bin + 1 < size))
        {
            return log.fail("UniformGrid::find returned bin "
                            + std::to_string(bin) + " with size "
                            + std::to_string(size)
                            + " (bin + 1 < size violated; callers read "
                              "value[bin+1])");
        }
        long double lo = (long double)front + (long double)data.delta * bin;
        long double hi
            = (long double)front + (long double)data.delta * (bin + 1);
        // rounding distance of (v - front) / delta and of the knots
        long double slack = 4
                            * (ulp_of(v) + ulp_of(back) + ulp_of(front)
                               + ulp_of(back - front));
        if (v < lo - slack || v > hi + slack)
            return log.fail("UniformGrid::find bin does not contain the query "
                            "(beyond 2 ulp rounding slack)");
        auto fi = find_interp(grid, v);
        if (fi.index != bin)
            return log.fail("find_interp index != find");
        long double fref = ((long double)v - lo) / (hi - lo);
        // knots are rounded sums front + delta*i: compare at that magnitude
        long double mag = fabsl(front) + (long double)data.delta * (bin + 1)
                          + fabsl((long double)v);
        if (fabsl(fi.fraction - fref) > 8 * eps * mag / (hi - lo) + 8 * eps)
            return log.fail("find_interp fraction differs from reference");
        if (adjacent)
            ++near;
    }
    log.count("uniform_queries_near_knot", near);
    log.nontrivial = near > 0;
    return Verdict::pass;
}

std::vector<double> gen_increasing(Choices& c, CaseLog& log, int n)
{
    std::vector<double> x(n);
    bool logsp = c.boolean(0.5);
    double v = logsp ? c.log_uniform(1e-6, 1e2) : c.real_in(-100, 100);
    for (int i = 0; i < n; ++i)
    {
        x[i] = v;
        log.mix(v);
        double nv;
        if (c.boolean(0.15))
            nv = std::nextafter(v, INFINITY);  // adjacent representable values
        else if (logsp)
            nv = v * (1 + c.log_uniform(1e-3, 10));
        else
            nv = v + c.log_uniform(1e-6, 1e3);
        v = nv > v ? nv : std::nextafter(v, INFINITY);
    }
    return x;
}

Verdict k_nonuniform(Choices& c, CaseLog& log)
{
    log.label("nonuniform");
    int n = int(c.int_in(2, 40));
    auto x = gen_increasing(c, log, n);
    log.d("kind", "\"nonuniform\"");
    log.dv("grid", x.data(), n);
    HostVals vals;
    int pad = int(c.int_in(0, 3));
    {
        auto b = make_builder(&vals);
        b.reserve(pad + n);
        std::vector<double> padv(pad, std::nan(""));
        b.insert_back(padv.begin(), padv.end());
    }
    auto range = make_builder(&vals).insert_back(x.begin(), x.end());
    HostRef ref;
    ref = vals;
    NonuniformGrid<double> grid(range, ref);
    if (grid.size() != size_type(n) || grid.front() != x.front()
        || grid.back() != x.back())
        return log.fail("NonuniformGrid accessors wrong");
    long near = 0;
    int nq = int(c.int_in(4, 24));
    for (int q = 0; q < nq; ++q)
    {
        int k = int(c.int_in(0, n - 1));
        double v;
        bool adjacent = c.boolean(0.8);
        if (adjacent)
            v = c.ulp_neighbour(x[k], 2);
        else
            v = c.real_in53(x.front(), x.back());
        if (!(v >= x.front() && v < x.back()))
            continue;
        log.mix(v);
        log.d("query", v);
        size_type bin = grid.find(v);
        if (!(bin + 1 < size_type(n)))
            return log.fail("NonuniformGrid::find: bin + 1 >= size");
        // exact reference: the last i with x[i] <= v
        size_type refbin
            = size_type(std::upper_bound(x.begin(), x.end(), v) - x.begin())
              - 1;
        if (bin != refbin)
            return log.fail("NonuniformGrid::find returned "
                            + std::to_string(bin) + ", exact reference "
                            + std::to_string(refbin));
        if (grid[bin] != x[bin])
            return log.fail("NonuniformGrid::operator[] wrong");
        auto fi = find_interp(grid, v);
        long double fref = ((long double)v - x[bin])
                           / ((long double)x[bin + 1] - x[bin]);
        // (the quotient may round up to exactly 1 for a query one ulp below
        // the upper knot: that is rounding, not a wrong result)
        if (fi.index != bin || !(fi.fraction >= 0 && fi.fraction <= 1)
            || fabsl(fi.fraction - fref) > 4 * eps)
            return log.fail("find_interp(nonuniform) wrong index/fraction");
        if (adjacent)
            ++near;
    }
    log.count("nonuniform_queries_near_knot", near);
    log.nontrivial = near > 0;
    return Verdict::pass;
}

template<Interp XI, Interp YI>
Verdict interp_case(Choices& c, CaseLog& log)
{
    double xl, xr, yl, yr;
    if (XI == Interp::log)
    {
        xl = c.log_uniform(1e-8, 1e8);
        xr = xl * (1 + c.log_uniform(1e-3, 1e3));
    }
    else
    {
        xl = c.boolean(0.2) ? 0.0 : c.signed_log_uniform(1e-6, 1e6);
        xr = xl + c.log_uniform(1e-6 * (1 + std::fabs(xl)), 1e6);
    }
    if (YI == Interp::log)
    {
        yl = c.log_uniform(1e-30, 1e30);
        yr = c.boolean(0.1) ? yl : yl * c.log_uniform(1e-6, 1e6);
    }
    else
    {
        yl = c.boolean(0.1) ? 0.0 : c.signed_log_uniform(1e-20, 1e20);
        yr = c.boolean(0.1) ? yl : c.signed_log_uniform(1e-20, 1e20);
    }
    // t in [0, 1] plus ends plus slight extrapolation as callers do (misbin)
    double t;
    switch (c.int_in(0, 3))
    {
        case 0: t = 0; break;
        case 1: t = 1; break;
        default: t = c.unit53(); break;
    }
    double x = (XI == Interp::log) ? xl * std::pow(xr / xl, t)
                                   : xl + (xr - xl) * t;
    if (c.boolean(0.3))
        x = c.ulp_neighbour(x, 2);
    if (XI == Interp::log && !(x > 0))
        return Verdict::trivial;
    if (!(xl < xr))
        return Verdict::trivial;
    for (double v : {xl, xr, yl, yr, x})
        log.mix(v);
    double pts[5] = {xl, xr, yl, yr, x};
    log.dv("xl,xr,yl,yr,x", pts, 5);
    Interpolator<XI, YI, double> interp({xl, yl}, {xr, yr});
    double got = interp(x);
    long double tt, lnx = 0;
    if (XI == Interp::log)
    {
        lnx = logl((long double)xr / xl);
        tt = logl((long double)x / xl) / lnx;
    }
    else
        tt = ((long double)x - xl) / ((long double)xr - xl);
    long double terr = (XI == Interp::log)
                           ? 8 * eps * (1 / lnx + fabsl(tt))
                           : 8 * eps * fabsl(tt);
    long double refv, tol;
    if (YI == Interp::log)
    {
        long double lny = logl((long double)yr / yl);
        refv = yl * expl(lny * tt);
        tol = refv * (fabsl(lny) * terr + 16 * eps * (1 + fabsl(log2l(refv))));
    }
    else
    {
        refv = yl + ((long double)yr - yl) * tt;
        tol = fabsl((long double)yr - yl) * terr
              + 8 * eps * (fabsl(yl) + fabsl(((long double)yr - yl) * tt));
    }
    tol += 1e-290L;  // gradual underflow is outside every caller's domain
    if (!(fabsl(got - refv) <= tol))
    {
        return log.fail("Interpolator differs from long double reference: got "
                        + std::to_string(got) + " ref "
                        + std::to_string((double)refv));
    }
    log.nontrivial = tt > 0 && tt < 1;
    return Verdict::pass;
}

Verdict k_interp(Choices& c, CaseLog& log)
{
    int kind = int(c.int_in(0, 3));
    log.mix(kind);
    log.d("kind", "\"interpolator\"");
    log.d("variant", kind);
    switch (kind)
    {
        case 0:
            log.label("interp-lin-lin");
            return interp_case<Interp::linear, Interp::linear>(c, log);
        case 1:
            log.label("interp-lin-log");
            return interp_case<Interp::linear, Interp::log>(c, log);
        case 2:
            log.label("interp-log-lin");
            return interp_case<Interp::log, Interp::linear>(c, log);
        default:
            log.label("interp-log-log");
            return interp_case<Interp::log, Interp::log>(c, log);
    }
}

Verdict k_twod(Choices& c, CaseLog& log)
{
    log.label("twod");
    log.d("kind", "\"twod\"");
    int nx = int(c.int_in(2, 8)), ny = int(c.int_in(2, 8));
    auto x = gen_increasing(c, log, nx);
    auto y = gen_increasing(c, log, ny);
    std::vector<double> vals(nx * ny);
    bool bilinear = c.boolean(0.3);
    double a0 = c.real_in(-5, 5), a1 = c.real_in(-5, 5), a2 = c.real_in(-5, 5),
           a3 = c.real_in(-1, 1);
    for (int i = 0; i < nx; ++i)
        for (int j = 0; j < ny; ++j)
        {
            vals[i * ny + j] = bilinear ? a0 + a1 * x[i] + a2 * y[j]
                                              + a3 * x[i] * y[j]
                                        : c.signed_log_uniform(1e-3, 1e3);
            log.mix(vals[i * ny + j]);
        }
    log.dv("x", x.data(), nx);
    log.dv("y", y.data(), ny);
    HostVals store;
    {
        auto b = make_builder(&store);
        b.reserve(nx + ny + nx * ny);
    }
    TwodGridData grid;
    grid.x = make_builder(&store).insert_back(x.begin(), x.end());
    grid.y = make_builder(&store).insert_back(y.begin(), y.end());
    grid.values = make_builder(&store).insert_back(vals.begin(), vals.end());
    HostRef ref;
    ref = store;
    TwodGridCalculator calc(grid, ref);
    int nq = int(c.int_in(2, 12));
    long inside = 0;
    for (int q = 0; q < nq; ++q)
    {
        int i = int(c.int_in(0, nx - 1)), j = int(c.int_in(0, ny - 1));
        double qx = c.boolean(0.5) ? c.ulp_neighbour(x[i], 2)
                                   : c.real_in53(x.front(), x.back());
        double qy = c.boolean(0.5) ? c.ulp_neighbour(y[j], 2)
                                   : c.real_in53(y.front(), y.back());
        if (!(qx >= x.front() && qx < x.back() && qy >= y.front()
              && qy < y.back()))
            continue;
        log.mix(qx);
        log.mix(qy);
        double qq[2] = {qx, qy};
        log.dv("query", qq, 2);
        double got = calc({qx, qy});
        auto sub = calc(qx);
        double got2 = sub(qy);
        if (got != got2)
            return log.fail("TwodGridCalculator(x,y) != calc(x)(y)");
        size_t ix = std::upper_bound(x.begin(), x.end(), qx) - x.begin() - 1;
        size_t iy = std::upper_bound(y.begin(), y.end(), qy) - y.begin() - 1;
        if (sub.x_index() != ix)
            return log.fail("TwodSubgridCalculator x_index differs");
        long double fx = ((long double)qx - x[ix]) / ((long double)x[ix + 1] - x[ix]);
        long double fy = ((long double)qy - y[iy]) / ((long double)y[iy + 1] - y[iy]);
        long double v00 = vals[ix * ny + iy], v01 = vals[ix * ny + iy + 1],
                    v10 = vals[(ix + 1) * ny + iy],
                    v11 = vals[(ix + 1) * ny + iy + 1];
        long double refv = (1 - fx) * ((1 - fy) * v00 + fy * v01)
                           + fx * ((1 - fy) * v10 + fy * v11);
        long double mx = std::max(std::max(fabsl(v00), fabsl(v01)),
                                  std::max(fabsl(v10), fabsl(v11)));
        if (fabsl(got - refv) > 32 * eps * mx)
            return log.fail("Twod bilinear interpolation differs from "
                            "long double reference");
        if (fx > 0 && fy > 0)
            ++inside;
    }
    log.nontrivial = inside > 0;
    return Verdict::pass;
}

}  // namespace

Verdict run_case(Choices& c, CaseLog& log)
{
    int kind = int(c.pick({3, 2, 2, 1}));
    log.mix(kind);
    switch (kind)
    {
        case 0: return k_uniform(c, log);
        case 1: return k_nonuniform(c, log);
        case 2: return k_interp(c, log);
        default: return k_twod(c, log);
    }
}

bool run_exhaustive(ExhaustiveResult&)
{
    return false;
}

}  // namespace verif
