// C03 — geometry navigation matches true point location along every ray.
//
// Modes (chosen by the choice sequence):
//   ray      find_next_step / move_to_boundary / cross_boundary until outside,
//            compared with the oracle's segment list (O-GEO trace)
//   point    initialisation at generated points == O-GEO locate (which never
//            consults bounding boxes / BIH)
//   program  generated sequences of navigation operations in the orders real
//            callers use, checked in lock-step against O-GEO
#include <cmath>
#include <cstdlib>
#include <fstream>
#include <sstream>

#include "caselog.hh"
#include "geofix.hh"
#include "geosrc.hh"

namespace verif
{
char const* const kPropertyId = "C03";
char const* const kHarness = "c03_nav";
size_t const kMaxBytes = 512;
char const* const kRule
    = "byte string -> (geometry: bundled .org.json | generated raw "
      "OrangeInput | generated construction-API model; start point "
      "unambiguous by O-GEO; direction uniform / axis-aligned; mode ray | "
      "point | program); oracle = independent long-double point locator and "
      "ray marcher over the OrangeInput; non-trivial = ray crossing >= 2 "
      "non-fuzzy boundaries in a geometry with internal surfaces, a "
      "background volume, a transformed daughter or an array; program mode "
      "additionally needs a set_dir on a boundary or a distance-limited "
      "search; point mode needs >= 8 unambiguous points in >= 2 volumes";

namespace
{
using namespace celeritas;
using geo::LD;
using geo::V3;

std::string path_of(geo::Path const& p)
{
    return p.str();
}

bool start_point(GeoSource& src, Choices& c, CaseLog& log, V3& p, V3& d)
{
    GeoFixture& f = *src.fix;
    size_t start_depth = 1;
    // generated geometries know where their embedded universes are: start
    // half of the cases inside one (mostly the deepest), since a uniformly
    // drawn point almost never lands in a level >= 2 universe
    if (!src.anchors.empty() && c.boolean(0.5))
    {
        int maxlev = 0;
        for (auto const& a : src.anchors)
            maxlev = std::max(maxlev, a.level);
        bool deepest = c.boolean(0.7);
        std::vector<GeoSource::Anchor const*> cand;
        for (auto const& a : src.anchors)
            if (!deepest || a.level == maxlev)
                cand.push_back(&a);
        auto const& a = *cand[c.index(cand.size())];
        double w[3];
        c.unit_vector(w);
        double r = a.radius * c.real_in(0, 0.9);
        for (int k = 0; k < 3; ++k)
            p[k] = a.pos[k] + r * w[k];
        geo::Path pp = geo::locate(f.model, p, geo::delta_at(f.model, p) * 4);
        if (!pp.ambiguous && !pp.outside() && !pp.nowhere && !pp.overlap
            && !pp.bad_logic)
        {
            start_depth = pp.lv.size();
            goto found;
        }
    }
    // up to 6 attempts to find an unambiguous interior start
    for (int a = 0; a < 6; ++a)
    {
        for (int k = 0; k < 3; ++k)
            p[k] = c.real_in(f.lo[k], f.hi[k]);
        geo::Path pp = geo::locate(f.model, p, geo::delta_at(f.model, p) * 4);
        if (!pp.ambiguous && !pp.outside() && !pp.nowhere && !pp.overlap
            && !pp.bad_logic)
        {
            start_depth = pp.lv.size();
            goto found;
        }
    }
    return false;
found:
    log.label(start_depth >= 3   ? "start-level-2+"
              : start_depth == 2 ? "start-level-1"
                                 : "start-level-0");
    double dd[3];
    int dk = int(c.int_in(0, 7));
    if (dk < 6)
        c.unit_vector(dd);
    else
    {
        int ax = int(c.int_in(0, 2));
        bool neg = c.boolean();
        dd[0] = dd[1] = dd[2] = 0;
        dd[ax] = neg ? -1 : 1;
    }
    for (int k = 0; k < 3; ++k)
    {
        d[k] = dd[k];
        log.mix(double(p[k]));
        log.mix(dd[k]);
    }
    return true;
}

Real3 r3(V3 const& v)
{
    return Real3{double(v[0]), double(v[1]), double(v[2])};
}

//---------------------------------------------------------------------------//
Verdict mode_ray(GeoSource& src, Choices& c, CaseLog& log)
{
    GeoFixture& f = *src.fix;
    V3 p, d;
    if (!start_point(src, c, log, p, d))
        return Verdict::trivial;
    if (log.want_desc)
    {
        double pp[6] = {double(p[0]), double(p[1]), double(p[2]),
                        double(d[0]), double(d[1]), double(d[2])};
        log.dv("pos_dir", pp, 6);
    }
    bool truncated = false;
    std::vector<geo::Cluster> clusters;
    auto segs = geo::trace(f.model, p, d, 400, &truncated, &clusters);
    for (auto const& s : segs)
        if (s.path.overlap || s.path.bad_logic)
        {
            log.label("oracle-overlap");
            return Verdict::trivial;
        }

    auto tv = f.track();
    tv = GeoTrackInitializer{r3(p), r3(d)};
    if (tv.failed() || tv.is_outside())
        return log.fail("initialisation failed/outside at a point O-GEO "
                        "locates unambiguously in " + path_of(segs[0].path));
    {
        geo::Path np = f.nav_path();
        if (!np.same_as(segs[0].path))
            return log.fail("initial volume path " + path_of(np)
                            + " != oracle " + path_of(segs[0].path));
    }

    struct NavSeg
    {
        LD t0, t1;
        geo::Path path;
    };
    std::vector<NavSeg> nav;
    LD t = 0;
    size_t fuzzy = 0;
    for (auto const& s : segs)
        fuzzy += s.fuzzy_end;
    size_t limit = segs.size() + 2 * fuzzy + 4;
    bool ended_outside = false;
    while (true)
    {
        Propagation pr = tv.find_next_step();
        if (std::isnan(pr.distance) || pr.distance < 0)
            return log.fail("find_next_step returned invalid distance");
        NavSeg ns{t, pr.boundary ? t + pr.distance : LD(INFINITY), f.nav_path()};
        nav.push_back(ns);
        if (!pr.boundary)
            break;
        tv.move_to_boundary();
        t += pr.distance;
        {
            Real3 const& np = tv.pos();
            LD err = 0;
            for (int k = 0; k < 3; ++k)
                err = std::max(err, fabsl(np[k] - (p[k] + t * d[k])));
            if (err > 1e-9L * (f.scale + fabsl(t)))
                return log.fail("position after move_to_boundary is off the "
                                "ray");
        }
        if (!tv.is_on_boundary())
            return log.fail("not on boundary after move_to_boundary");
        tv.cross_boundary();
        if (tv.failed())
            return log.fail("cross_boundary failed at t=" + std::to_string((double)t)
                            + " leaving " + path_of(ns.path));
        if (tv.is_outside())
        {
            ended_outside = true;
            break;
        }
        if (nav.size() > limit && !truncated)
            return log.fail("navigator needed more than "
                            + std::to_string(limit)
                            + " crossings (oracle segments: "
                            + std::to_string(segs.size()) + ")");
        if (nav.size() > 2000)
            break;
    }
    if (truncated)
    {
        log.label("oracle-truncated");
        return Verdict::trivial;
    }

    // (1) every long navigator segment: oracle locate at its midpoint
    size_t compared = 0;
    for (auto const& ns : nav)
    {
        LD t1 = std::isfinite((double)ns.t1) ? ns.t1 : ns.t0 + f.scale;
        V3 xm = geo::along(p, d, (ns.t0 + t1) / 2);
        LD dl = geo::delta_at(f.model, xm);
        if (t1 - ns.t0 <= 8 * dl)
            continue;
        geo::Path op = geo::locate(f.model, xm, dl);
        if (op.ambiguous)
            continue;
        ++compared;
        if (!op.same_as(ns.path))
        {
            std::ostringstream m;
            m << "navigator reports " << path_of(ns.path) << " on t in ["
              << (double)ns.t0 << ", " << (double)ns.t1
              << "] but the midpoint is located in " << path_of(op);
            return log.fail(m.str());
        }
    }
    // (2) every long oracle segment: the navigator segment containing its
    //     midpoint has the same path (no skipped volume)
    for (auto const& s : segs)
    {
        if (s.path.outside())
            continue;
        LD t1 = std::isfinite((double)s.t1) ? s.t1 : s.t0 + f.scale;
        LD tm = (s.t0 + t1) / 2;
        LD dl = geo::delta_at(f.model, geo::along(p, d, tm));
        if (t1 - s.t0 <= 8 * dl || s.path.ambiguous)
            continue;
        bool found = false;
        for (auto const& ns : nav)
            if (tm >= ns.t0 && tm < ns.t1)
            {
                found = true;
                if (!ns.path.same_as(s.path))
                {
                    std::ostringstream m;
                    m << "oracle volume " << path_of(s.path) << " on t in ["
                      << (double)s.t0 << ", " << (double)s.t1
                      << "] is reported as " << path_of(ns.path);
                    return log.fail(m.str());
                }
            }
        if (!found)
        {
            std::ostringstream m;
            m << "navigator trace ends at t=" << (double)nav.back().t1
              << " before oracle segment " << path_of(s.path) << " at t="
              << (double)tm;
            return log.fail(m.str());
        }
    }
    // (3) boundary positions: every oracle change of volume has a navigator
    //     boundary inside its candidate cluster (+- delta), and every
    //     navigator boundary lies in a cluster that changes the volume (or
    //     holds several coincident candidates: tangent / corner / coincident
    //     faces, where a zero-length visit is not judged)
    size_t nonfuzzy = 0;
    for (auto const& cl : clusters)
    {
        if (!cl.changed)
            continue;
        LD dl = geo::delta_at(f.model, geo::along(p, d, cl.hi));
        bool hit = false;
        for (auto const& ns : nav)
            if (std::isfinite((double)ns.t1) && ns.t1 >= cl.lo - dl
                && ns.t1 <= cl.hi + dl)
                hit = true;
        if (cl.n == 1)
            ++nonfuzzy;
        if (!hit)
        {
            std::ostringstream m;
            m << "oracle change of volume at t in [" << (double)cl.lo << ", "
              << (double)cl.hi << "] has no navigator boundary within "
              << "tolerance";
            return log.fail(m.str());
        }
    }
    for (auto const& ns : nav)
    {
        if (!std::isfinite((double)ns.t1))
            continue;
        LD dl = geo::delta_at(f.model, geo::along(p, d, ns.t1));
        bool hit = false;
        for (auto const& cl : clusters)
            if ((cl.changed || cl.n > 1) && ns.t1 >= cl.lo - dl
                && ns.t1 <= cl.hi + dl)
                hit = true;
        if (!hit)
        {
            std::ostringstream m;
            m << "navigator boundary at t=" << (double)ns.t1 << " (leaving "
              << path_of(ns.path)
              << ") is not within tolerance of any oracle change of volume";
            return log.fail(m.str());
        }
    }
    // (4) termination
    if (segs.back().path.outside() && !ended_outside)
        return log.fail("oracle ray leaves the world but the navigator did "
                        "not end outside");
    if (!segs.back().path.outside() && ended_outside)
        return log.fail("navigator ended outside but the oracle ray stays in "
                        + path_of(segs.back().path));
    log.count("ray_segments", long(nav.size()));
    log.count("ray_fuzzy_boundaries", long(fuzzy));
    log.nontrivial = nonfuzzy >= 2 && src.rich;
    return Verdict::pass;
}

//---------------------------------------------------------------------------//
Verdict mode_point(GeoSource& src, Choices& c, CaseLog& log)
{
    GeoFixture& f = *src.fix;
    auto tv = f.track();
    int n = int(c.int_in(8, 40));
    int unamb = 0;
    std::string first;
    bool two = false;
    for (int i = 0; i < n; ++i)
    {
        V3 p;
        for (int k = 0; k < 3; ++k)
        {
            p[k] = c.real_in(f.lo[k], f.hi[k]);
            log.mix(double(p[k]));
        }
        LD dl = geo::delta_at(f.model, p) * 4;
        geo::Path op = geo::locate(f.model, p, dl);
        if (op.ambiguous || op.overlap || op.bad_logic || op.nowhere)
            continue;
        tv = GeoTrackInitializer{r3(p), Real3{0, 0, 1}};
        if (op.outside())
        {
            if (!tv.failed() && !tv.is_outside())
                return log.fail("point outside the world initialised inside "
                                + path_of(f.nav_path()));
            continue;
        }
        ++unamb;
        if (tv.failed() || tv.is_outside())
        {
            std::ostringstream m;
            m << "initialisation failed/outside at (" << (double)p[0] << ", "
              << (double)p[1] << ", " << (double)p[2]
              << ") which the surfaces place in " << path_of(op);
            return log.fail(m.str());
        }
        geo::Path np = f.nav_path();
        if (!np.same_as(op))
        {
            std::ostringstream m;
            m << "point (" << (double)p[0] << ", " << (double)p[1] << ", "
              << (double)p[2] << ") initialised in " << path_of(np)
              << " but the surfaces place it in " << path_of(op);
            return log.fail(m.str());
        }
        if (first.empty())
            first = path_of(op);
        else if (first != path_of(op))
            two = true;
    }
    log.count("points_compared", unamb);
    log.nontrivial = unamb >= 8 && two;
    return Verdict::pass;
}

//---------------------------------------------------------------------------//
// Oracle helper: distance from x along u to the first change of path, as the
// candidate cluster [lo, hi]; inf if none.
struct Exit
{
    LD lo = INFINITY, hi = INFINITY;
    bool fuzzy = false;
    bool invalid = false;  // the geometry overlaps here: nothing to judge
    geo::Path here, next;
};

Exit oracle_exit(GeoFixture& f, V3 const& x, V3 const& u)
{
    bool trunc = false;
    auto segs = geo::trace(f.model, x, u, 2, &trunc);
    Exit e;
    e.here = segs[0].path;
    for (auto const& s : segs)
        if (s.path.overlap || s.path.bad_logic)
            e.invalid = true;
    if (std::isfinite((double)segs[0].t1))
    {
        e.lo = segs[0].end_lo;
        e.hi = segs[0].end_hi;
        e.fuzzy = segs[0].fuzzy_end;
        if (segs.size() > 1)
            e.next = segs[1].path;
    }
    return e;
}

Verdict mode_program(GeoSource& src, Choices& c, CaseLog& log)
{
    GeoFixture& f = *src.fix;
    V3 p, d;
    if (!start_point(src, c, log, p, d))
        return Verdict::trivial;
    if (log.want_desc)
    {
        double pp[6] = {double(p[0]), double(p[1]), double(p[2]),
                        double(d[0]), double(d[1]), double(d[2])};
        log.dv("pos_dir", pp, 6);
    }
    auto tv = f.track();
    tv = GeoTrackInitializer{r3(p), r3(d)};
    if (tv.failed() || tv.is_outside())
        return log.fail("initialisation failed at an unambiguous interior "
                        "point");
    std::ostringstream prog;
    // model state
    V3 x = p, u = d;
    bool on_boundary = false;
    bool has_next = false;  // valid find_next_step for current direction
    bool next_is_boundary = false;
    LD next_dist = 0;
    bool crossed = true;  // (after init: nothing pending)
    bool reentrant_pending = false;
    int n_setdir_boundary = 0, n_limited = 0, n_ops = 0;
    int nops = int(c.int_in(4, 40));

    auto check_state = [&](char const* after) -> bool {
        Real3 const& np = tv.pos();
        Real3 const& nd = tv.dir();
        for (int k = 0; k < 3; ++k)
        {
            if (fabsl(np[k] - x[k]) > 1e-9L * (f.scale + geo::norm(x))
                || fabsl(nd[k] - u[k]) > 1e-12L)
            {
                log.fail(std::string("pos/dir desynchronised after ") + after
                         + " in program: " + prog.str());
                return false;
            }
        }
        if (tv.is_on_boundary() != on_boundary)
        {
            log.fail(std::string("is_on_boundary wrong after ") + after
                     + " in program: " + prog.str());
            return false;
        }
        if (!on_boundary)
        {
            LD dl = geo::delta_at(f.model, x) * 2;
            geo::Path op = geo::locate(f.model, x, dl);
            if (!op.ambiguous && !op.overlap && !op.nowhere
                && !op.same_as(f.nav_path()))
            {
                log.fail(std::string("volume ") + path_of(f.nav_path())
                         + " != located " + path_of(op) + " after " + after
                         + " in program: " + prog.str());
                return false;
            }
        }
        return true;
    };

    for (int i = 0; i < nops; ++i)
    {
        ++n_ops;
        // choose an operation that is legal in the current state
        if (on_boundary && !crossed)
        {
            // between move_to_boundary and cross_boundary: optional set_dir
            if (c.boolean(0.5))
            {
                double nd[3];
                c.unit_vector(nd);
                for (int k = 0; k < 3; ++k)
                    log.mix(nd[k]);
                prog << " set_dir@bnd";
                tv.set_dir(Real3{nd[0], nd[1], nd[2]});
                u = {{nd[0], nd[1], nd[2]}};
                ++n_setdir_boundary;
                if (!check_state("set_dir on boundary"))
                    return Verdict::violation;
            }
            prog << " cross";
            tv.cross_boundary();
            crossed = true;
            has_next = false;
            if (tv.failed())
                return log.fail("cross_boundary failed in program:"
                                + prog.str());
            // expected volume: locate just beyond along the current direction
            LD dl = geo::delta_at(f.model, x);
            // Locate at three distances beyond the boundary: 0.01*delta
            // (inside any sliver thinner than the tolerance; exact arithmetic
            // decides the side), 2*delta and 8*delta.  The state is judged
            // only where the two far probes agree (stable region); the
            // navigator may then report either that volume or the volume of
            // the near probe (a sliver within the tolerance zone).
            geo::Path near_p = geo::locate(f.model, geo::along(x, u, dl * 0.01L), dl * 1e-4L);
            geo::Path mid_p = geo::locate(f.model, geo::along(x, u, 2 * dl), dl * 0.25L);
            geo::Path op = geo::locate(f.model, geo::along(x, u, 8 * dl), dl);
            bool judge = !op.ambiguous && !op.overlap && !op.nowhere
                         && !op.bad_logic && !mid_p.ambiguous
                         && mid_p.same_as(op);
            if (judge && !tv.is_outside() && near_p.same_as(f.nav_path())
                && !near_p.overlap)
            {
                // thin sliver right behind the boundary: consistent
                judge = false;
                log.label("program-sliver");
            }
            if (tv.is_outside())
            {
                if (judge && !op.outside())
                    return log.fail("track is outside after cross_boundary "
                                    "but just beyond the boundary lies "
                                    + path_of(op) + "; program:" + prog.str());
                log.count("program_ops", n_ops);
                log.nontrivial = src.rich
                                 && (n_setdir_boundary > 0 || n_limited > 0);
                return Verdict::pass;
            }
            if (judge && !op.same_as(f.nav_path()))
                return log.fail("after cross_boundary the volume is "
                                + path_of(f.nav_path())
                                + " but just beyond the boundary lies "
                                + path_of(op) + "; program:" + prog.str());
            if (!judge)
                log.label("program-fuzzy-cross");
            if (!check_state("cross_boundary"))
                return Verdict::violation;
            continue;
        }
        int op = int(c.pick({3, 2, 2, 2, 2, 1}));
        if (op == 0 || !has_next)
        {
            // find_next_step, unlimited or limited
            bool limited = c.boolean(0.4);
            Exit e = oracle_exit(f, on_boundary ? geo::along(x, u, 0) : x, u);
            // on a boundary the first oracle candidate may be the surface we
            // sit on (distance ~ 0): skip it
            LD dl = geo::delta_at(f.model, x);
            if (on_boundary)
            {
                V3 xe = geo::along(x, u, 64 * dl);
                geo::Path here = geo::locate(f.model, xe, 8 * dl);
                if (here.ambiguous || !here.same_as(f.nav_path()))
                {
                    // direction points out of the current volume (re-entrant)
                    // or is too tangent to judge: stop here (callers bump)
                    log.label("program-reentrant-stop");
                    break;
                }
                e = oracle_exit(f, xe, u);
                e.lo += 64 * dl;
                e.hi += 64 * dl;
            }
            if (e.invalid)
            {
                log.label("oracle-overlap");
                break;
            }
            Propagation pr;
            LD maxs = 0;
            if (limited)
            {
                maxs = std::isfinite((double)e.lo)
                           ? e.lo * c.real_in(0.05, 2.0)
                           : f.scale * c.real_in(0.01, 1);
                if (!(maxs > 0))
                    maxs = f.scale * 0.1;
                log.mix(double(maxs));
                prog << " find(" << double(maxs) << ")";
                pr = tv.find_next_step(double(maxs));
                ++n_limited;
            }
            else
            {
                prog << " find";
                pr = tv.find_next_step();
            }
            if (std::isnan(pr.distance) || pr.distance < 0)
                return log.fail("invalid distance from find_next_step;"
                                + prog.str());
            bool judge = !e.fuzzy || true;
            if (limited && std::isfinite((double)e.lo)
                && fabsl(e.lo - maxs) <= 4 * dl + (e.hi - e.lo))
                judge = false;  // D ~ max: either answer acceptable
            if (judge)
            {
                bool expect_boundary = std::isfinite((double)e.lo)
                                       && (!limited || e.hi < maxs);
                if (pr.boundary != expect_boundary)
                {
                    std::ostringstream m;
                    m << "find_next_step" << (limited ? "(max)" : "")
                      << " boundary=" << pr.boundary << " distance="
                      << pr.distance << " but oracle exit is ["
                      << (double)e.lo << ", " << (double)e.hi << "], max="
                      << (double)maxs << "; program:" << prog.str();
                    return log.fail(m.str());
                }
                if (pr.boundary
                    && (pr.distance < e.lo - dl || pr.distance > e.hi + dl))
                {
                    std::ostringstream m;
                    m << "find_next_step distance " << pr.distance
                      << " outside oracle exit [" << (double)e.lo << ", "
                      << (double)e.hi << "]; program:" << prog.str();
                    return log.fail(m.str());
                }
                if (!pr.boundary && limited
                    && fabsl(pr.distance - maxs) > 1e-12L * maxs)
                    return log.fail("limited search without boundary must "
                                    "return the limit;"
                                    + prog.str());
                if (!pr.boundary && !limited && std::isfinite(pr.distance))
                    return log.fail("unlimited search without boundary must "
                                    "return infinity;"
                                    + prog.str());
            }
            has_next = true;
            next_is_boundary = pr.boundary;
            next_dist = pr.distance;
            if (!check_state("find_next_step"))
                return Verdict::violation;
        }
        else if (op == 1 && next_is_boundary)
        {
            prog << " to_bnd";
            tv.move_to_boundary();
            x = geo::along(x, u, next_dist);
            on_boundary = true;
            crossed = false;
            has_next = false;
            if (!check_state("move_to_boundary"))
                return Verdict::violation;
        }
        else if (op == 2 && next_dist > 0)
        {
            // move_internal(step) strictly inside the next step
            LD frac = c.real_in(0.01, 0.95);
            LD s = std::isfinite((double)next_dist) ? next_dist * frac
                                                    : f.scale * frac;
            if (!(s > 0) || (next_is_boundary && s >= next_dist))
                continue;
            log.mix(double(s));
            prog << " move(" << double(s) << ")";
            tv.move_internal(double(s));
            x = geo::along(x, u, s);
            next_dist -= s;
            on_boundary = false;
            if (!check_state("move_internal(step)"))
                return Verdict::violation;
        }
        else if (op == 3)
        {
            double nd[3];
            c.unit_vector(nd);
            for (int k = 0; k < 3; ++k)
                log.mix(nd[k]);
            prog << (on_boundary ? " set_dir@bnd+" : " set_dir");
            tv.set_dir(Real3{nd[0], nd[1], nd[2]});
            u = {{nd[0], nd[1], nd[2]}};
            has_next = false;
            if (on_boundary)
                ++n_setdir_boundary;
            if (!check_state("set_dir"))
                return Verdict::violation;
        }
        else if (op == 4 && !on_boundary)
        {
            // move_internal(pos): target joined to x by a segment inside the
            // current volume (oracle-proved)
            double w[3];
            c.unit_vector(w);
            V3 ww = {{w[0], w[1], w[2]}};
            Exit e = oracle_exit(f, x, ww);
            if (e.invalid)
                continue;
            LD dl = geo::delta_at(f.model, x);
            LD room = std::isfinite((double)e.lo) ? e.lo - 64 * dl
                                                  : LD(f.scale);
            if (!(room > 128 * dl))
                continue;
            LD s = room * c.real_in(0.05, 0.9);
            V3 tgt = geo::along(x, ww, s);
            prog << " move_pos";
            if (tv.level().get() >= 2)
                log.label("move-pos-at-level-2+");
            tv.move_internal(r3(tgt));
            x = {{(LD)(double)tgt[0], (LD)(double)tgt[1], (LD)(double)tgt[2]}};
            has_next = false;
            on_boundary = false;
            if (!check_state("move_internal(pos)"))
                return Verdict::violation;
        }
        else if (op == 5 && !on_boundary)
        {
            prog << " safety";
            double s = tv.find_safety();
            if (std::isnan(s) || s < 0)
                return log.fail("find_safety returned invalid value;"
                                + prog.str());
            if (!check_state("find_safety"))
                return Verdict::violation;
        }
    }
    log.ds("program", prog.str());
    log.count("program_ops", n_ops);
    log.nontrivial = src.rich && (n_setdir_boundary > 0 || n_limited > 0)
                     && n_ops >= 4;
    return Verdict::pass;
}

}  // namespace

void setup()
{
    geosrc_setup();
}

Verdict run_case(Choices& c, CaseLog& log)
{
    GeoSource src;
    Verdict gv = choose_geometry(c, log, src);
    if (gv != Verdict::pass)
        return gv;
    if (char const* dump = std::getenv("VERIF_DUMP_GEO"))
    {
        std::ofstream os(dump);
        nlohmann::json j = src.fix->input;
        os << j.dump(0);
    }
    int mode = int(c.pick({5, 1.5, 3}));
    log.mix(mode);
    try
    {
        switch (mode)
        {
            case 0:
                log.label("mode-ray");
                log.ds("mode", "ray");
                return mode_ray(src, c, log);
            case 1:
                log.label("mode-point");
                log.ds("mode", "point");
                return mode_point(src, c, log);
            default:
                log.label("mode-program");
                log.ds("mode", "program");
                return mode_program(src, c, log);
        }
    }
    catch (celeritas::RuntimeError const& e)
    {
        return log.fail(std::string("RuntimeError during navigation: ")
                        + e.what());
    }
    catch (celeritas::DebugError const& e)
    {
        return log.fail(std::string("DebugError during navigation: ")
                        + e.what());
    }
}

bool run_exhaustive(ExhaustiveResult&)
{
    return false;
}

}  // namespace verif
