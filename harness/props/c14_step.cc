// C14 (step utilities) — calc_physics_step_limit / calc_mean_energy_loss on a
// real PhysicsParams built from generated tables (own Process/Model
// subclasses, production builders), and MscStepToGeo / MscStepFromGeo on a
// directly filled UrbanMscData (same construction as MscParamsHelper::
// build_xs) with a real UrbanMscHelper on real Particle/PhysicsTrackViews.
//
// Oracle: long-double re-implementation of the documented algorithms on the
// value grids read back from the params under test, conditioning-aware
// tolerances, plus the universal claims of the property (0 <= loss <= E,
// loss(range) = E, monotone in the step, geom <= true, true' in [geom, true]).
#include <algorithm>
#include <cmath>
#include <memory>
#include <set>
#include <string>
#include <vector>

#include "caselog.hh"
#include "corecel/cont/Span.hh"
#include "corecel/data/Collection.hh"
#include "corecel/data/CollectionBuilder.hh"
#include "corecel/data/CollectionStateStore.hh"
#include "corecel/io/Logger.hh"
#include "corecel/sys/ActionRegistry.hh"
#include "celeritas/Quantities.hh"
#include "celeritas/em/data/UrbanMscData.hh"
#include "celeritas/em/msc/detail/MscStepFromGeo.hh"
#include "celeritas/em/msc/detail/MscStepToGeo.hh"
#include "celeritas/em/msc/detail/UrbanMscHelper.hh"
#include "celeritas/global/ActionInterface.hh"
#include "celeritas/grid/ValueGridBuilder.hh"
#include "celeritas/grid/ValueGridInserter.hh"
#include "celeritas/grid/XsGridData.hh"
#include "celeritas/mat/MaterialParams.hh"
#include "celeritas/mat/MaterialTrackView.hh"
#include "celeritas/phys/Model.hh"
#include "celeritas/phys/PDGNumber.hh"
#include "celeritas/phys/ParticleParams.hh"
#include "celeritas/phys/ParticleTrackView.hh"
#include "celeritas/phys/PhysicsParams.hh"
#include "celeritas/phys/PhysicsStepUtils.hh"
#include "celeritas/phys/PhysicsStepView.hh"
#include "celeritas/phys/PhysicsTrackView.hh"
#include "celeritas/phys/Process.hh"

namespace verif
{
char const* const kPropertyId = "C14";
char const* const kHarness = "c14_step";
size_t const kMaxBytes = 384;
char const* const kRule
    = "byte string -> (log grid 2..24 knots with ln-E bin width 0.05..0.7 (80%) or 0.7..6, dE/dx table const|smooth|rough "
      "with range = E/dedx (const) or trapezoid integral of 1/dedx, macro xs "
      "and MSC mfp tables, per (material, e-/e+) scale factors, "
      "linear_loss_limit 0|0.01|1|random, min_range, max_step_over_range, "
      "integral-xs flag) -> real PhysicsParams + UrbanMscData; 2..5 tracks "
      "(particle, material, energy inside/at knots/around the electron mass/"
      "below the table, interaction mfp); per track ordered steps in (0, "
      "range] incl. range, its lower ulp neighbour, the linear-loss switch "
      "point +-ulps and the physics step limit; MSC true paths incl. "
      "< min_step, around dtrl*range, = range; oracle = long double reference "
      "of the documented formulas on the grids read back from the params; "
      "non-trivial = a loss above the linear limit or an MSC step in the "
      "power-law branch was judged";

namespace
{
using namespace celeritas;
using ld = long double;
using MevEnergy = units::MevEnergy;
using VGT = ValueGridType;
constexpr double eps = 2.220446049250313e-16;
constexpr double kNear = 256;
constexpr double kTauSlope = 64;
constexpr double kTauMag = 8;

char const* const kLinAtRangeKey = "F17-eloss-linear-branch-at-full-range";
char const* const kNegLossKey = "F18-eloss-negative-roundoff-exact-branch";

std::string fmt(ld v)
{
    char buf[64];
    std::snprintf(buf, sizeof buf, "%.17Lg", v);
    return buf;
}

//---------------------------------------------------------------------------//
// Reference model of an XsGridData without prime scaling (see c14_calc.cc)
struct RefGrid
{
    int n = 0;
    bool range_mode = false;
    double front = 0, back = 0, delta = 0, c = 1;
    std::vector<double> raw;
    std::vector<ld> E;

    template<class Ref>
    void load(XsGridData const& g, Ref const& reals, bool is_range)
    {
        n = int(g.log_energy.size);
        front = g.log_energy.front;
        back = g.log_energy.back;
        delta = g.log_energy.delta;
        range_mode = is_range;
        raw.resize(n);
        E.resize(n);
        for (int i = 0; i < n; ++i)
        {
            raw[i] = reals[g.value[i]];
            E[i] = expl((ld)front + (ld)delta * i);
        }
        E[n - 1] = expl((ld)back);
        c = 1 + std::fabs(front) + std::fabs(back);
    }
    int region(double e) const
    {
        if ((ld)e <= E[0])
            return -1;
        if ((ld)e >= E[n - 1])
            return n - 1;
        int k = int(std::upper_bound(E.begin(), E.end(), (ld)e) - E.begin())
                - 1;
        return std::min(std::max(k, 0), n - 2);
    }
    ld value(int r, double e) const
    {
        if (r < 0)
            return range_mode ? raw[0] * sqrtl((ld)e / E[0]) : (ld)raw[0];
        if (r >= n - 1)
            return raw[n - 1];
        ld t = ((ld)e - E[r]) / (E[r + 1] - E[r]);
        return raw[r] + ((ld)raw[r + 1] - raw[r]) * t;
    }
    void slope_mag(int r, double e, ld& S, ld& M) const
    {
        ld s = 0, m = 0;
        if (r < 0)
        {
            m = fabsl(value(r, e));
            s = range_mode ? m / 2 : 0;
        }
        else if (r >= n - 1)
            m = raw[n - 1];
        else
        {
            s = (ld)e * fabsl((ld)raw[r + 1] - raw[r]) / (E[r + 1] - E[r]);
            m = std::max(raw[r], raw[r + 1]);
        }
        S = std::max(S, s);
        M = std::max(M, m);
    }
    struct Ref
    {
        ld v, tau;
        int region;
    };
    Ref eval(double e) const
    {
        Ref r;
        r.region = region(e);
        r.v = value(r.region, e);
        ld S = 0, M = 0;
        slope_mag(r.region, e, S, M);
        ld w = kNear * eps * c * (ld)e;
        if (r.region >= 0 && (ld)e - E[r.region] <= w)
            slope_mag(r.region - 1, e, S, M);
        if (r.region <= n - 2 && E[r.region + 1] - (ld)e <= w)
            slope_mag(r.region + 1, e, S, M);
        r.tau = kTauSlope * eps * c * S + kTauMag * eps * M;
        return r;
    }
    // inverse of a range table: energy for range rr in [0, raw.back()],
    // with tolerance for an uncertainty `dr` of the argument
    struct Inv
    {
        ld v, tol;
    };
    Inv inverse(ld rr, ld dr) const
    {
        Inv o;
        ld cond;  // |dE/dr| around rr
        int k;
        if (rr < raw[0])
        {
            ld s = rr / raw[0];
            o.v = E[0] * s * s;
            cond = 2 * E[0] * s / raw[0];
            k = 0;
            o.tol = 16 * eps * c * o.v;
        }
        else if (rr >= raw[n - 1])
        {
            o.v = E[n - 1];
            cond = 0;
            k = n - 2;
            o.tol = 16 * eps * c * o.v;
        }
        else
        {
            k = int(std::upper_bound(raw.begin(), raw.end(), (double)rr)
                    - raw.begin())
                - 1;
            k = std::min(std::max(k, 0), n - 2);
            ld t = (rr - raw[k]) / ((ld)raw[k + 1] - raw[k]);
            o.v = E[k] + (E[k + 1] - E[k]) * t;
            cond = 0;
            o.tol = 16 * eps * c * E[k + 1];
        }
        // conditioning over every bin the perturbed argument can reach
        int jlo = std::max(0, k - 1), jhi = std::min(n - 2, k + 1);
        while (jlo > 0 && (ld)raw[jlo] >= rr - dr)
            --jlo;
        while (jhi < n - 2 && (ld)raw[jhi + 1] <= rr + dr)
            ++jhi;
        for (int j = jlo; j <= jhi; ++j)
            cond = std::max(cond,
                            (E[j + 1] - E[j]) / ((ld)raw[j + 1] - raw[j]));
        if (rr - dr < raw[0])
            cond = std::max(cond, 2 * E[0] / raw[0]);
        o.tol += dr * cond;
        return o;
    }
};


//---------------------------------------------------------------------------//
struct Tables
{
    std::vector<double> e, xs, dedx, range, msc;  // msc = E^2 / lambda
};

struct Shared
{
    std::shared_ptr<ParticleParams const> particles;
    std::shared_ptr<MaterialParams const> materials;
    ParticleId el, po;
    CollectionStateStore<ParticleStateData, MemSpace::host> pstate;
    CollectionStateStore<MaterialStateData, MemSpace::host> mstate;
};
Shared* g_sh = nullptr;

class GenModel final : public celeritas::Model
{
  public:
    GenModel(ActionId id, ParticleId el, ParticleId po, double lo, double hi)
        : id_(id), el_(el), po_(po), lo_(lo), hi_(hi)
    {
    }
    SetApplicability applicability() const final
    {
        Applicability a, b;
        a.particle = el_;
        b.particle = po_;
        a.lower = b.lower = MevEnergy{lo_};
        a.upper = b.upper = MevEnergy{hi_};
        return {a, b};
    }
    MicroXsBuilders micro_xs(Applicability) const final { return {}; }
    void step(CoreParams const&, CoreStateHost&) const final {}
    void step(CoreParams const&, CoreStateDevice&) const final {}
    ActionId action_id() const final { return id_; }
    std::string_view label() const final { return "gen-model"; }
    std::string_view description() const final { return "generated model"; }

  private:
    ActionId id_;
    ParticleId el_, po_;
    double lo_, hi_;
};

class GenProcess final : public celeritas::Process
{
  public:
    ParticleId el, po;
    Tables t[2][2];  // [material][0 = electron, 1 = positron]
    bool integral = false;

    VecModel build_models(ActionIdIter start_id) const final
    {
        return {std::make_shared<GenModel>(
            *start_id, el, po, t[0][0].e.front(), t[0][0].e.back())};
    }
    StepLimitBuilders step_limits(Applicability a) const final
    {
        Tables const& tt = t[a.material.get()][a.particle == el ? 0 : 1];
        StepLimitBuilders b;
        b[VGT::macro_xs] = ValueGridLogBuilder::from_geant(make_span(tt.e),
                                                           make_span(tt.xs));
        b[VGT::energy_loss] = ValueGridLogBuilder::from_geant(
            make_span(tt.e), make_span(tt.dedx));
        b[VGT::range] = ValueGridLogBuilder::from_range(make_span(tt.e),
                                                        make_span(tt.range));
        return b;
    }
    bool use_integral_xs() const final { return integral; }
    std::string_view label() const final { return "gen-process"; }
};

}  // namespace

void setup()
{
    using namespace celeritas;
    world_logger().level(LogLevel::critical);
    self_logger().level(LogLevel::critical);
    g_sh = new Shared;
    {
        using namespace celeritas::units;
        ParticleParams::Input inp;
        inp.push_back({"electron",
                       pdg::electron(),
                       MevMass{0.5109989461},
                       ElementaryCharge{-1},
                       constants::stable_decay_constant});
        inp.push_back({"positron",
                       pdg::positron(),
                       MevMass{0.5109989461},
                       ElementaryCharge{1},
                       constants::stable_decay_constant});
        g_sh->particles = std::make_shared<ParticleParams>(std::move(inp));
        g_sh->el = g_sh->particles->find(pdg::electron());
        g_sh->po = g_sh->particles->find(pdg::positron());
    }
    {
        using namespace celeritas::units;
        MaterialParams::Input inp;
        inp.elements = {{AtomicNumber{13}, AmuMass{27.0}, {}, "Al"},
                        {AtomicNumber{82}, AmuMass{207.2}, {}, "Pb"}};
        inp.materials.push_back(
            {6e22, 300, MatterState::solid, {{ElementId{0}, 1.0}}, "al"});
        inp.materials.push_back(
            {3.3e22, 300, MatterState::solid, {{ElementId{1}, 1.0}}, "pb"});
        g_sh->materials = std::make_shared<MaterialParams>(std::move(inp));
    }
    g_sh->pstate = CollectionStateStore<ParticleStateData, MemSpace::host>(
        g_sh->particles->host_ref(), 1);
    g_sh->mstate = CollectionStateStore<MaterialStateData, MemSpace::host>(
        g_sh->materials->host_ref(), 1);
}

namespace
{
//---------------------------------------------------------------------------//
std::vector<double>
gen_shape(Choices& c, int n, double du, int cls, double A, double amin, double amax)
{
    // cls 0 const, 1 smooth, 2 rough
    std::vector<double> y(n, A);
    if (cls == 1)
    {
        double a = c.real_in(amin, amax), w = c.real_in(0, 2),
               ph = c.real_in(0, 6.3);
        for (int i = 0; i < n; ++i)
            y[i] = A * std::exp(a * du * i)
                   * (1 + 0.4 * std::sin(w * du * i + ph));
    }
    else if (cls == 2)
    {
        double a = c.real_in(amin, amax);
        double span = c.boolean(0.5) ? 0.1 : 1.0;
        for (int i = 0; i < n; ++i)
            y[i] = A * std::exp(a * du * i)
                   * std::pow(10.0, span * (c.unit16() - 0.5));
    }
    for (auto& v : y)
        if (!(v > 0) || !std::isfinite(v))
            v = A;
    return y;
}

struct Track
{
    ParticleId pid;
    MaterialId mid;
    double E;
};

//---------------------------------------------------------------------------//
// long double references of the MSC path conversions
ld ref_geo_const(ld lambda, ld t)
{
    return -lambda * expm1l(-t / lambda);
}
ld ref_geo_power(ld alpha, ld lambda, ld slope)
{
    ld w = 1 + 1 / (alpha * lambda);
    ld sw = slope > 0 ? expl(w * logl(slope)) : 0;
    return (1 - sw) / (alpha * w);
}
ld ref_true_const(ld lambda, ld g)
{
    return -lambda * log1pl(-g / lambda);
}
ld ref_true_power(ld alpha, ld lambda, ld g)
{
    ld w = 1 + 1 / (alpha * lambda);
    ld x = std::min<ld>(alpha * w * g, 1);
    ld p = (1 - x) > 0 ? expl(logl(1 - x) / w) : 0;
    return (1 - p) / alpha;
}

}  // namespace

Verdict run_case(Choices& c, CaseLog& log)
{
    Shared& sh = *g_sh;
    // ---- tables
    int n = c.boolean(0.6) ? int(c.int_in(2, 8)) : int(c.int_in(9, 24));
    double emin = c.log_uniform(1e-4, 0.3);
    // bin width in ln E: mostly Geant4-like (7..20 bins per decade), with a
    // coarse tail
    double du = c.boolean(0.8) ? c.log_uniform(0.05, 0.7)
                               : c.log_uniform(0.7, 6);
    double width = du * (n - 1);
    double front = std::log(emin);
    std::vector<double> eu(n);
    for (int i = 0; i < n; ++i)
        eu[i] = std::exp(front + du * i);
    eu[0] = emin;
    int cls = int(c.pick({2, 3, 2}));
    static char const* const cls_names[]
        = {"dedx-const-consistent", "dedx-smooth", "dedx-rough"};
    log.label(cls_names[cls]);
    log.mix(n);
    log.mix(emin);
    log.mix(width);
    log.mix(cls);
    auto dedx0 = gen_shape(c, n, du, cls, c.log_uniform(1e-2, 1e3), -1.0, 0.5);
    auto xs0 = gen_shape(
        c, n, du, int(c.pick({1, 2, 1})), c.log_uniform(1e-3, 1e3), -1, 1);
    auto lam0 = gen_shape(
        c, n, du, int(c.pick({1, 3, 2})), c.log_uniform(1e-6, 1e0), 0.3, 2);
    double r0k = cls == 0 ? 1.0 : c.log_uniform(0.5, 2);

    auto proc = std::make_shared<GenProcess>();
    proc->el = sh.el;
    proc->po = sh.po;
    proc->integral = c.boolean(0.4);
    log.label(proc->integral ? "integral-xs" : "plain-xs");
    for (int m = 0; m < 2; ++m)
        for (int p = 0; p < 2; ++p)
        {
            double f = (m == 0 && p == 0) ? 1.0 : c.log_uniform(0.1, 10);
            log.mix(f);
            Tables& t = proc->t[m][p];
            t.e = eu;
            t.xs.resize(n);
            t.dedx.resize(n);
            t.range.resize(n);
            t.msc.resize(n);
            for (int i = 0; i < n; ++i)
            {
                t.xs[i] = xs0[i] * f;
                t.dedx[i] = dedx0[i] * f;
                t.msc[i] = eu[i] * eu[i] / (lam0[i] / f);
                log.mix(t.dedx[i]);
            }
            if (cls == 0)
            {
                for (int i = 0; i < n; ++i)
                    t.range[i] = eu[i] / t.dedx[i];
            }
            else
            {
                t.range[0] = r0k * eu[0] / t.dedx[0];
                for (int i = 1; i < n; ++i)
                {
                    double inc = 0.5 * (eu[i] - eu[i - 1])
                                 * (1 / t.dedx[i] + 1 / t.dedx[i - 1]);
                    double v = t.range[i - 1] + inc;
                    t.range[i] = v > t.range[i - 1]
                                     ? v
                                     : std::nextafter(t.range[i - 1], INFINITY);
                }
            }
            for (int i = 0; i + 1 < n; ++i)
                if (!(t.range[i] < t.range[i + 1]))
                    return Verdict::trivial;
            if (!(t.range[0] > 0) || !std::isfinite(t.range[n - 1]))
                return Verdict::trivial;
        }

    // ---- options
    PhysicsParams::Input pin;
    pin.particles = sh.particles;
    pin.materials = sh.materials;
    pin.processes.push_back(proc);
    ActionRegistry reg;
    pin.action_registry = &reg;
    switch (c.pick({2, 2, 1, 3}))
    {
        case 0: pin.options.linear_loss_limit = 0.01; break;
        case 1: pin.options.linear_loss_limit = 0; break;
        case 2: pin.options.linear_loss_limit = 1; break;
        default: pin.options.linear_loss_limit = c.unit32(); break;
    }
    double rtyp = proc->t[0][0].range[n / 2];
    pin.options.min_range = c.boolean(0.3) ? 0.1
                                           : rtyp * c.log_uniform(1e-3, 1e3);
    pin.options.max_step_over_range = c.boolean(0.3) ? 0.2
                                                     : c.real_in(0.01, 1.0);
    if (!(pin.options.max_step_over_range > 0))
        pin.options.max_step_over_range = 0.2;
    double const lll = pin.options.linear_loss_limit;
    log.mix(lll);
    log.mix(pin.options.min_range);
    log.mix(pin.options.max_step_over_range);
    log.label(lll == 0 ? "lll-0" : lll == 1 ? "lll-1" : "lll-interior");
    if (log.want_desc)
    {
        log.d("n", n);
        log.d("emin", emin);
        log.d("width", width);
        log.ds("class", cls_names[cls]);
        log.d("lll", lll);
        log.d("min_range", pin.options.min_range);
        log.d("max_step_over_range", pin.options.max_step_over_range);
        log.d("integral", proc->integral);
        log.dv("e", eu.data(), n);
        log.dv("dedx00", proc->t[0][0].dedx.data(), n);
        log.dv("range00", proc->t[0][0].range.data(), n);
    }

    std::shared_ptr<PhysicsParams> physics;
    try
    {
        physics = std::make_shared<PhysicsParams>(std::move(pin));
    }
    catch (RuntimeError const& e)
    {
        log.label("physics-rejected");
        return Verdict::rejected;
    }
    auto const& pref = physics->host_ref();
    CollectionStateStore<PhysicsStateData, MemSpace::host> phys_state(pref, 1);

    // ---- MSC data (as MscParamsHelper::build_xs does)
    HostVal<UrbanMscData> md;
    md.ids.electron = sh.el;
    md.ids.positron = sh.po;
    md.electron_mass = sh.particles->get(sh.el).mass();
    md.params.low_energy_limit = MevEnergy{eu.front()};
    md.params.high_energy_limit = MevEnergy{eu.back()};
    {
        auto mb = make_builder(&md.material_data);
        auto pb = make_builder(&md.par_mat_data);
        auto xb = make_builder(&md.xs);
        ValueGridInserter::XsGridCollection xgc;
        ValueGridInserter vgi{&md.reals, &xgc};
        for (int m = 0; m < 2; ++m)
        {
            mb.push_back(UrbanMscMaterialData{});
            for (int p = 0; p < 2; ++p)
            {
                UrbanMscParMatData pm;
                pm.scaled_zeff = 1;
                pm.d_over_r = 1;
                pb.push_back(pm);
                auto vgb = ValueGridLogBuilder::from_geant(
                    make_span(proc->t[m][p].e), make_span(proc->t[m][p].msc));
                auto id = vgb->build(vgi);
                xb.push_back(xgc[id]);
            }
        }
    }
    HostCRef<UrbanMscData> mref;
    mref = md;
    if (!mref)
        return log.fail("UrbanMscData invalid after construction");

    // ---- tracks
    ParticleTrackView particle(
        sh.particles->host_ref(), sh.pstate.ref(), TrackSlotId{0});
    MaterialTrackView material(
        sh.materials->host_ref(), sh.mstate.ref(), TrackSlotId{0});
    PhysicsStepView pstep(pref, phys_state.ref(), TrackSlotId{0});
    double const emass = 0.5109989461;
    int ntracks = int(c.int_in(2, 5));
    long n_nonlin = 0, n_power = 0;
    bool known_seen = false, known13 = false;
    std::string known_msg, known13_msg;

    for (int it = 0; it < ntracks; ++it)
    {
        Track tr;
        int pi = int(c.int_in(0, 1)), mi = int(c.int_in(0, 1));
        tr.pid = pi == 0 ? sh.el : sh.po;
        tr.mid = MaterialId(mi);
        switch (c.pick({4, 3, 2, 1}))
        {
            case 0:
                tr.E = std::exp(front + width * c.unit53());
                log.count("E_inside");
                break;
            case 1: {
                int k = int(c.int_in(0, n - 1));
                tr.E = c.ulp_neighbour(eu[k], 2);
                log.count("E_knot_pm2ulp");
                break;
            }
            case 2:
                tr.E = c.boolean(0.5)
                           ? c.ulp_neighbour(emass, 2)
                           : emass * std::exp(c.real_in(-1, 1));
                log.count("E_around_electron_mass");
                break;
            default:
                tr.E = emin * std::exp(-c.log_uniform(1e-3, 5));
                log.count("E_below_table");
                break;
        }
        if (!(tr.E > 0))
            tr.E = emin;
        if (tr.E > eu.back())
        {
            // above the table the range is clipped (not a range any more):
            // outside the domain of the step utilities
            tr.E = std::exp(front + width * c.unit53());
            log.count("E_above_table_redrawn");
        }
        double mfp = c.log_uniform(1e-6, 1e3);
        log.mix(tr.E);
        log.mix(mfp);
        log.mix(pi * 2 + mi);
        if (log.want_desc)
        {
            log.d("track_particle", pi);
            log.d("track_material", mi);
            log.d("E", fmt(tr.E));
            log.d("mfp", mfp);
        }
        double const E = tr.E;

        particle = ParticleTrackView::Initializer_t{tr.pid, MevEnergy{E}};
        material = MaterialTrackView::Initializer_t{tr.mid};
        PhysicsTrackView phys(
            pref, phys_state.ref(), tr.pid, tr.mid, TrackSlotId{0});
        phys = PhysicsTrackView::Initializer_t{};
        phys.interaction_mfp(mfp);
        if (phys.num_particle_processes() != 1 || !phys.eloss_ppid())
            return log.fail("generated process not registered as the single "
                            "energy-loss process");
        auto ppid = phys.eloss_ppid();

        // reference grids from the params under test
        RefGrid gx, gd, gr;
        auto gid_x = phys.value_grid(VGT::macro_xs, ppid);
        auto gid_d = phys.value_grid(VGT::energy_loss, ppid);
        auto gid_r = phys.value_grid(VGT::range, ppid);
        if (!gid_x || !gid_d || !gid_r)
            return log.fail("missing value grid");
        gx.load(pref.value_grids[gid_x], pref.reals, false);
        gd.load(pref.value_grids[gid_d], pref.reals, false);
        gr.load(pref.value_grids[gid_r], pref.reals, true);
        Tables const& tt = proc->t[mi][pi];
        for (int i = 0; i < n; ++i)
            if (gx.raw[i] != tt.xs[i] || gd.raw[i] != tt.dedx[i]
                || gr.raw[i] != tt.range[i])
                return log.fail("value grid of (material, particle) does not "
                                "hold the tables supplied for it");

        // ================= calc_physics_step_limit =====================
        StepLimit lim = calc_physics_step_limit(material, particle, phys, pstep);
        double const range = phys.dedx_range();
        {
            auto rr = gr.eval(E);
            if (std::isnan(range) || !(range > 0)
                || fabsl(range - rr.v) > rr.tau)
                return log.fail("dedx_range stored by calc_physics_step_limit "
                                "= "
                                + fmt(range) + " but reference range at E="
                                + fmt(E) + " is " + fmt(rr.v) + " (tau "
                                + fmt(rr.tau) + ")");
            // total macro xs
            ld xs_ref, xs_tau;
            bool xs_ok = true;
            auto x0 = gx.eval(E);
            if (!proc->integral)
            {
                xs_ref = x0.v;
                xs_tau = x0.tau;
            }
            else
            {
                int am = 0;
                for (int i = 1; i < n; ++i)
                    if (gx.raw[i] > gx.raw[am])
                        am = i;
                for (int i = 0; i < n; ++i)
                    if (i != am && gx.raw[i] >= gx.raw[am] * (1 - 1e-12))
                        xs_ok = false;  // ambiguous arg max
                double emx = std::exp(gx.front + gx.delta * am);
                double exi = E * pref.scalars.min_eprime_over_e;
                if (std::fabs(emx - exi) < 1e-12 * emx
                    || std::fabs(emx - E) < 1e-12 * emx)
                    xs_ok = false;  // branch ambiguous by rounding
                if (emx >= exi && emx < E)
                {
                    auto xm = gx.eval(emx);
                    xs_ref = xm.v;
                    xs_tau = xm.tau;
                }
                else
                {
                    auto x1 = gx.eval(exi);
                    xs_ref = std::max(x0.v, x1.v);
                    xs_tau = std::max(x0.tau, x1.tau);
                }
            }
            double xs_got = pstep.macro_xs();
            if (xs_ok)
            {
                if (std::isnan(xs_got) || fabsl(xs_got - xs_ref) > xs_tau)
                    return log.fail("total macro xs " + fmt(xs_got)
                                    + " differs from reference " + fmt(xs_ref));
                log.count("macro_xs_judged");
            }
            // range -> step
            ld rho = pref.scalars.min_range, al = pref.scalars.max_step_over_range;
            ld s_scaled = al * range + rho * (1 - al) * (2 - rho / range);
            ld thr = rho * (1 + (ld)sqrt_tol());
            bool amb = fabsl(range - thr) <= 4 * eps * thr;
            ld eloss_step = range < thr ? (ld)range : s_scaled;
            ld disc = (ld)mfp / xs_got;
            ld want = std::min(eloss_step, disc);
            ld alt = std::min<ld>(range < thr ? s_scaled : (ld)range, disc);
            ld tol = 8 * eps * want;
            if (std::isnan(lim.step) || !(lim.step > 0) || lim.step > range
                || (fabsl(lim.step - want) > tol
                    && !(amb && fabsl(lim.step - alt) <= 8 * eps * alt)))
                return log.fail("calc_physics_step_limit step " + fmt(lim.step)
                                + " differs from min(mfp/xs, range_to_step) = "
                                + fmt(want) + " (range " + fmt(range) + ")");
            bool near_tie = fabsl(eloss_step - disc) <= 16 * eps * disc;
            if (!near_tie && !amb)
            {
                ActionId expect = eloss_step <= disc
                                      ? pref.scalars.range_action()
                                      : pref.scalars.discrete_action();
                if (lim.action != expect)
                    return log.fail("calc_physics_step_limit chose the wrong "
                                    "limiting action");
            }
            log.count(eloss_step <= disc ? "limit_by_range"
                                         : "limit_by_discrete");
        }

        // ================= calc_mean_energy_loss ========================
        {
            auto dd = gd.eval(E);
            // ordered step sequence in (0, range]
            std::vector<double> steps;
            steps.push_back(range);
            steps.push_back(std::nextafter(range, 0.0));
            steps.push_back(lim.step);
            if (dd.v > 0)
            {
                double ssw = double(lll * E / dd.v);
                if (ssw > 0 && ssw < range)
                {
                    steps.push_back(Choices::step_ulps(ssw, -2));
                    steps.push_back(Choices::step_ulps(ssw, 2));
                    steps.push_back(ssw * (1 + 1e-6));
                    log.count("step_at_linear_switch", 3);
                }
            }
            int extra = int(c.int_in(2, 4));
            for (int j = 0; j < extra; ++j)
            {
                double s = c.boolean(0.5) ? range * c.unit53()
                                          : range * c.log_uniform(1e-12, 1);
                steps.push_back(s);
            }
            std::sort(steps.begin(), steps.end());
            steps.erase(std::unique(steps.begin(), steps.end()), steps.end());
            double prev_loss = -1, prev_step = 0;
            int prev_branch = -1;
            ld e_hi = gr.region(E) >= n - 1 ? (ld)E
                                            : gr.E[std::max(0, gr.region(E)) + 1];
            e_hi = std::max(e_hi, (ld)E);
            for (double s : steps)
            {
                if (!(s > 0 && s <= range))
                    continue;
                log.mix(s);
                double loss = calc_mean_energy_loss(particle, phys, s).value();
                auto where = [&] {
                    return " (E=" + fmt(E) + ", step=" + fmt(s)
                           + ", range=" + fmt(range) + ", lll=" + fmt(lll) + ")";
                };
                if (std::isnan(loss) || std::isinf(loss))
                    return log.fail("mean energy loss not finite" + where());
                if (loss > E)
                    return log.fail("mean energy loss " + fmt(loss)
                                    + " exceeds the particle energy" + where());
                // reference of the documented algorithm
                ld lin = (ld)s * dd.v, lin_tol = (ld)s * dd.tau + 4 * eps * lin;
                ld thr = (ld)E * lll;
                bool can_lin = lin - lin_tol < thr;
                bool can_exact = lin + lin_tol >= thr;
                ld ex, ex_tol;
                if (s == range)
                {
                    ex = E;
                    ex_tol = 0;
                }
                else
                {
                    double rr = range - s;
                    auto inv = gr.inverse(rr, 0);
                    ex = (ld)E - inv.v;
                    ex_tol = inv.tol + 2 * eps * E;
                }
                bool ok_lin = can_lin && fabsl(loss - lin) <= lin_tol;
                bool ok_ex = can_exact && fabsl(loss - ex) <= ex_tol;
                if (!ok_lin && !ok_ex)
                    return log.fail(
                        "mean energy loss " + fmt(loss)
                        + " matches neither step*dE/dx = " + fmt(lin)
                        + (can_lin ? "" : " [excluded]")
                        + " nor E - E(range-step) = " + fmt(ex)
                        + (can_exact ? "" : " [excluded]") + where());
                int branch;
                if (loss < 0)
                {
                    // exact input class of F13: the exact branch E - E(range
                    // - step) evaluated for a step so small that the
                    // difference is below the rounding error of the inverse
                    // range (only reachable with linear_loss_limit ~ 0)
                    if (ok_ex && !ok_lin && fabsl(loss) <= ex_tol)
                    {
                        if (!known13)
                        {
                            known13 = true;
                            known13_msg = "mean energy loss negative: "
                                          + fmt(loss)
                                          + " (exact branch, reference "
                                          + fmt(ex) + ")" + where();
                        }
                    }
                    else
                        return log.fail("mean energy loss negative: "
                                        + fmt(loss) + where());
                }
                if (ok_lin && !ok_ex)
                    branch = 0;
                else if (ok_ex && !ok_lin)
                    branch = 1;
                else
                    branch = can_exact ? 1 : 0;
                if (branch == 1)
                    ++n_nonlin;
                log.count(branch == 1 ? "loss_exact_branch"
                                      : "loss_linear_branch");
                // full range => full energy
                if (s == range && loss != E)
                {
                    // exact input class of F12: the linear branch was taken
                    // (loss == step * dE/dx below linear_loss_limit * E)
                    if (ok_lin && can_lin)
                    {
                        log.count(lll <= 0.01 ? "F12_hits_lll_le_0.01"
                                  : lll < 0.5  ? "F12_hits_lll_0.01..0.5"
                                               : "F12_hits_lll_ge_0.5");
                        if (!known_seen)
                        {
                            known_seen = true;
                            known_msg
                                = "step == range but the mean energy loss is "
                                  + fmt(loss)
                                  + " < E: linear branch taken because "
                                    "range*dE/dx = "
                                  + fmt(lin) + " < linear_loss_limit*E"
                                  + where();
                        }
                    }
                    else
                        return log.fail("step == range but loss " + fmt(loss)
                                        + " != E" + where());
                }
                // non-decreasing in the step
                if (prev_loss >= 0)
                {
                    ld mtol = 64 * eps * gr.c * e_hi;
                    if (loss < prev_loss - mtol)
                    {
                        bool consistent = cls == 0 && range - s >= gr.raw[0]
                                          && E <= (double)gr.E[n - 1];
                        if (branch == prev_branch
                            || (consistent && loss < prev_loss - 1e-9 * E))
                            return log.fail(
                                "mean energy loss decreases with the step: "
                                "loss("
                                + fmt(prev_step) + ")=" + fmt(prev_loss)
                                + " > loss(" + fmt(s) + ")=" + fmt(loss)
                                + where());
                        if (branch != prev_branch)
                            log.count("decrease_across_linear_switch_"
                                      "inconsistent_tables");
                    }
                }
                prev_loss = loss;
                prev_step = s;
                prev_branch = branch;
            }
        }

        // ================= MSC path conversions =========================
        if (E > eu.front() && E < eu.back())
        {
            detail::UrbanMscHelper helper(mref, particle, phys);
            double const lambda = helper.msc_mfp();
            RefGrid gm;
            gm.load(mref.xs[mref.at<XsGridData>(tr.mid, tr.pid)],
                    mref.reals,
                    false);
            for (int i = 0; i < n; ++i)
                if (gm.raw[i] != tt.msc[i])
                    return log.fail("MSC xs grid of (material, particle) does "
                                    "not hold the supplied table");
            auto mfp_ref = [&](ld e, ld& v, ld& tol) {
                auto x = gm.eval((double)e);
                v = e * e / x.v;
                tol = v * (x.tau / x.v + 8 * eps);
            };
            {
                ld v, tol;
                mfp_ref(E, v, tol);
                if (std::isnan(lambda) || !(lambda > 0)
                    || fabsl(lambda - v) > tol)
                    return log.fail("msc_mfp " + fmt(lambda)
                                    + " differs from E^2/xs reference "
                                    + fmt(v));
            }
            double const min_step = UrbanMscParameters::min_step();
            double const dtrl = UrbanMscParameters::dtrl();
            int nt = int(c.int_in(2, 4));
            for (int j = 0; j < nt; ++j)
            {
                double t;
                switch (c.pick({2, 2, 2, 2, 1, 1}))
                {
                    case 0: t = range; break;
                    case 1: t = c.ulp_neighbour(range * dtrl, 2); break;
                    case 2: t = range * c.real_in53(dtrl, 1); break;
                    case 3: t = range * c.log_uniform(1e-9, dtrl); break;
                    case 4: t = c.ulp_neighbour(min_step, 2); break;
                    default: t = std::nextafter(range, 0.0); break;
                }
                if (!(t > 0))
                    t = range;
                t = std::min(t, range);
                log.mix(t);
                detail::MscStepToGeo to_geo(
                    mref, helper, MevEnergy{E}, lambda, range);
                auto gp = to_geo(t);
                auto where = [&] {
                    return " (E=" + fmt(E) + ", lambda=" + fmt(lambda)
                           + ", range=" + fmt(range) + ", true=" + fmt(t)
                           + ")";
                };
                if (std::isnan(gp.step) || std::isnan(gp.alpha)
                    || std::isinf(gp.alpha))
                    return log.fail("MscStepToGeo returned NaN/inf: step "
                                    + fmt(gp.step) + " alpha " + fmt(gp.alpha)
                                    + where());
                if (gp.step > t)
                    return log.fail("geometric path " + fmt(gp.step)
                                    + " longer than the true path" + where());
                if (!(gp.step > 0))
                    return log.fail("geometric path " + fmt(gp.step)
                                    + " not positive" + where());
                // reference per branch
                ld zref, ztol, aref = 0;
                int br;
                bool judged = true;
                if (t < min_step)
                {
                    br = 0;
                    zref = t;
                    ztol = 0;
                    log.count("msc_tiny_step");
                }
                else if (t < range * dtrl)
                {
                    br = 1;
                    zref = ref_geo_const(lambda, t);
                    ztol = 16 * eps * zref;
                    log.count("msc_const_xs_branch");
                }
                else if (E < emass || t == range)
                {
                    br = 2;
                    aref = 1 / (ld)range;
                    // slope as the code rounds it; conditioning by perturbing
                    // the slope by its rounding error
                    ld slope = std::max<ld>(1 - (ld)t / range, 0);
                    ld z0 = ref_geo_power(aref, lambda, slope);
                    ld z1 = ref_geo_power(
                        aref, lambda, std::min<ld>(slope + 2 * eps, 1));
                    ld z2 = ref_geo_power(
                        aref, lambda, std::max<ld>(slope - 2 * eps, 0));
                    zref = z0;
                    ld w = 1 + range / (ld)lambda;
                    ld sl = std::max<ld>(slope, 1e-300L);
                    ld sw = expl(w * logl(sl));
                    // (1 - s^w) carries an absolute error eps s^w (1 + w|ln s|)
                    ztol = 4 * (fabsl(z1 - z0) + fabsl(z2 - z0))
                           + 64 * eps
                                 * (zref
                                    + sw * (1 + w * fabsl(logl(sl)))
                                          / (aref * w));
                    ++n_power;
                    log.count("msc_power_branch_lowE_or_range");
                }
                else
                {
                    br = 3;
                    double rfinal = range - t;
                    auto inv = gr.inverse(rfinal, 0);
                    ld l1, l1tol;
                    mfp_ref(inv.v, l1, l1tol);
                    // error of the end-point energy propagated through the
                    // mfp: evaluate at the perturbed energies
                    ld la, lb, ta, tb;
                    mfp_ref(std::max<ld>(inv.v - inv.tol, 1e-300L), la, ta);
                    mfp_ref(inv.v + inv.tol, lb, tb);
                    ld dl = fabsl(la - l1) + fabsl(lb - l1) + l1tol + ta + tb;
                    auto zf = [&](ld lam1) {
                        ld a = ((ld)lambda - lam1) / ((ld)lambda * t);
                        return ref_geo_power(a, lambda, lam1 / (ld)lambda);
                    };
                    aref = ((ld)lambda - l1) / ((ld)lambda * t);
                    zref = zf(l1);
                    ld zlo = zf(std::max<ld>(l1 - dl, 1e-300L)), zhi = zf(l1 + dl);
                    {
                        ld sl = l1 / (ld)lambda;
                        ld w = 1 + 1 / (aref * lambda);
                        ld sw = expl(w * logl(sl));
                        ztol = 4 * (fabsl(zlo - zref) + fabsl(zhi - zref))
                               + 256 * eps
                                     * (fabsl(zref)
                                        + fabsl(sw * (1 + fabsl(w * logl(sl)))
                                                / (aref * w)));
                    }
                    // alpha = (lambda - lambda1) / (lambda t) is computed by
                    // the code in double: its relative rounding error is
                    // amplified by lambda / |lambda - lambda1| and enters the
                    // geometric path through w = 1 + 1/(alpha lambda)
                    ztol += 64 * eps * fabsl(zref) * (ld)lambda
                            / std::max<ld>(fabsl((ld)lambda - l1), 1e-300L)
                            * (1 + fabsl(logl(l1 / (ld)lambda)));
                    // ill-conditioned when lambda1 ~ lambda (alpha ~ 0)
                    if (fabsl((ld)lambda - l1) < 1e-6 * lambda
                        || std::isnan(zlo) || std::isnan(zhi)
                        || std::isnan(zref))
                        judged = false;
                    ++n_power;
                    log.count("msc_power_branch_energy_loss");
                }
                if (judged)
                {
                    ld zc = std::min<ld>(zref, t);
                    if (fabsl(gp.step - zc) > ztol + 4 * eps * t)
                        return log.fail("geometric path " + fmt(gp.step)
                                        + " differs from the reference "
                                        + fmt(zc) + " (tol " + fmt(ztol)
                                        + ", branch " + std::to_string(br)
                                        + ")" + where());
                    log.count("msc_to_geo_judged");
                }
                // ---- back conversion
                MscStep ms;
                ms.true_path = t;
                ms.geom_path = gp.step;
                ms.alpha = gp.alpha;
                detail::MscStepFromGeo from_geo(mref.params, ms, range, lambda);
                double gs[4];
                int ng = 0;
                gs[ng++] = gp.step;
                gs[ng++] = std::min(gp.step, lambda);  // caller's 1-mfp limit
                gs[ng++] = gp.step * c.unit53();
                gs[ng++] = c.ulp_neighbour(std::min(min_step, gp.step), 2);
                for (int q = 0; q < ng; ++q)
                {
                    double g = gs[q];
                    if (!(g >= 0 && g <= t))
                        continue;
                    if (g > gp.step)
                        continue;  // never longer than the proposed geo step
                    double tb = from_geo(g);
                    if (std::isnan(tb))
                        return log.fail("MscStepFromGeo(" + fmt(g)
                                        + ") is NaN, alpha=" + fmt(gp.alpha)
                                        + where());
                    if (tb < g || tb > t)
                        return log.fail(
                            "MscStepFromGeo(" + fmt(g) + ") = " + fmt(tb)
                            + " outside [geom, true]" + where());
                    log.count("msc_from_geo_in_interval");
                    // approximate inverse, judged where it is
                    // well-conditioned
                    if (g >= min_step)
                    {
                        ld tr0, tr1, tr2;
                        ld gl = g * (1 - 4 * (ld)eps), gh = g * (1 + 4 * (ld)eps);
                        bool cond_ok = true;
                        if (gp.alpha == MscStep::small_step_alpha())
                        {
                            if (g / lambda > 1 - 1e-6)
                                cond_ok = false;
                            tr0 = ref_true_const(lambda, g);
                            tr1 = ref_true_const(lambda, gl);
                            tr2 = ref_true_const(lambda, gh);
                            if (tr0 < min_step)
                                tr0 = tr1 = tr2 = g;
                        }
                        else
                        {
                            ld a = gp.alpha;
                            ld w = 1 + 1 / (a * lambda);
                            ld x = a * w * g;
                            if (x > 1 - 1e-6 || fabsl(a * lambda) < 1e-6
                                || fabsl(w) > 1e6)
                                cond_ok = false;
                            tr0 = std::min<ld>(ref_true_power(a, lambda, g),
                                               range);
                            tr1 = std::min<ld>(ref_true_power(a, lambda, gl),
                                               range);
                            tr2 = std::min<ld>(ref_true_power(a, lambda, gh),
                                               range);
                        }
                        if (cond_ok && !std::isnan(tr0) && !std::isnan(tr1)
                            && !std::isnan(tr2))
                        {
                            ld want = std::min<ld>(std::max<ld>(tr0, g), t);
                            // 1 - (1-x)^(1/w) cancels for large w: absolute
                            // error eps in the bracket, divided by alpha
                            ld tol = 4 * (fabsl(tr1 - tr0) + fabsl(tr2 - tr0))
                                     + 64 * eps * (fabsl(tr0) + g);
                            if (gp.alpha != MscStep::small_step_alpha())
                            {
                                // the rounding of (1 - x) (absolute eps/2) is
                                // amplified by the exponent 1/w
                                ld a = gp.alpha;
                                ld w = 1 + 1 / (a * lambda);
                                tol += 16 * eps * (1 + 1 / fabsl(w))
                                       / fabsl(a);
                            }
                            if (fabsl(tb - want) > tol)
                                return log.fail(
                                    "MscStepFromGeo(" + fmt(g) + ") = "
                                    + fmt(tb) + " differs from the reference "
                                    + fmt(want) + " (tol " + fmt(tol)
                                    + ", alpha " + fmt(gp.alpha) + ")"
                                    + where());
                            log.count("msc_from_geo_value_judged");
                        }
                    }
                }
            }
        }
    }
    if (known13)
        return log.fail(known13_msg, kNegLossKey);
    if (known_seen)
        return log.fail(known_msg, kLinAtRangeKey);
    log.nontrivial = n_nonlin > 0 || n_power > 0;
    return Verdict::pass;
}

bool run_exhaustive(ExhaustiveResult&)
{
    return false;
}

}  // namespace verif
