// C20 — generated optical photons are physically valid.
//
// One case = one optical material (generated refractive-index table +
// scintillation components) + one charged-particle (or neutral) step + one
// random stream.  Four kinds:
//   cer-gen   : CerenkovGenerator on a hand-built GeneratorDistributionData
//   scint-gen : ScintillationGenerator on a hand-built distribution
//   cer-off   : CerenkovOffload on particle / sim track views
//   scint-off : ScintillationOffload on particle / sim track views
// Every generated photon is judged by an oracle computed in long double from
// the decoded inputs only (own table interpolation, own step geometry).
#include <algorithm>
#include <cmath>
#include <cstdio>
#include <memory>
#include <string>
#include <vector>

#include "caselog.hh"
#include "corecel/Assert.hh"
#include "corecel/data/CollectionStateStore.hh"
#include "corecel/math/ArrayUtils.hh"
#include "celeritas/Constants.hh"
#include "celeritas/Quantities.hh"
#include "celeritas/Units.hh"
#include "celeritas/io/ImportOpticalMaterial.hh"
#include "celeritas/optical/CerenkovDndxCalculator.hh"
#include "celeritas/optical/CerenkovGenerator.hh"
#include "celeritas/optical/CerenkovOffload.hh"
#include "celeritas/optical/CerenkovParams.hh"
#include "celeritas/optical/GeneratorDistributionData.hh"
#include "celeritas/optical/MaterialParams.hh"
#include "celeritas/optical/MaterialView.hh"
#include "celeritas/optical/ScintillationGenerator.hh"
#include "celeritas/optical/ScintillationOffload.hh"
#include "celeritas/optical/ScintillationParams.hh"
#include "celeritas/optical/TrackInitializer.hh"
#include "celeritas/phys/PDGNumber.hh"
#include "celeritas/phys/ParticleParams.hh"
#include "celeritas/phys/ParticleTrackView.hh"
#include "celeritas/track/SimParams.hh"
#include "celeritas/track/SimTrackView.hh"

namespace verif
{
char const* const kPropertyId = "C20";
char const* const kHarness = "c20_optical";
size_t const kMaxBytes = 256;
char const* const kRule
    = "byte string -> (kind; refractive-index table of 2..64 points, n > 1 "
      "strictly increasing in energy; scintillation components; step with "
      "pre/post speeds, positions (generic / axis-aligned / within 0.02 rad "
      "of +-z), step length >= chord, time, charge; scripted random stream "
      "with extreme uniform draws); per-photon oracle in long double "
      "(energy, unit direction/polarisation, orthogonality, position on the "
      "segment, time window, Cerenkov energy range and cone angle against an "
      "own linear interpolation); offload: below threshold / zero deposit "
      "=> empty, else populated fields equal the inputs.  Non-trivial = "
      "Cerenkov: speed drops over the step and >= 1 rejection happened in "
      "the sampling loops; scintillation: a component has rise time > 0 or "
      "the charged parent slows down; offload: threshold within 1e-6 or a "
      "populated distribution was returned and compared";

namespace
{
using namespace celeritas;
using optical::CerenkovGenerator;
using optical::CerenkovParams;
using optical::GeneratorDistributionData;
using optical::ScintillationGenerator;
using optical::ScintillationParams;
using optical::TrackInitializer;
using OptMaterialParams = optical::MaterialParams;
using OptMaterialView = optical::MaterialView;
using LD = long double;

constexpr double eps = 2.220446049250313e-16;
constexpr double c_light = constants::c_light;  // native (cm/s)

// Tolerances (origins in notes/C20.md)
constexpr double tol_unit = 1e-10;  // | |v| - 1 |, |d.p|
constexpr double tol_cone = 1e-7;  // | d.s - 1/(n beta) |
constexpr double tol_plane = 1e-6;  // (p.s)^2 + (d.s)^2 - 1
constexpr double tol_unit_scint = 1e-12;  // norms
constexpr double tol_orth_scint = 6e-8;  // |d.p|: 4 sqrt(eps), see notes

//---------------------------------------------------------------------------//
// Scripted engine: splitmix64 stream with a few draws overridden by extreme
// values chosen by the choice sequence (U = 0, 2^-64, 2^-53, 1/2, 1 - 2^-53).
struct ScriptedRng
{
    using result_type = uint64_t;
    static constexpr result_type min() { return 0; }
    static constexpr result_type max() { return ~uint64_t(0); }

    uint64_t s = 0;
    unsigned count = 0;
    int nov = 0;
    unsigned ov_idx[4] = {};
    uint64_t ov_val[4] = {};
    bool gave_zero = false;

    result_type operator()()
    {
        unsigned i = count++;
        for (int k = 0; k < nov; ++k)
            if (ov_idx[k] == i)
            {
                if (ov_val[k] == 0)
                    gave_zero = true;
                return ov_val[k];
            }
        uint64_t z = (s += 0x9e3779b97f4a7c15ull);
        z = (z ^ (z >> 30)) * 0xbf58476d1ce4e5b9ull;
        z = (z ^ (z >> 27)) * 0x94d049bb133111ebull;
        return z ^ (z >> 31);
    }
};

ScriptedRng gen_rng(Choices& c, CaseLog& log, bool allow_zero)
{
    ScriptedRng r;
    r.s = c.bits(8);
    log.mix(r.s);
    r.nov = int(c.int_in(0, 3));
    for (int k = 0; k < r.nov; ++k)
    {
        r.ov_idx[k] = unsigned(c.int_in(0, 47));
        switch (c.int_in(0, 5))
        {
            case 0: r.ov_val[k] = allow_zero ? 0 : 1; break;
            case 1: r.ov_val[k] = 1; break;
            case 2: r.ov_val[k] = uint64_t(1) << 11; break;
            case 3: r.ov_val[k] = uint64_t(1) << 63; break;
            case 4: r.ov_val[k] = ~uint64_t(0); break;
            default: r.ov_val[k] = ~uint64_t(0) - (uint64_t(1) << 12); break;
        }
        log.mix(r.ov_idx[k]);
        log.mix(r.ov_val[k]);
    }
    log.d("rng_seed", r.s);
    log.d("rng_overrides", r.nov);
    return r;
}

//---------------------------------------------------------------------------//
double lu16(Choices& c, double lo, double hi)
{
    return lo * std::exp(std::log(hi / lo) * c.unit16());
}
double slu16(Choices& c, double lo, double hi)
{
    bool neg = c.boolean();
    double m = lu16(c, lo, hi);
    return neg ? -m : m;
}

//---------------------------------------------------------------------------//
// Refractive index table
struct Table
{
    std::vector<double> e, n;

    LD n_at(LD x) const
    {
        if (x <= e.front())
            return n.front();
        if (x >= e.back())
            return n.back();
        size_t i = size_t(std::upper_bound(e.begin(), e.end(), double(x))
                          - e.begin());
        // x may lie between double(x) roundings; clamp
        if (i == 0)
            i = 1;
        if (i >= e.size())
            i = e.size() - 1;
        --i;
        LD t = (x - e[i]) / ((LD)e[i + 1] - e[i]);
        return n[i] + ((LD)n[i + 1] - n[i]) * t;
    }

    // Acceptance probability of one (energy, sin^2) trial of the generator
    // for 1/beta = inv: integral of (1 - inv^2/n^2)+ dE / (range * sin2max)
    double acceptance(LD inv) const
    {
        LD s2max = 1 - inv * inv / ((LD)n.back() * n.back());
        if (!(s2max > 0))
            return 0;
        LD acc = 0;
        for (size_t i = 0; i + 1 < e.size(); ++i)
        {
            int const sub = 8;
            for (int k = 0; k < sub; ++k)
            {
                LD t = (k + 0.5L) / sub;
                LD nn = n[i] + ((LD)n[i + 1] - n[i]) * t;
                LD s2 = 1 - inv * inv / (nn * nn);
                if (s2 > 0)
                    acc += s2 * ((LD)e[i + 1] - e[i]) / sub;
            }
        }
        return double(acc / (((LD)e.back() - e.front()) * s2max));
    }
};

Table gen_table(Choices& c, CaseLog& log)
{
    Table t;
    int npts;
    switch (c.pick({5, 3, 2}))
    {
        case 0: npts = int(c.int_in(2, 6)); break;
        case 1: npts = int(c.int_in(7, 20)); break;
        default: npts = int(c.int_in(21, 64)); break;
    }
    double e0 = lu16(c, 1e-7, 1e-5);  // MeV
    double e1 = e0 * (1 + lu16(c, 1e-3, 20));
    double n0;
    switch (c.pick({5, 2, 2, 1}))
    {
        case 0:
            log.label("n-solid");
            n0 = 1.2 + 0.6 * c.unit16();
            break;
        case 1:
            log.label("n-gas");
            n0 = 1 + lu16(c, 1e-7, 1e-3);
            break;
        case 2:
            log.label("n-aerogel");
            n0 = 1 + lu16(c, 1e-3, 0.1);
            break;
        default:
            log.label("n-dense");
            n0 = 1.8 + 1.2 * c.unit16();
            break;
    }
    bool flat = c.boolean(0.1);
    double dn = flat ? 0 : (n0 - 1) * lu16(c, 1e-6, 1);
    double warp = lu16(c, 0.25, 4);
    t.e.resize(npts);
    t.n.resize(npts);
    std::vector<double> we(npts, 0), wn(npts, 0);
    double se = 0, sn = 0;
    for (int i = 1; i < npts; ++i)
    {
        se += 1 + c.byte();
        sn += 1 + c.byte();
        we[i] = se;
        wn[i] = sn;
    }
    for (int i = 0; i < npts; ++i)
    {
        double fe = i ? we[i] / se : 0;
        double fn = i ? std::pow(wn[i] / sn, warp) : 0;
        t.e[i] = e0 + (e1 - e0) * fe;
        t.n[i] = n0 + dn * fn;
        if (i)
        {
            // strictly increasing (flat tables: adjacent representable values)
            if (!(t.e[i] > t.e[i - 1]))
                t.e[i] = std::nextafter(t.e[i - 1], INFINITY);
            if (!(t.n[i] > t.n[i - 1]))
                t.n[i] = std::nextafter(t.n[i - 1], INFINITY);
        }
        log.mix(t.e[i]);
        log.mix(t.n[i]);
    }
    if (flat)
        log.label("table-ulp-flat");
    log.label(npts <= 6 ? "table-2..6" : npts <= 20 ? "table-7..20"
                                                    : "table-21..64");
    log.dv("ri_energy", t.e.data(), npts);
    log.dv("ri_value", t.n.data(), npts);
    return t;
}

ImportOpticalProperty to_property(Table const& t)
{
    ImportOpticalProperty p;
    p.refractive_index.vector_type = ImportPhysicsVectorType::free;
    p.refractive_index.x = t.e;
    p.refractive_index.y = t.n;
    return p;
}

// A fixed decoy material so that a wrong material index is visible
ImportOpticalProperty decoy_property(Table const& t)
{
    ImportOpticalProperty p;
    p.refractive_index.vector_type = ImportPhysicsVectorType::free;
    p.refractive_index.x = {t.e.front() * 0.5, t.e.back() * 2};
    if (t.n.back() > 1.5)
        p.refractive_index.y = {1.00001, 1.00002};
    else
        p.refractive_index.y = {2.5, 2.6};
    return p;
}

struct OpticalSetup
{
    std::shared_ptr<OptMaterialParams const> mat;
    std::shared_ptr<CerenkovParams const> cer;
    OpticalMaterialId id;
};

// Build (material, cerenkov) params; the real table is material `which`
bool build_cerenkov(Table const& t, int which, OpticalSetup& out)
{
    try
    {
        OptMaterialParams::Input in;
        if (which == 0)
        {
            in.properties.push_back(to_property(t));
            in.properties.push_back(decoy_property(t));
        }
        else
        {
            in.properties.push_back(decoy_property(t));
            in.properties.push_back(to_property(t));
        }
        in.volume_to_mat = {OpticalMaterialId{0}, OpticalMaterialId{1}};
        out.mat = std::make_shared<OptMaterialParams>(std::move(in));
        out.cer = std::make_shared<CerenkovParams>(out.mat);
        out.id = OpticalMaterialId(which);
    }
    catch (RuntimeError const&)
    {
        return false;
    }
    return true;
}

//---------------------------------------------------------------------------//
// Scintillation material
struct ScintMat
{
    std::vector<ImportScintComponent> comps;
    double yield = 0;
    double res_scale = 0;
    bool broad = false;
    bool any_rise = false;
};

ScintMat gen_scint(Choices& c, CaseLog& log, bool allow_broad)
{
    ScintMat m;
    int nc = int(c.int_in(1, 3));
    m.yield = lu16(c, 1, 1e5);
    switch (c.int_in(0, 2))
    {
        case 0: m.res_scale = 1; break;
        case 1: m.res_scale = 0; break;
        default: m.res_scale = 3 * c.unit16(); break;
    }
    log.mix(m.yield);
    log.mix(m.res_scale);
    for (int i = 0; i < nc; ++i)
    {
        ImportScintComponent s;
        s.yield_frac = lu16(c, 1e-3, 1);
        s.lambda_mean = lu16(c, 1e-5, 1e-4);  // cm (100 nm .. 1 um)
        double ratio;
        if (allow_broad && c.boolean(0.08))
        {
            ratio = 0.1 + 0.9 * c.unit16() + 1e-6;
            m.broad = true;
        }
        else if (c.boolean(0.1))
            ratio = 0.1;
        else
            ratio = lu16(c, 1e-4, 0.1);
        s.lambda_sigma = s.lambda_mean * ratio;
        s.fall_time = lu16(c, 1e-10, 1e-5);
        if (c.boolean(0.5))
        {
            s.rise_time = s.fall_time * lu16(c, 1e-3, 50);
            m.any_rise = true;
        }
        else
            s.rise_time = 0;
        for (double v : {s.yield_frac,
                         s.lambda_mean,
                         s.lambda_sigma,
                         s.rise_time,
                         s.fall_time})
            log.mix(v);
        double comp[5] = {s.yield_frac,
                          s.lambda_mean,
                          s.lambda_sigma,
                          s.rise_time,
                          s.fall_time};
        log.dv("scint_comp(frac,mean,sigma,rise,fall)", comp, 5);
        m.comps.push_back(s);
    }
    log.d("scint_yield_per_mev", m.yield);
    log.d("scint_resolution_scale", m.res_scale);
    log.label(nc == 1 ? "scint-1comp" : nc == 2 ? "scint-2comp"
                                                 : "scint-3comp");
    if (m.broad)
        log.label("scint-broad(sigma/mean>0.1)");
    return m;
}

std::shared_ptr<ScintillationParams const>
build_scint(ScintMat const& m, int which)
{
    try
    {
        ScintillationParams::Input in;
        ImportMaterialScintSpectrum real;
        real.yield_per_energy = m.yield;
        real.components = m.comps;
        ImportMaterialScintSpectrum decoy;
        decoy.yield_per_energy = 7;
        decoy.components.push_back({1.0, 3e-3, 1e-5, 0.0, 1e-3});
        if (which == 0)
        {
            in.materials = {real, decoy};
            in.resolution_scale = {m.res_scale, 0.5};
        }
        else
        {
            in.materials = {decoy, real};
            in.resolution_scale = {0.5, m.res_scale};
        }
        return std::make_shared<ScintillationParams>(in);
    }
    catch (RuntimeError const&)
    {
        return nullptr;
    }
}

//---------------------------------------------------------------------------//
// Step geometry
struct Geo
{
    double pre[3], post[3];
    double L;  // step length (>= chord up to rounding)
    double t0;
    LD delta[3];  // post - pre
    LD chord;
    LD s[3];  // unit step direction
    double scale;  // |pre| + |post|
    Real3 code_dir;  // make_unit_vector(post - pre) exactly as the code does
    bool degenerate = false;
};

enum DirClass
{
    dc_generic,
    dc_axis,
    dc_nearz,
    dc_tinyxy
};

// Derived quantities of a step from pre / post positions
void finish_geo(Geo& g)
{
    for (int k = 0; k < 3; ++k)
        g.delta[k] = (LD)g.post[k] - (LD)g.pre[k];
    g.chord = sqrtl(g.delta[0] * g.delta[0] + g.delta[1] * g.delta[1]
                    + g.delta[2] * g.delta[2]);
    g.degenerate = !(g.chord > 0);
    if (g.degenerate)
        return;
    for (int k = 0; k < 3; ++k)
        g.s[k] = g.delta[k] / g.chord;
    g.scale = std::sqrt(g.pre[0] * g.pre[0] + g.pre[1] * g.pre[1]
                        + g.pre[2] * g.pre[2])
              + std::sqrt(g.post[0] * g.post[0] + g.post[1] * g.post[1]
                          + g.post[2] * g.post[2]);
    Real3 dd;
    for (int k = 0; k < 3; ++k)
        dd[k] = g.post[k] - g.pre[k];
    g.code_dir = make_unit_vector(dd);
}

Geo gen_geo(Choices& c, CaseLog& log, bool with_nearz)
{
    Geo g;
    double len = lu16(c, 1e-6, 1e2);
    double d[3] = {0, 0, 0};
    int cls = with_nearz ? int(c.pick({4, 2, 3, 1})) : int(c.pick({4, 2}));
    switch (cls)
    {
        case dc_generic: {
            c.unit_vector(d);
            for (auto& x : d)
                x *= len;
            break;
        }
        case dc_axis: {
            int k = int(c.int_in(0, 5));
            // order: +z, -z first (minimal), then x, y
            int ax[6] = {2, 2, 0, 0, 1, 1};
            d[ax[k]] = (k % 2) ? -len : len;
            break;
        }
        case dc_nearz: {
            double th = lu16(c, 1e-9, 2e-2);
            double az;
            int q = int(c.int_in(0, 7));
            if (q < 4)
                az = q * (M_PI / 2);  // x or y (nearly) zero
            else
                az = 2 * M_PI * c.unit16();
            double sz = c.boolean() ? -1 : 1;
            d[0] = len * std::sin(th) * std::cos(az);
            d[1] = len * std::sin(th) * std::sin(az);
            if (q == 0 || q == 2)
                d[1] = 0;
            if (q == 1 || q == 3)
                d[0] = 0;
            d[2] = sz * len * std::cos(th);
            break;
        }
        default: {
            d[0] = c.boolean(0.3) ? 0 : len * slu16(c, 1e-140, 1e-9);
            d[1] = c.boolean(0.3) ? 0 : len * slu16(c, 1e-140, 1e-9);
            d[2] = c.boolean() ? -len : len;
            break;
        }
    }
    double origin = 0;
    if (c.boolean(0.6))
        origin = lu16(c, 1e-3, 1e4);
    for (int k = 0; k < 3; ++k)
    {
        g.pre[k] = origin ? origin * (2 * c.unit16() - 1) : 0.0;
        g.post[k] = g.pre[k] + d[k];
        log.mix(g.pre[k]);
        log.mix(g.post[k]);
    }
    double curve = c.boolean(0.3) ? lu16(c, 1e-9, 1) : 0;
    g.t0 = c.boolean(0.5) ? lu16(c, 1e-12, 1e-3) : 0;
    finish_geo(g);
    if (g.degenerate)
        return g;
    g.L = double(g.chord) * (1 + curve);
    log.mix(g.L);
    log.mix(g.t0);
    log.dv("pre_pos", g.pre, 3);
    log.dv("post_pos", g.post, 3);
    log.d("step_length", g.L);
    log.d("pre_time", g.t0);
    return g;
}

// Classes of the rotation axis handed to celeritas::rotate
struct AxisClass
{
    bool f8 = false;  // x == y == 0 and |z| < 1  (0/0 in the near-axis branch)
    bool ysign = false;  // near-axis branch with y < 0 (sin(phi) sign lost)
    bool nearaxis = false;
};

AxisClass classify_axis(Real3 const& r, CaseLog& log)
{
    AxisClass a;
    double st = std::sqrt(1 - r[2] * r[2]);
    a.f8 = (r[0] == 0 && r[1] == 0 && std::fabs(r[2]) < 1);
    a.nearaxis = (st > 0 && st < 0.005);
    a.ysign = a.nearaxis && !a.f8 && r[1] < 0;
    if (a.f8)
        log.label("axis-F8(0,0,|z|<1)");
    else if (st == 0)
        log.label("axis-exact-z");
    else if (a.ysign)
        log.label("axis-near-z-yneg");
    else if (a.nearaxis)
        log.label("axis-near-z-ynonneg");
    else if (st < 0.02)
        log.label("axis-just-outside-near-z");
    else if (r[0] == 0 || r[1] == 0 || r[2] == 0)
        log.label("axis-in-coordinate-plane");
    else
        log.label("axis-generic");
    return a;
}

std::string fmt(char const* what, int j, LD got, LD want)
{
    char buf[256];
    std::snprintf(buf,
                  sizeof buf,
                  "photon %d: %s (got %.17Lg, reference %.17Lg)",
                  j,
                  what,
                  got,
                  want);
    return buf;
}

bool has_nan(TrackInitializer const& p)
{
    bool bad = std::isnan(p.energy.value()) || std::isnan(p.time);
    for (int k = 0; k < 3; ++k)
        bad = bad || std::isnan(p.position[k]) || std::isnan(p.direction[k])
              || std::isnan(p.polarization[k]);
    return bad;
}

LD dot3(Real3 const& a, Real3 const& b)
{
    return (LD)a[0] * b[0] + (LD)a[1] * b[1] + (LD)a[2] * b[2];
}
LD dot3(Real3 const& a, LD const* b)
{
    return (LD)a[0] * b[0] + (LD)a[1] * b[1] + (LD)a[2] * b[2];
}

// Position on the chord: returns message or empty; sets u (recovered
// fraction) and du (its uncertainty)
std::string
check_position(Geo const& g, TrackInitializer const& p, int j, LD& u, LD& du)
{
    LD r[3];
    for (int k = 0; k < 3; ++k)
        r[k] = (LD)p.position[k] - g.pre[k];
    u = (r[0] * g.delta[0] + r[1] * g.delta[1] + r[2] * g.delta[2])
        / (g.chord * g.chord);
    LD perp2 = 0;
    for (int k = 0; k < 3; ++k)
    {
        LD q = r[k] - u * g.delta[k];
        perp2 += q * q;
    }
    // fma(u, fl(post - pre), pre): error <= eps * (|p| + |delta|) per
    // component; 16 eps * (|pre| + |post|) covers it
    LD tolp = 16 * eps * (LD)g.scale;
    du = tolp / g.chord;
    if (!(sqrtl(perp2) <= tolp))
        return fmt("position is off the pre-post segment (perpendicular "
                   "distance vs tolerance)",
                   j,
                   sqrtl(perp2),
                   tolp);
    if (!(u >= -du && u <= 1 + du))
        return fmt("position is beyond the ends of the step segment "
                   "(fraction u)",
                   j,
                   u,
                   1);
    return {};
}

//---------------------------------------------------------------------------//
// Per-photon oracles
//---------------------------------------------------------------------------//
struct Fail
{
    std::string msg;
    std::string key;
    explicit operator bool() const { return !msg.empty(); }
};

struct Speeds
{
    double pre, post;
    LD mean;
};

// Cerenkov photon against (table, speeds, geometry).  `ac` = class of the
// rotation axis the generator hands to celeritas::rotate.
Fail check_cerenkov_photon(Table const& t,
                           Speeds const& sp,
                           Geo const& g,
                           AxisClass const& ac,
                           TrackInitializer const& p,
                           int j)
{
    if (has_nan(p))
    {
        return {"photon " + std::to_string(j)
                    + ": NaN in generated Cerenkov photon (direction "
                    + std::to_string(p.direction[0]) + ","
                    + std::to_string(p.direction[1]) + ","
                    + std::to_string(p.direction[2]) + ")",
                ac.f8 ? "F8-rotate-nan" : ""};
    }
    double en = p.energy.value();
    if (!(std::isfinite(en) && en > 0))
        return {fmt("energy not finite positive", j, en, 0), ""};
    if (!(en >= t.e.front() && en <= t.e.back()))
        return {fmt("Cerenkov energy outside the tabulated refractive-index "
                    "range (upper end shown)",
                    j,
                    en,
                    t.e.back()),
                ""};
    LD nd = sqrtl(dot3(p.direction, p.direction));
    LD np = sqrtl(dot3(p.polarization, p.polarization));
    if (!(fabsl(nd - 1) <= tol_unit))
        return {fmt("direction is not a unit vector", j, nd, 1), ""};
    if (!(fabsl(np - 1) <= tol_unit))
        return {fmt("polarisation is not a unit vector", j, np, 1), ""};
    LD dp = dot3(p.direction, p.polarization);
    if (!(fabsl(dp) <= tol_unit))
        return {fmt("polarisation not perpendicular to direction (dot)",
                    j,
                    dp,
                    0),
                ""};
    LD u, du;
    std::string m = check_position(g, p, j, u, du);
    if (!m.empty())
        return {m, ""};
    // time: emitted while the parent covers u*L at speeds in
    // [mean-so-far >= v_mean, v_pre]
    {
        LD const vpre = (LD)sp.pre * c_light;
        LD const vmean = sp.mean * c_light;
        LD dt = (LD)p.time - g.t0;
        LD slack = 8 * eps * (fabsl(p.time) + fabsl(g.t0));
        if (!((LD)p.time >= g.t0))
            return {fmt("time earlier than the pre-step time", j, p.time, g.t0),
                    ""};
        LD lo = (u - du) * g.L / vpre;
        LD hi = (u + du) * g.L / vmean;
        if (!(dt >= lo * (1 - 8 * eps) - slack))
            return {fmt("emission time before the parent can reach the "
                        "emission point (dt vs u*L/v_pre)",
                        j,
                        dt,
                        lo),
                    ""};
        if (!(dt <= hi * (1 + 8 * eps) + slack))
            return {fmt("emission time later than the parent reaches the "
                        "emission point (dt vs u*L/v_mean)",
                        j,
                        dt,
                        hi),
                    ""};
    }
    // cone
    LD inv = 1 / sp.mean;
    LD nref = t.n_at(en);
    LD cosref = inv / nref;
    LD cosgot = dot3(p.direction, g.s);
    if (!(cosref <= 1 + 4 * eps))
        return {fmt("photon energy below the Cerenkov threshold for the mean "
                    "speed (1/(n beta) > 1)",
                    j,
                    cosref,
                    1),
                ""};
    char const* rot_key = ac.ysign ? "F13-rotate-near-z-sinphi-sign" : "";
    if (!(fabsl(cosgot - cosref) <= tol_cone))
        return {fmt("direction is off the Cerenkov cone: direction.step_dir "
                    "vs 1/(n(E) beta_mean)",
                    j,
                    cosgot,
                    cosref),
                rot_key};
    // polarisation lies in the (step direction, photon direction) plane,
    // pointing away from the axis: (p.s)^2 + (d.s)^2 = 1, p.s <= 0
    LD ps = dot3(p.polarization, g.s);
    if (!(fabsl(ps * ps + cosgot * cosgot - 1) <= tol_plane && ps <= tol_plane))
        return {fmt("Cerenkov polarisation is not the cone normal in the "
                    "plane of step and photon directions (p.s)",
                    j,
                    ps,
                    -sqrtl(fmaxl(0, 1 - cosref * cosref))),
                rot_key};
    return {};
}

// Energy window of a scintillation material, narrow components only:
// Box-Muller radius <= sqrt(2 * 64 ln 2) = 9.42 for uniforms >= 2^-64
struct ScintWindow
{
    LD emin = INFINITY, emax = 0;
};

ScintWindow scint_window(ScintMat const& m)
{
    ScintWindow w;
    LD const hc = (LD)constants::h_planck * constants::c_light
                  / units::Mev::value();
    for (auto const& s : m.comps)
    {
        LD lo = s.lambda_mean - 9.45L * s.lambda_sigma;
        LD hi = s.lambda_mean + 9.45L * s.lambda_sigma;
        w.emax = lo > 0 ? fmaxl(w.emax, hc / lo) : (LD)INFINITY;
        w.emin = fminl(w.emin, hc / hi);
    }
    return w;
}

Fail check_scint_photon(ScintMat const& m,
                        ScintWindow const& w,
                        double pre_beta,
                        int charge,
                        Geo const& g,
                        TrackInitializer const& p,
                        int j,
                        char const* nan_key)
{
    double en = p.energy.value();
    if (!(std::isfinite(en) && en > 0))
        return {fmt("scintillation photon energy is not finite positive "
                    "(wavelength sampled from an unclamped normal)",
                    j,
                    en,
                    0),
                m.broad ? "F6-scint-wavelength-unclamped" : ""};
    if (has_nan(p))
        return {"photon " + std::to_string(j)
                    + ": NaN in generated scintillation photon (time "
                    + std::to_string(p.time) + ")",
                nan_key};
    if (!m.broad
        && !(en >= w.emin * (1 - 1e-12L) && en <= w.emax * (1 + 1e-12L)))
        return {fmt("scintillation energy outside hc/(mean -+ 9.45 sigma) of "
                    "every component (upper shown)",
                    j,
                    en,
                    w.emax),
                ""};
    LD nd = sqrtl(dot3(p.direction, p.direction));
    LD np = sqrtl(dot3(p.polarization, p.polarization));
    if (!(fabsl(nd - 1) <= tol_unit_scint))
        return {fmt("direction is not a unit vector", j, nd, 1), ""};
    if (!(fabsl(np - 1) <= tol_unit_scint))
        return {fmt("polarisation is not a unit vector", j, np, 1), ""};
    LD dp = dot3(p.direction, p.polarization);
    if (!(fabsl(dp) <= tol_orth_scint))
        return {fmt("polarisation not perpendicular to direction (dot)",
                    j,
                    dp,
                    0),
                ""};
    LD u, du;
    std::string msg = check_position(g, p, j, u, du);
    if (!msg.empty())
        return {msg, ""};
    if (charge == 0)
    {
        LD d2 = 0;
        for (int k = 0; k < 3; ++k)
        {
            LD q = (LD)p.position[k] - g.post[k];
            d2 += q * q;
        }
        if (!(sqrtl(d2) <= 16 * eps * (LD)g.scale))
            return {fmt("neutral parent: photon not at the post-step point "
                        "(distance)",
                        j,
                        sqrtl(d2),
                        0),
                    ""};
    }
    if (!((LD)p.time >= g.t0))
        return {fmt("time earlier than the pre-step time", j, p.time, g.t0),
                ""};
    {
        LD const vpre = (LD)pre_beta * c_light;
        LD dt = (LD)p.time - g.t0;
        LD slack = 8 * eps * (fabsl(p.time) + fabsl(g.t0));
        LD lo = (u - du) * g.L / vpre;
        if (!(dt >= lo * (1 - 8 * eps) - slack))
            return {fmt("emission time before the parent can reach the "
                        "emission point (dt vs u*L/v_pre)",
                        j,
                        dt,
                        lo),
                    ""};
    }
    return {};
}

//---------------------------------------------------------------------------//
// KIND: Cerenkov generator
//---------------------------------------------------------------------------//
// Mean speed above threshold, then pre/post around it (post <= pre)
bool gen_speeds_above(Choices& c, CaseLog& log, Table const& t, Speeds& sp)
{
    double nb = t.n.back();
    double const bmax = 1 - 1e-12;
    double bm;
    switch (c.pick({4, 3, 2}))
    {
        case 0: {
            log.label("beta-mid");
            double tt = 0.05 + 0.95 * c.unit16();
            bm = 1 / (1 + (nb - 1) * (1 - tt));
            break;
        }
        case 1: {
            log.label("beta-near-threshold");
            double tt = lu16(c, 1e-3, 0.3);
            bm = 1 / (1 + (nb - 1) * (1 - tt));
            break;
        }
        default: {
            log.label("beta-ultrarelativistic");
            bm = 1 - lu16(c, 1e-12, 1e-3);
            break;
        }
    }
    if (bm > bmax)
        bm = bmax;
    double dmax = std::fmin(bmax - bm, bm);
    double d;
    switch (c.pick({3, 3, 2, 1, 1}))
    {
        case 0:
            d = dmax * c.unit16();
            log.label("dbeta-large");
            break;
        case 1:
            d = std::fmin(dmax, bm * lu16(c, 1e-12, 1e-3));
            log.label("dbeta-small");
            break;
        case 2:
            d = 0;
            log.label("dbeta-zero");
            break;
        case 3:
            d = dmax;
            log.label("dbeta-max");
            break;
        default:
            d = (2 * bm <= bmax) ? bm : dmax;  // stopped at the end of step
            break;
    }
    sp.pre = bm + d;
    sp.post = bm - d;
    if (sp.post < 0)
        sp.post = 0;
    if (sp.pre > bmax)
        sp.pre = bmax;
    if (sp.post > sp.pre)
        sp.post = sp.pre;
    if (sp.post == 0)
        log.label("post-speed-zero(stopped)");
    sp.mean = ((LD)sp.pre + sp.post) / 2;
    log.mix(sp.pre);
    log.mix(sp.post);
    log.d("pre_beta", sp.pre);
    log.d("post_beta", sp.post);
    return sp.mean * nb > 1 + 1e-9L * (nb - 1);
}

int decode_charge(Choices& c)
{
    int q = int(c.int_in(0, 3));
    return (q < 2) ? (q ? -1 : 1) : (q == 2 ? 2 : -2);
}

Verdict k_cerenkov_gen(Choices& c, CaseLog& log)
{
    log.label("cer-gen");
    log.d("kind", "\"cerenkov-generator\"");
    Table t = gen_table(c, log);
    Speeds sp;
    bool above = gen_speeds_above(c, log, t, sp);
    Geo g = gen_geo(c, log, true);
    int charge = decode_charge(c);
    int which = int(c.int_in(0, 1));
    log.mix(charge);
    log.mix(which);
    log.d("charge", charge);
    log.d("material_index", which);
    ScriptedRng rng = gen_rng(c, log, true);
    if (!above || g.degenerate)
    {
        log.count("cer_gen_not_above_or_degenerate");
        return Verdict::trivial;
    }
    double acc = t.acceptance(1 / sp.mean);
    int K = int(std::fmin(32.0, std::floor(8000.0 * acc)));
    if (K < 1)
    {
        log.count("cer_gen_acceptance_too_small");
        return Verdict::trivial;
    }
    OpticalSetup os;
    if (!build_cerenkov(t, which, os))
        return Verdict::rejected;

    GeneratorDistributionData dist;
    dist.num_photons = size_type(K);
    dist.time = g.t0;
    dist.step_length = g.L;
    dist.charge = units::ElementaryCharge{double(charge)};
    dist.material = os.id;
    dist.points[StepPoint::pre].speed = units::LightSpeed{sp.pre};
    dist.points[StepPoint::post].speed = units::LightSpeed{sp.post};
    for (int k = 0; k < 3; ++k)
    {
        dist.points[StepPoint::pre].pos[k] = g.pre[k];
        dist.points[StepPoint::post].pos[k] = g.post[k];
    }
    // The caller (CerenkovOffload) only creates a distribution when dN/dx at
    // the mean speed is positive: replicate that precondition
    OptMaterialView mview{os.mat->host_ref(), os.id};
    {
        optical::CerenkovDndxCalculator dndx(
            mview, os.cer->host_ref(), dist.charge);
        if (!(dndx(units::LightSpeed{0.5 * (sp.pre + sp.post)}) > 0))
        {
            log.count("cer_gen_dndx_zero");
            return Verdict::trivial;
        }
    }
    AxisClass ac = classify_axis(g.code_dir, log);

    CerenkovGenerator generate(mview, os.cer->host_ref(), dist);
    long at_end = 0;
    for (int j = 0; j < K; ++j)
    {
        TrackInitializer p = generate(rng);
        if (Fail f = check_cerenkov_photon(t, sp, g, ac, p, j))
            return log.fail(f.msg, f.key);
        if (p.energy.value() == t.e.front() || p.energy.value() == t.e.back())
            ++at_end;
    }
    long draws = rng.count;
    log.count("cer_photons", K);
    log.count("cer_rng_draws", draws);
    log.count("cer_photons_at_grid_end", at_end);
    if (rng.gave_zero)
        log.label("rng-gave-exact-zero");
    log.nontrivial = (sp.pre > sp.post) && draws > 5L * K;
    return Verdict::pass;
}

//---------------------------------------------------------------------------//
// KIND: scintillation generator
//---------------------------------------------------------------------------//
Verdict k_scint_gen(Choices& c, CaseLog& log)
{
    log.label("scint-gen");
    log.d("kind", "\"scintillation-generator\"");
    ScintMat m = gen_scint(c, log, true);
    // speeds
    int charge;
    double pre, post;
    if (c.pick({5, 1}) == 1)
    {
        charge = 0;
        pre = post = 1;
        log.label("scint-neutral-parent");
    }
    else
    {
        charge = decode_charge(c);
        pre = c.boolean(0.3) ? 1 - lu16(c, 1e-12, 1e-2)
                             : 0.01 + 0.99 * c.unit16();
        if (pre > 1 - 1e-12)
            pre = 1 - 1e-12;
        switch (c.pick({3, 1, 1}))
        {
            case 0:
                post = pre * c.unit16();
                log.label("scint-slowing");
                break;
            case 1:
                post = pre;
                log.label("scint-dbeta-zero");
                break;
            default:
                post = 0;
                log.label("scint-stopped");
                break;
        }
    }
    log.mix(charge);
    log.mix(pre);
    log.mix(post);
    log.d("charge", charge);
    log.d("pre_beta", pre);
    log.d("post_beta", post);
    Geo g = gen_geo(c, log, false);
    int which = int(c.int_in(0, 1));
    log.mix(which);
    ScriptedRng rng = gen_rng(c, log, false);
    if (g.degenerate)
        return Verdict::trivial;
    auto params = build_scint(m, which);
    if (!params)
        return Verdict::rejected;

    int const K = 16;
    GeneratorDistributionData dist;
    dist.num_photons = K;
    dist.time = g.t0;
    dist.step_length = g.L;
    dist.charge = units::ElementaryCharge{double(charge)};
    dist.material = OpticalMaterialId(which);
    dist.points[StepPoint::pre].speed = units::LightSpeed{pre};
    dist.points[StepPoint::post].speed = units::LightSpeed{post};
    for (int k = 0; k < 3; ++k)
    {
        dist.points[StepPoint::pre].pos[k] = g.pre[k];
        dist.points[StepPoint::post].pos[k] = g.post[k];
    }
    ScintillationGenerator generate(params->host_ref(), dist);
    ScintWindow w = scint_window(m);
    for (int j = 0; j < K; ++j)
    {
        TrackInitializer p = generate(rng);
        if (Fail f = check_scint_photon(m, w, pre, charge, g, p, j, ""))
            return log.fail(f.msg, f.key);
    }
    log.count("scint_photons", K);
    log.count("scint_rng_draws", rng.count);
    log.nontrivial = m.any_rise || (charge != 0 && post < pre);
    return Verdict::pass;
}

//---------------------------------------------------------------------------//
// Offload kinds: particle / sim track views
//---------------------------------------------------------------------------//
struct TrackFixtures
{
    std::shared_ptr<ParticleParams> particles;
    std::shared_ptr<SimParams> sim;
    std::unique_ptr<CollectionStateStore<ParticleStateData, MemSpace::host>>
        pstate;
    std::unique_ptr<CollectionStateStore<SimStateData, MemSpace::host>> sstate;
};
TrackFixtures* g_fix = nullptr;

struct PDef
{
    char const* name;
    int pdg;
    double mass;
    int charge;
};
PDef const g_pdefs[] = {{"electron", 11, 0.5109989461, -1},
                        {"positron", -11, 0.5109989461, 1},
                        {"mu_minus", 13, 105.6583745, -1},
                        {"proton", 2212, 938.272081, 1},
                        {"alpha", 1000020040, 3727.379378, 2},
                        {"anti_alpha", -1000020040, 3727.379378, -2},
                        {"gamma", 22, 0, 0}};

void build_fixtures()
{
    g_fix = new TrackFixtures;
    ParticleParams::Input inp;
    for (auto const& d : g_pdefs)
        inp.push_back({d.name,
                       PDGNumber{d.pdg},
                       units::MevMass{d.mass},
                       units::ElementaryCharge{double(d.charge)},
                       constants::stable_decay_constant});
    g_fix->particles = std::make_shared<ParticleParams>(std::move(inp));
    g_fix->sim = std::make_shared<SimParams>();
    g_fix->pstate.reset(
        new CollectionStateStore<ParticleStateData, MemSpace::host>(
            g_fix->particles->host_ref(), 1));
    g_fix->sstate.reset(new CollectionStateStore<SimStateData, MemSpace::host>(
        g_fix->sim->host_ref(), 1));
}

ParticleTrackView make_particle(int idx, double energy)
{
    ParticleTrackView::Initializer_t init;
    init.particle_id = ParticleId(idx);
    init.energy = units::MevEnergy{energy};
    ParticleTrackView v(
        g_fix->particles->host_ref(), g_fix->pstate->ref(), TrackSlotId{0});
    v = init;
    return v;
}

SimTrackView make_sim(double step, double time)
{
    SimTrackView::Initializer_t init;
    init.track_id = TrackId{0};
    init.parent_id = TrackId{};
    init.event_id = EventId{0};
    init.time = time;
    SimTrackView v(g_fix->sim->host_ref(), g_fix->sstate->ref(), TrackSlotId{0});
    v = init;
    v.step_length(step);
    v.status(TrackStatus::alive);
    return v;
}

// Kinetic energy for a target beta (long double), beta in [0, 1)
double energy_for_beta(double mass, double beta)
{
    if (beta <= 0)
        return 0;
    LD b = beta;
    LD g = 1 / sqrtl((1 - b) * (1 + b));
    // (gamma - 1) without cancellation: b^2 g^2 / (g + 1)
    return double(mass * (b * b * g * g / (g + 1)));
}

bool same(double a, double b)
{
    return a == b || (std::isnan(a) && std::isnan(b));
}

std::string compare_fields(GeneratorDistributionData const& r,
                           OffloadPreStepData const& pre,
                           double step,
                           double charge,
                           double post_speed,
                           Real3 const& pos)
{
    if (!(r.time == pre.time))
        return "distribution time != pre-step time";
    if (!(r.step_length == step))
        return "distribution step_length != sim step length";
    if (!(r.charge.value() == charge))
        return "distribution charge != particle charge";
    if (!(r.material == pre.material))
        return "distribution material != pre-step optical material";
    if (!(r.points[StepPoint::pre].speed.value() == pre.speed.value()))
        return "distribution pre-step speed != cached pre-step speed";
    if (!same(r.points[StepPoint::post].speed.value(), post_speed))
        return "distribution post-step speed != particle speed";
    for (int k = 0; k < 3; ++k)
    {
        if (!(r.points[StepPoint::pre].pos[k] == pre.pos[k]))
            return "distribution pre-step position != cached position";
        if (!(r.points[StepPoint::post].pos[k] == pos[k]))
            return "distribution post-step position != track position";
    }
    return {};
}

Verdict k_cerenkov_off(Choices& c, CaseLog& log)
{
    log.label("cer-off");
    log.d("kind", "\"cerenkov-offload\"");
    Table t = gen_table(c, log);
    double nb = t.n.back();
    int pidx = int(c.int_in(0, 5));
    PDef const& pd = g_pdefs[pidx];
    int which = int(c.int_in(0, 1));
    log.mix(pidx);
    log.mix(which);
    log.ds("particle", pd.name);
    // target mean speed relative to the threshold 1/n_max
    double thr = 1 / nb;
    int zone = int(c.pick({3, 3, 4}));
    double target;
    if (zone == 0)
    {
        // below: distance to threshold log-distributed
        target = thr * (1 - lu16(c, 1e-12, 0.7));
    }
    else if (zone == 1)
    {
        // within a few ulp of the threshold
        target = Choices::step_ulps(thr, int(c.int_in(0, 16)) - 8);
    }
    else
    {
        double tt = c.boolean(0.3) ? lu16(c, 1e-9, 1e-2) : c.unit16();
        target = 1 / (1 + (nb - 1) * (1 - tt));
    }
    double const bmax = 1 - 1e-12;
    if (target > bmax)
        target = bmax;
    // post speed from a kinetic energy, pre = 2*target - post
    double dmax = std::fmin(bmax - target, target);
    double d;
    switch (c.pick({3, 2, 2}))
    {
        case 0: d = dmax * c.unit16(); break;
        case 1: d = std::fmin(dmax, target * lu16(c, 1e-12, 1e-3)); break;
        default: d = (2 * target <= bmax && c.boolean(0.3)) ? target : 0; break;
    }
    double post_target = target - d;
    if (post_target < 0)
        post_target = 0;
    double energy = energy_for_beta(pd.mass, post_target);
    ParticleTrackView particle = make_particle(pidx, energy);
    double post_speed = particle.speed().value();
    double pre_speed = 2 * target - post_speed;
    if (!(pre_speed >= post_speed))
        pre_speed = post_speed;
    if (pre_speed > 1)
        pre_speed = 1;
    log.mix(energy);
    log.mix(pre_speed);
    log.d("post_energy_mev", energy);
    log.d("post_beta", post_speed);
    log.d("pre_beta", pre_speed);
    Geo g = gen_geo(c, log, true);
    double mean_target = lu16(c, 0.05, 15);
    ScriptedRng rng = gen_rng(c, log, true);
    if (!(pre_speed > 0) || g.degenerate)
    {
        log.count("cer_off_pre_speed_zero_or_degenerate");
        return Verdict::trivial;
    }

    OpticalSetup os;
    if (!build_cerenkov(t, which, os))
        return Verdict::rejected;
    OptMaterialView mview{os.mat->host_ref(), os.id};

    Speeds sp;
    sp.pre = pre_speed;
    sp.post = post_speed;
    sp.mean = ((LD)pre_speed + post_speed) / 2;
    LD x = sp.mean * nb;  // > 1 above threshold
    // Steering only (not the oracle): choose the step length so that the
    // Poisson mean is <= 16; above that the F9 float-cast overflow in
    // PoissonDistribution could abort the sanitizer build
    double step = g.L;
    {
        optical::CerenkovDndxCalculator dndx(
            mview,
            os.cer->host_ref(),
            units::ElementaryCharge{double(pd.charge)});
        double per_len
            = dndx(units::LightSpeed{0.5 * (pre_speed + post_speed)});
        if (per_len > 0)
        {
            step = mean_target / per_len;
            if (!(step > 0 && std::isfinite(step)) || !(per_len * step <= 16))
            {
                log.count("cer_off_excluded_mean_gt_16(F9)");
                return Verdict::trivial;
            }
        }
    }
    // straight step of that length along the generated direction
    Real3 pos;
    OffloadPreStepData pre;
    for (int k = 0; k < 3; ++k)
    {
        pre.pos[k] = g.pre[k];
        pos[k] = g.pre[k] + double(g.s[k]) * step;
        g.post[k] = pos[k];
    }
    g.L = step;
    finish_geo(g);
    if (g.degenerate)
        return Verdict::trivial;
    pre.speed = units::LightSpeed{pre_speed};
    pre.time = g.t0;
    pre.material = os.id;
    SimTrackView sim = make_sim(step, g.t0);
    log.d("offload_step_length", step);
    log.dv("offload_post_pos", g.post, 3);

    CerenkovOffload offload(
        particle, sim, mview, pos, os.cer->host_ref(), pre);
    bool populated = false;
    bool adjacent = fabsl(x - 1) < 1e-6L;
    long chained = 0;
    double acc = t.acceptance(1 / sp.mean);
    AxisClass ac;
    bool classified = false;
    for (int r = 0; r < 4; ++r)
    {
        GeneratorDistributionData res = offload(rng);
        if (x <= 1 - 4 * eps)
        {
            if (res.num_photons != 0 || bool(res))
                return log.fail(
                    "Cerenkov photons requested below threshold: beta_mean * "
                    "n_max = "
                    + std::to_string(double(x)) + ", num_photons = "
                    + std::to_string(res.num_photons));
        }
        else if (res.num_photons > 0)
        {
            if (res.num_photons > 200)
                return log.fail("implausible Cerenkov photon count "
                                + std::to_string(res.num_photons)
                                + " for a Poisson mean <= 16");
            std::string m = compare_fields(
                res, pre, step, pd.charge, post_speed, pos);
            if (!m.empty())
                return log.fail("CerenkovOffload: " + m);
            if (!res)
                return log.fail("CerenkovOffload: populated distribution "
                                "tests false");
            populated = true;
            // end to end: generate (some of) the requested photons
            if (acc * 2000 >= 1 && x > 1 + 1e-9L * (nb - 1))
            {
                if (!classified)
                {
                    ac = classify_axis(g.code_dir, log);
                    classified = true;
                }
                CerenkovGenerator generate(mview, os.cer->host_ref(), res);
                int n = int(std::min<size_type>(res.num_photons, 4));
                for (int j = 0; j < n; ++j)
                {
                    TrackInitializer p = generate(rng);
                    if (Fail f = check_cerenkov_photon(t, sp, g, ac, p, j))
                        return log.fail("offload->generator: " + f.msg, f.key);
                    ++chained;
                }
            }
        }
        else if (bool(res))
            return log.fail("CerenkovOffload: zero photons but distribution "
                            "tests true");
    }
    if (x <= 1 - 4 * eps)
        log.label(adjacent ? "cer-off-below-adjacent" : "cer-off-below");
    else if (x < 1 + 4 * eps)
        log.label("cer-off-threshold-band(+-4eps)");
    else
        log.label(populated ? "cer-off-above-populated"
                            : "cer-off-above-zero-photons");
    log.count("cer_off_chained_photons", chained);
    log.nontrivial = adjacent || populated;
    return Verdict::pass;
}

Verdict k_scint_off(Choices& c, CaseLog& log)
{
    log.label("scint-off");
    log.d("kind", "\"scintillation-offload\"");
    ScintMat m = gen_scint(c, log, false);
    int pidx = int(c.int_in(0, 6));
    PDef const& pd = g_pdefs[pidx];
    int which = int(c.int_in(0, 1));
    log.mix(pidx);
    log.mix(which);
    log.ds("particle", pd.name);
    double energy = c.boolean(0.15) ? 0 : lu16(c, 1e-4, 1e4);
    double pre_speed = pd.charge == 0 ? 1 : 0.01 + 0.99 * c.unit16();
    double edep;
    double mean_target = 0;
    switch (c.pick({2, 4, 3}))
    {
        case 0:
            edep = 0;
            log.label("scint-off-zero-deposit");
            break;
        case 1:
            mean_target = lu16(c, 0.05, 10);
            edep = mean_target / m.yield;
            log.label("scint-off-poisson(mean<=10)");
            break;
        default:
            mean_target = lu16(c, 10.5, 1e6);
            edep = mean_target / m.yield;
            log.label("scint-off-normal(mean>10)");
            break;
    }
    log.mix(energy);
    log.mix(pre_speed);
    log.mix(edep);
    log.d("post_energy_mev", energy);
    log.d("pre_beta", pre_speed);
    log.d("energy_deposit_mev", edep);
    Geo g = gen_geo(c, log, false);
    ScriptedRng rng = gen_rng(c, log, false);
    if (g.degenerate)
        return Verdict::trivial;
    auto params = build_scint(m, which);
    if (!params)
        return Verdict::rejected;

    ParticleTrackView particle = make_particle(pidx, energy);
    double post_speed = particle.speed().value();
    if (energy == 0)
        log.label(pd.mass == 0 ? "scint-off-massless-absorbed(E=0)"
                               : "scint-off-stopped(E=0)");
    if (pd.charge != 0 && post_speed > pre_speed)
        pre_speed = post_speed;  // no speed-up over a step
    SimTrackView sim = make_sim(g.L, g.t0);
    Real3 pos{g.post[0], g.post[1], g.post[2]};
    OffloadPreStepData pre;
    for (int k = 0; k < 3; ++k)
        pre.pos[k] = g.pre[k];
    pre.speed = units::LightSpeed{pre_speed};
    pre.time = g.t0;
    pre.material = OpticalMaterialId(which);
    log.d("post_beta", post_speed);

    ScintillationOffload offload(particle,
                                 sim,
                                 pos,
                                 units::MevEnergy{edep},
                                 params->host_ref(),
                                 pre);
    LD mean = (LD)m.yield * edep;
    bool populated = false;
    long chained = 0;
    ScintWindow w = scint_window(m);
    // A massless particle absorbed at the end of the step has zero energy;
    // ParticleTrackView::speed() is then 0/0
    char const* nan_key = (pd.mass == 0 && energy == 0)
                              ? "F14-scint-massless-absorbed-nan-speed"
                              : "";
    for (int r = 0; r < 4; ++r)
    {
        GeneratorDistributionData res = offload(rng);
        if (edep == 0)
        {
            if (res.num_photons != 0 || bool(res))
                return log.fail("scintillation photons requested for zero "
                                "energy deposition: num_photons = "
                                + std::to_string(res.num_photons));
            continue;
        }
        if (mean > 10)
        {
            LD sig = m.res_scale * sqrtl(mean);
            if (!((LD)res.num_photons <= mean + 9.5L * sig + 1
                  && (LD)res.num_photons >= mean - 9.5L * sig - 1))
                return log.fail("scintillation photon count "
                                + std::to_string(res.num_photons)
                                + " outside mean +- 9.5 sigma (mean "
                                + std::to_string(double(mean)) + ")");
        }
        else if (res.num_photons > 400)
            return log.fail("implausible scintillation photon count "
                            + std::to_string(res.num_photons)
                            + " for a Poisson mean <= 10");
        if (res.num_photons > 0)
        {
            std::string msg = compare_fields(
                res, pre, g.L, pd.charge, post_speed, pos);
            if (!msg.empty())
                return log.fail("ScintillationOffload: " + msg);
            if (!res)
                return log.fail("ScintillationOffload: populated "
                                "distribution tests false");
            populated = true;
            // end to end: generate (some of) the requested photons
            ScintillationGenerator generate(params->host_ref(), res);
            int n = int(std::min<size_type>(res.num_photons, 3));
            for (int j = 0; j < n; ++j)
            {
                TrackInitializer p = generate(rng);
                if (Fail f = check_scint_photon(
                        m, w, pre_speed, pd.charge, g, p, j, nan_key))
                    return log.fail("offload->generator: " + f.msg, f.key);
                ++chained;
            }
        }
        else if (bool(res))
            return log.fail("ScintillationOffload: zero photons but "
                            "distribution tests true");
    }
    if (populated)
        log.label("scint-off-populated");
    log.count("scint_off_chained_photons", chained);
    log.nontrivial = populated;
    return Verdict::pass;
}

}  // namespace

void setup()
{
    build_fixtures();
}

Verdict run_case(Choices& c, CaseLog& log)
{
    int kind = int(c.pick({5, 3, 2, 1}));
    log.mix(kind);
    try
    {
        switch (kind)
        {
            case 0: return k_cerenkov_gen(c, log);
            case 1: return k_scint_gen(c, log);
            case 2: return k_cerenkov_off(c, log);
            default: return k_scint_off(c, log);
        }
    }
    catch (celeritas::DebugError const& e)
    {
        // Development aid only: the registered build has CELERITAS_DEBUG=OFF
        // and never throws this.  When the harness is compiled against a
        // Config.hh with CELERITAS_DEBUG=1, assertion failures inside the
        // header-only code are listed instead of aborting the run.
        static std::vector<std::string> seen;
        std::string w = e.what();
        if (std::find(seen.begin(), seen.end(), w) == seen.end())
        {
            seen.push_back(w);
            std::fprintf(stderr, "C20-DEBUG-ASSERT: %s\n", e.what());
        }
        log.label("debug-assert(dev-aid)");
        return Verdict::trivial;
    }
}

bool run_exhaustive(ExhaustiveResult&)
{
    return false;
}

}  // namespace verif
