// C07 — concurrent streams sharing problem parameters do not interfere.
//
// One CoreParams (max_streams = N) is shared by N threads, each with its own
// Stepper/StreamId (the usage pattern of app/celer-sim/Transporter.cc).  The
// per-event step streams and the diagnostics must equal those of a serial run
// of the same events on one stream.  The same harness is built with
// ThreadSanitizer (tsan flavour): any data-race report aborts the process and
// is reported with the case's bytes.
#include <atomic>
#include <cstring>
#include <map>
#include <sstream>
#include <thread>

#include "caselog.hh"
#include "simcheck.hh"
#include "simrun.hh"
#include "celeritas/user/ActionDiagnostic.hh"
#include "celeritas/user/StepDiagnostic.hh"

namespace verif
{
char const* const kPropertyId = "C07";
char const* const kHarness = "c07_streams";
size_t const kMaxBytes = 768;
char const* const kRule
    = "problem as for C01 with 2-6 events x an assignment of events to 2-8 "
      "streams x generated start skews x generated late starts (a stream "
      "constructs its Stepper only after a lower stream finished k events); "
      "N free-running threads, one Stepper "
      "per stream, sharing one CoreParams with a step collector, "
      "ActionDiagnostic and StepDiagnostic; oracle: every event's step "
      "stream (sorted by track, step) is bit-identical to the serial "
      "single-stream run, diagnostic totals equal the serial sums, and (tsan "
      "flavour) ThreadSanitizer reports nothing; non-trivial = >= 2 streams "
      "each transported >= 1 event with >= 10 steps";

void setup()
{
    geosrc_setup();
}

namespace
{
using namespace sim;

bool same_bits(double a, double b)
{
    return std::memcmp(&a, &b, sizeof(double)) == 0;
}

class StreamRecorder final : public StepInterface
{
  public:
    explicit StreamRecorder(size_t n) : per_stream(n) {}
    std::vector<std::vector<StepRec>> per_stream;

    Filters filters() const final { return {}; }
    StepSelection selection() const final { return StepSelection::all(); }
    void process_steps(DeviceStepState) final {}
    void process_steps(HostStepState s) final
    {
        auto& out = per_stream[s.stream_id.get()];
        auto const& d = s.steps.data;
        for (auto i : range(TrackSlotId{s.steps.size()}))
        {
            if (!d.track_id[i])
                continue;
            StepRec r{};
            r.event = d.event_id[i] ? int(d.event_id[i].get()) : -1;
            r.track = d.track_id[i].get();
            r.parent = d.parent_id[i] ? int(d.parent_id[i].get()) : -1;
            r.step_count = d.track_step_count[i];
            r.action = d.action_id[i] ? int(d.action_id[i].get()) : -1;
            r.particle = d.particle[i] ? int(d.particle[i].get()) : -1;
            r.length = d.step_length[i];
            r.edep = d.energy_deposition[i].value();
            r.slot = int(i.get());
            r.call = 0;
            for (auto sp : {StepPoint::pre, StepPoint::post})
            {
                auto const& pt = d.points[sp];
                PointRec& o = (sp == StepPoint::pre) ? r.pre : r.post;
                o.time = pt.time[i];
                o.energy = pt.energy[i].value();
                o.volume = pt.volume_id[i] ? int(pt.volume_id[i].get()) : -1;
                for (int k = 0; k < 3; ++k)
                {
                    o.pos[k] = pt.pos[i][k];
                    o.dir[k] = pt.dir[i][k];
                }
            }
            out.push_back(r);
        }
    }
};

using Key = std::tuple<int, unsigned, unsigned>;  // event, track, step

std::map<Key, StepRec> index_steps(std::vector<StepRec> const& v)
{
    std::map<Key, StepRec> m;
    for (auto const& r : v)
        m[Key{r.event, r.track, r.step_count}] = r;
    return m;
}

std::string compare(StepRec const& a, StepRec const& b)
{
    std::ostringstream m;
    if (a.parent != b.parent || a.action != b.action
        || a.particle != b.particle || !same_bits(a.length, b.length)
        || !same_bits(a.edep, b.edep))
        m << " scalar fields differ (action " << a.action << " vs " << b.action
          << ", edep " << a.edep << " vs " << b.edep << ")";
    for (int p = 0; p < 2; ++p)
    {
        PointRec const& x = p ? a.post : a.pre;
        PointRec const& y = p ? b.post : b.pre;
        bool ok = same_bits(x.time, y.time) && same_bits(x.energy, y.energy)
                  && x.volume == y.volume;
        for (int k = 0; k < 3; ++k)
            ok = ok && same_bits(x.pos[k], y.pos[k])
                 && same_bits(x.dir[k], y.dir[k]);
        if (!ok)
            m << (p ? " post" : " pre") << "-step point differs";
    }
    return m.str();
}

}  // namespace

Verdict run_case(Choices& c, CaseLog& log)
{
    GenOptions opt;
    opt.max_events = 6;
    opt.max_primaries = 3;
    opt.max_primary_energy = 10;
    int nstreams = 2;
    bool many_slots = false;
    Problem serial;
    Verdict v = setup_problem(c, log, opt, serial, {}, {}, [&](SimSpec& s) {
        s.max_events = 8;
        // many-slots class (round-3 seeded change C07/c: per-event reseeding
        // that skips trailing slots only when the slot count is >= 128 and
        // not a multiple of the block count).  Derived from the existing
        // draws: the upper quarter of the drawn range becomes 129..982 with
        // varying residues; everything else keeps the <= 16 cap.
        if (s.track_slots >= 48)
        {
            s.track_slots = 129 + (s.track_slots - 48) * 53
                            + int(s.rng_seed % 5);
            many_slots = true;
        }
        else
            s.track_slots = std::min(s.track_slots, 16);
        if (s.track_order == TrackOrder::init_charge)
            s.track_order = TrackOrder::none;
    });
    if (v != Verdict::pass)
        return v;
    size_t nev = serial.spec.events.size();
    if (many_slots)
        log.label("many-slots(>=128)");
    nstreams = int(c.int_in(2, 8));
    std::vector<int> assign(nev);
    std::vector<int> skew(nstreams);
    for (size_t e = 0; e < nev; ++e)
    {
        assign[e] = int(c.int_in(0, nstreams - 1));
        log.mix(assign[e]);
    }
    for (int i = 0; i < nstreams; ++i)
        skew[i] = int(c.int_in(0, 2000));
    // Generated start order (lazy per-stream start-up as in celer-sim's
    // Runner::get_transporter): stream i may be told to construct its Stepper
    // only after a lower-numbered stream has finished `after_n` of its events.
    // Dependencies point to lower stream numbers only, so they cannot cycle.
    std::vector<int> dep(nstreams, -1), after_n(nstreams, 0);
    std::vector<int> n_assigned(nstreams, 0);
    for (size_t e = 0; e < nev; ++e)
        ++n_assigned[assign[e]];
    int n_gated = 0;
    for (int i = 1; i < nstreams; ++i)
    {
        if (!c.boolean(0.4))
            continue;
        int d = int(c.int_in(0, i - 1));
        if (n_assigned[d] == 0)
            continue;
        dep[i] = d;
        after_n[i] = int(c.int_in(1, n_assigned[d]));
        log.mix(d);
        log.mix(after_n[i]);
        if (n_assigned[i] > 0)
            ++n_gated;
    }
    if (n_gated)
        log.label("gated-late-start");
    {
        // an idle stream below a busy one (gap in stream usage)
        bool gap = false, seen_busy = false;
        for (int i = nstreams - 1; i >= 0; --i)
        {
            if (n_assigned[i] > 0)
                seen_busy = true;
            else if (seen_busy)
                gap = true;
        }
        if (gap)
            log.label("idle-stream-below-busy");
    }
    log.mix(nstreams);
    log.d("streams", nstreams);
    if (log.want_desc)
    {
        std::ostringstream os;
        for (int a : assign)
            os << a << " ";
        log.ds("event_to_stream", os.str());
    }
    // ---- serial reference (events in order on one stream)
    v = run_all_events(serial, log, 20000);
    if (v != Verdict::pass)
        return v == Verdict::violation ? Verdict::trivial : v;
    auto ref = index_steps(serial.w->rec->steps);

    // ---- concurrent run
    SimSpec ps = serial.spec;
    ps.max_streams = nstreams;
    auto rec = std::make_shared<StreamRecorder>(nstreams);
    std::shared_ptr<ActionDiagnostic> adiag;
    std::shared_ptr<StepDiagnostic> sdiag;
    std::unique_ptr<World> w;
    try
    {
        w = build_world(ps,
                        serial.src.fix->params,
                        {},
                        {rec},
                        {},
                        false,
                        [&](CoreParams const& core) {
                            adiag = ActionDiagnostic::make_and_insert(core);
                            sdiag = StepDiagnostic::make_and_insert(core, 30);
                        });
    }
    catch (celeritas::RuntimeError const& e)
    {
        return Verdict::rejected;
    }
    std::vector<std::string> errors(nstreams);
    std::vector<std::atomic<int>> done(nstreams);
    for (auto& d : done)
        d.store(0);
    std::atomic<int> ready{0};
    std::vector<std::thread> threads;
    for (int sid = 0; sid < nstreams; ++sid)
    {
        threads.emplace_back([&, sid] {
            try
            {
                // rendezvous, then a generated skew
                ++ready;
                while (ready.load() < nstreams)
                    std::this_thread::yield();
                for (volatile int k = 0; k < skew[sid] * 50; ++k)
                {
                }
                if (dep[sid] >= 0)
                    while (done[dep[sid]].load() < after_n[sid])
                        std::this_thread::yield();
                StepperInput si;
                si.params = w->core;
                si.stream_id = StreamId{StreamId::size_type(sid)};
                si.num_track_slots = ps.track_slots;
                Stepper<MemSpace::host> step(si);
                for (size_t e = 0; e < nev; ++e)
                {
                    if (assign[e] != sid)
                        continue;
                    auto prim = make_primaries(*w, ps.events[e], int(e));
                    step.reseed(UniqueEventId{e});
                    auto res = step(make_span(prim));
                    long calls = 1;
                    while (res)
                    {
                        if (++calls > 40000)
                        {
                            errors[sid] = "call budget exhausted";
                            done[sid].store(1 << 20);
                            return;
                        }
                        res = step();
                    }
                    ++done[sid];
                }
            }
            catch (std::exception const& ex)
            {
                errors[sid] = ex.what();
                // never leave a dependent stream waiting
                done[sid].store(1 << 20);
            }
        });
    }
    for (auto& t : threads)
        t.join();
    for (int sid = 0; sid < nstreams; ++sid)
        if (!errors[sid].empty())
            return log.fail("stream " + std::to_string(sid)
                            + " failed while the serial run succeeded: "
                            + errors[sid]);
    // ---- compare
    std::vector<StepRec> all;
    int busy_streams = 0;
    for (int sid = 0; sid < nstreams; ++sid)
    {
        if (rec->per_stream[sid].size() >= 10)
            ++busy_streams;
        for (auto const& r : rec->per_stream[sid])
        {
            if (assign[r.event] != sid)
                return log.fail("a step of event " + std::to_string(r.event)
                                + " was delivered on stream "
                                + std::to_string(sid));
            all.push_back(r);
        }
    }
    auto got = index_steps(all);
    if (got.size() != ref.size() || all.size() != got.size())
    {
        std::ostringstream m;
        m << "concurrent run delivered " << all.size() << " steps ("
          << got.size() << " distinct), serial run " << ref.size();
        return log.fail(m.str());
    }
    for (auto const& kv : ref)
    {
        auto it = got.find(kv.first);
        if (it == got.end())
        {
            std::ostringstream m;
            m << "event " << std::get<0>(kv.first) << " track "
              << std::get<1>(kv.first) << " step " << std::get<2>(kv.first)
              << " missing in the concurrent run";
            return log.fail(m.str());
        }
        std::string d = compare(kv.second, it->second);
        if (!d.empty())
        {
            std::ostringstream m;
            m << "event " << std::get<0>(kv.first) << " track "
              << std::get<1>(kv.first) << " step " << std::get<2>(kv.first)
              << " differs between the serial and the concurrent run ("
              << nstreams << " streams):" << d;
            return log.fail(m.str());
        }
    }
    // diagnostics accumulated over all streams
    {
        auto counts = adiag->calc_actions();
        std::map<std::pair<int, int>, long> want;
        for (auto const& kv : ref)
            ++want[{kv.second.particle, kv.second.action}];
        for (size_t p = 0; p < counts.size(); ++p)
            for (size_t a = 0; a < counts[p].size(); ++a)
            {
                long wv = 0;
                auto it = want.find({int(p), int(a)});
                if (it != want.end())
                    wv = it->second;
                if (long(counts[p][a]) != wv)
                {
                    std::ostringstream m;
                    m << "ActionDiagnostic total [particle " << p
                      << "][action " << a << "] = " << counts[p][a]
                      << " over " << nstreams << " streams, serial count "
                      << wv;
                    return log.fail(m.str());
                }
            }
        auto steps = sdiag->calc_steps();
        std::map<std::pair<int, int>, long> wants;
        auto events = split_events(serial.w->rec->steps);
        for (auto const& ek : events)
            for (auto const& tk : ek.second.tracks)
            {
                int nb = int(steps.empty() ? 0 : steps[0].size());
                ++wants[{tk.second.particle,
                         std::min(int(tk.second.steps.size()), nb - 1)}];
            }
        for (size_t p = 0; p < steps.size(); ++p)
            for (size_t b = 0; b < steps[p].size(); ++b)
            {
                long wv = 0;
                auto it = wants.find({int(p), int(b)});
                if (it != wants.end())
                    wv = it->second;
                if (long(steps[p][b]) != wv)
                {
                    std::ostringstream m;
                    m << "StepDiagnostic total [particle " << p << "][" << b
                      << " steps] = " << steps[p][b] << ", serial count "
                      << wv;
                    return log.fail(m.str());
                }
            }
    }
    log.count("steps_compared", long(ref.size()));
    log.count("busy_streams", busy_streams);
    log.nontrivial = busy_streams >= 2;
    return Verdict::pass;
}

bool run_exhaustive(ExhaustiveResult&)
{
    return false;
}

}  // namespace verif
