// C06 — event results are reproducible and independent of history and of the
// re-indexing track-order policy, action timing and the debug status checker.
#include <algorithm>
#include <cstring>
#include <sstream>

#include "caselog.hh"
#include "simcheck.hh"
#include "simrun.hh"

namespace verif
{
char const* const kPropertyId = "C06";
char const* const kHarness = "c06_repro";
size_t const kMaxBytes = 704;
char const* const kRule
    = "problem as for C01 + a target event E (reseed id log-uniform up to "
      "2^40) + a generated prefix history on the SAME state (0-3 other events "
      "run to completion, optionally one event aborted after k steps followed "
      "by reset_state(), optional warm_up) x track order in {none, six "
      "re-index policies} x action timing x status checker; oracle = the "
      "step stream of E (sorted by track id, step) and its StepperResult "
      "sequence are bit-identical to a run on a fresh state with "
      "TrackOrder::none; non-trivial = E has >= 20 steps and >= 1 secondary "
      "and the variant differs from the reference in prefix or options";

void setup()
{
    geosrc_setup();
}

namespace
{
using namespace sim;

struct Key
{
    unsigned track;
    unsigned step;
    bool operator<(Key const& o) const
    {
        return track != o.track ? track < o.track : step < o.step;
    }
};

bool same_bits(double a, double b)
{
    return std::memcmp(&a, &b, sizeof(double)) == 0;
}

std::string diff_steps(StepRec const& a,
                       StepRec const& b,
                       std::vector<std::string> const& la,
                       std::vector<std::string> const& lb)
{
    std::ostringstream m;
    m.precision(17);
    auto pt = [&](char const* n, PointRec const& x, PointRec const& y) {
        if (!same_bits(x.time, y.time))
            m << " " << n << ".time " << x.time << " vs " << y.time;
        if (!same_bits(x.energy, y.energy))
            m << " " << n << ".energy " << x.energy << " vs " << y.energy;
        if (x.volume != y.volume)
            m << " " << n << ".volume " << x.volume << " vs " << y.volume;
        for (int k = 0; k < 3; ++k)
        {
            if (!same_bits(x.pos[k], y.pos[k]))
                m << " " << n << ".pos[" << k << "] " << x.pos[k] << " vs "
                  << y.pos[k];
            if (!same_bits(x.dir[k], y.dir[k]))
                m << " " << n << ".dir[" << k << "] " << x.dir[k] << " vs "
                  << y.dir[k];
        }
    };
    if (a.parent != b.parent)
        m << " parent " << a.parent << " vs " << b.parent;
    // action ids shift when the status checker adds an action: compare labels
    {
        std::string x = a.action >= 0 ? la[a.action] : "-";
        std::string y = b.action >= 0 ? lb[b.action] : "-";
        if (x != y)
            m << " action " << x << " vs " << y;
    }
    if (a.particle != b.particle)
        m << " particle " << a.particle << " vs " << b.particle;
    if (!same_bits(a.length, b.length))
        m << " length " << a.length << " vs " << b.length;
    if (!same_bits(a.edep, b.edep))
        m << " edep " << a.edep << " vs " << b.edep;
    pt("pre", a.pre, b.pre);
    pt("post", a.post, b.post);
    return m.str();
}

}  // namespace

Verdict run_case(Choices& c, CaseLog& log)
{
    GenOptions opt;
    opt.max_events = 4;  // event 0 = target, 1.. = prefix material
    Problem ref;
    // reference: fresh state, TrackOrder::none, no timing, no checker
    bool many_slots = false;
    TrackOrder variant_order = TrackOrder::none;
    Verdict v = setup_problem(c, log, opt, ref, {}, {}, [&](SimSpec& s) {
        // keep the drawn order for the variant; exclude init_charge (a layout
        // policy, which the property does not cover)
        variant_order = s.track_order;
        if (variant_order == TrackOrder::init_charge)
            variant_order = TrackOrder::reindex_shuffle;
        s.track_order = TrackOrder::none;
        s.max_events = 8;
        // many-slots class (see c07_streams.cc): slot counts 129..982,
        // derived from the existing draws
        if (s.track_slots >= 48)
        {
            s.track_slots = 129 + (s.track_slots - 48) * 53
                            + int(s.rng_seed % 5);
            many_slots = true;
        }
    });
    if (many_slots)
        log.label("many-slots(>=128)");
    if (v != Verdict::pass)
        return v;
    unsigned long target_id = (unsigned long)(c.log_u64() >> 24);
    bool action_times = c.boolean(0.3);
    bool status_checker = c.boolean(0.3);
    int n_prefix = int(c.int_in(0, 3));
    bool abort_one = c.boolean(0.4);
    int abort_steps = int(c.int_in(1, 12));
    bool warm = c.boolean(0.3);
    // event ids carried by the primaries (track ids are counted per event id;
    // reseed() must make them start afresh whatever ran before)
    int target_event = int(c.int_in(0, 3));
    int prefix_event[4];
    for (int& pe : prefix_event)
        pe = int(c.int_in(0, 3));
    log.mix(target_event);
    log.mix(uint64_t(target_id));
    log.mix(int(action_times));
    log.mix(int(status_checker));
    log.mix(n_prefix);
    log.mix(int(abort_one));
    log.mix(int(variant_order));
    log.d("target_event_id", target_id);
    log.d("variant_order", int(variant_order));
    log.d("action_times", int(action_times));
    log.d("status_checker", int(status_checker));
    log.d("prefix_events", n_prefix);
    log.d("abort_after", abort_one ? abort_steps : -1);
    log.d("warm_up", int(warm));

    auto const& evs = ref.spec.events;
    auto target = make_primaries(*ref.w, evs[0], target_event);
    RunResult r0 = run_event(*ref.w, *ref.stepper, target, target_id, 20000);
    if (r0.error.find("insufficient") != std::string::npos)
        return Verdict::rejected;
    if (!r0.error.empty())
        return log.fail("exception in the reference run: " + r0.error);
    if (!r0.completed)
    {
        log.label("budget-exhausted");
        return Verdict::trivial;
    }
    std::vector<StepRec> s0 = ref.w->rec->steps;

    // variant world: same spec except the options under test
    SimSpec vs = ref.spec;
    vs.track_order = variant_order;
    vs.status_checker = status_checker;
    vs.action_times = action_times;
    std::unique_ptr<World> w1;
    try
    {
        w1 = build_world(vs, ref.src.fix->params);
    }
    catch (celeritas::RuntimeError const& e)
    {
        return Verdict::rejected;
    }
    StepperInput si;
    si.params = w1->core;
    si.stream_id = StreamId{0};
    si.num_track_slots = vs.track_slots;
    si.action_times = action_times;
    Stepper<MemSpace::host> step1(si);
    if (warm)
        step1.warm_up();
    int used_prefix = 0;
    for (int i = 0; i < n_prefix; ++i)
    {
        auto const& ev = evs[(1 + i) % evs.size()];
        auto prim = make_primaries(*w1, ev, prefix_event[i]);
        if (prefix_event[i] == target_event)
            log.label("prefix-with-same-event-id");
        RunResult r = run_event(*w1, step1, prim, 1000 + 17 * i, 20000);
        if (!r.error.empty() || !r.completed)
        {
            log.label("prefix-not-completed");
            return Verdict::trivial;
        }
        ++used_prefix;
    }
    if (abort_one)
    {
        auto const& ev = evs[(1 + n_prefix) % evs.size()];
        auto prim = make_primaries(*w1, ev, prefix_event[3]);
        RunResult r = run_event(*w1, step1, prim, 77777, abort_steps);
        if (!r.error.empty())
        {
            log.label("prefix-not-completed");
            return Verdict::trivial;
        }
        // abandon the event in flight and reset the state
        step1.reset_state();
        log.label(r.completed ? "abort-after-completion" : "aborted-in-flight");
    }
    w1->rec->steps.clear();
    RunResult r1 = run_event(*w1, step1, target, target_id, 40000);
    if (!r1.error.empty())
        return log.fail("exception in the variant run (prefix " + std::to_string(used_prefix)
                        + " events, abort " + std::to_string(abort_one) + "): "
                        + r1.error);
    if (!r1.completed)
        return log.fail("the event completes on a fresh state but not after "
                        "the prefix history");
    std::vector<StepRec> const& s1 = w1->rec->steps;

    // compare StepperResult sequences
    if (r0.results.size() != r1.results.size())
    {
        std::ostringstream m;
        m << "number of Stepper calls differs: " << r0.results.size()
          << " (fresh) vs " << r1.results.size() << " (after history)";
        return log.fail(m.str());
    }
    for (size_t i = 0; i < r0.results.size(); ++i)
    {
        auto const& a = r0.results[i];
        auto const& b = r1.results[i];
        if (a.generated != b.generated || a.active != b.active
            || a.alive != b.alive || a.queued != b.queued)
        {
            std::ostringstream m;
            m << "StepperResult of call " << i << " differs: generated/active/"
              << "alive/queued " << a.generated << "/" << a.active << "/"
              << a.alive << "/" << a.queued << " vs " << b.generated << "/"
              << b.active << "/" << b.alive << "/" << b.queued;
            return log.fail(m.str());
        }
    }
    // compare streams sorted by (track, step)
    auto index = [target_event](std::vector<StepRec> const& s) {
        std::map<Key, StepRec const*> m;
        for (auto const& r : s)
            if (r.event == target_event)
                m[Key{r.track, r.step_count}] = &r;
        return m;
    };
    auto m0 = index(s0);
    auto m1 = index(s1);
    if (m0.size() != m1.size())
    {
        std::ostringstream m;
        m << "number of steps differs: " << m0.size() << " vs " << m1.size();
        return log.fail(m.str());
    }
    auto labels = [](World const& w) {
        std::vector<std::string> l;
        auto const& reg = *w.core->action_reg();
        for (auto aid : range(ActionId{reg.num_actions()}))
            l.emplace_back(reg.id_to_label(aid));
        return l;
    };
    auto la = labels(*ref.w);
    auto lb = labels(*w1);
    long secondaries = 0;
    for (auto const& kv : m0)
    {
        auto it = m1.find(kv.first);
        if (it == m1.end())
        {
            std::ostringstream m;
            m << "track " << kv.first.track << " step " << kv.first.step
              << " exists only in the fresh-state run";
            return log.fail(m.str());
        }
        std::string d = diff_steps(*kv.second, *it->second, la, lb);
        if (!d.empty())
        {
            std::ostringstream m;
            m << "track " << kv.first.track << " step " << kv.first.step
              << " differs between the fresh-state run and the run after the "
                 "history (order "
              << int(variant_order) << ", timing " << action_times
              << ", checker " << status_checker << "):" << d;
            return log.fail(m.str());
        }
        if (kv.second->parent >= 0 && kv.first.step == 1)
            ++secondaries;
    }
    log.count("steps_compared", long(m0.size()));
    if (variant_order != TrackOrder::none)
        log.label("reindexed");
    if (status_checker)
        log.label("status-checker");
    if (action_times)
        log.label("action-times");
    if (used_prefix)
        log.label("with-prefix");
    bool differs = used_prefix > 0 || abort_one || warm
                   || variant_order != TrackOrder::none || status_checker
                   || action_times;
    log.nontrivial = m0.size() >= 20 && secondaries >= 1 && differs;
    return Verdict::pass;
}

bool run_exhaustive(ExhaustiveResult&)
{
    return false;
}

}  // namespace verif
