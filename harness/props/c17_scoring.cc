// C17 — user scoring receives exactly the steps that happened.
//
// Ground truth: the unfiltered all-field step stream of the same problem run
// on a separate (identical) world.  The world under test registers 1-3 test
// callbacks with generated selections and filters, optionally a SimpleCalo,
// plus ActionDiagnostic and StepDiagnostic.
#include <cstdio>
#include <cstdlib>
#include <cstring>
#include <map>
#include <set>
#include <sstream>

#include "caselog.hh"
#include "simcheck.hh"
#include "simrun.hh"
#include "celeritas/user/ActionDiagnostic.hh"
#include "celeritas/user/DetectorSteps.hh"
#include "celeritas/user/SimpleCalo.hh"
#include "celeritas/user/StepDiagnostic.hh"

namespace verif
{
char const* const kPropertyId = "C17";
char const* const kHarness = "c17_scoring";
size_t const kMaxBytes = 704;
char const* const kRule
    = "problem as for C01 x 1-3 step callbacks with generated StepSelections "
      "x detector maps (none / generated disjoint subsets of volumes) x "
      "nonzero-deposit filter x optional SimpleCalo x ActionDiagnostic x "
      "StepDiagnostic; oracle = the unfiltered all-field stream of the same "
      "problem on a twin world: each callback gets exactly the active-slot "
      "steps that pass the combined filters, every selected field equals the "
      "truth bitwise, unselected collections are empty, calorimeter sums and "
      "diagnostic histograms equal sums over the truth; mixing callbacks "
      "with and without detectors must be rejected at construction; "
      "non-trivial = >= 50 delivered steps and (>= 1 filtered-out step or "
      ">= 2 callbacks)";

void setup()
{
    geosrc_setup();
}

namespace
{
using namespace sim;

bool same_bits(double a, double b)
{
    return std::memcmp(&a, &b, sizeof(double)) == 0;
}

struct Delivered
{
    long call;
    int slot;
    unsigned track;
    int detector;
};

struct Mismatch
{
    std::string msg;
};

class TestCb final : public StepInterface
{
  public:
    StepSelection sel;
    Filters filt;
    long const* call = nullptr;
    std::map<std::pair<long, int>, StepRec> const* truth = nullptr;
    StepSelection union_sel;
    std::vector<Delivered> delivered;
    std::string error;
    DetectorStepOutput hits_;
    long copy_calls = 0, copy_empty_calls = 0;

    Filters filters() const final { return filt; }
    StepSelection selection() const final { return sel; }
    void process_steps(DeviceStepState) final {}
    void process_steps(HostStepState s) final
    {
        auto const& d = s.steps.data;
        bool have_det = !d.detector.empty();
        auto fail = [this](std::string m) {
            if (error.empty())
                error = std::move(m);
        };
        // unselected collections must be empty
        auto want = [&](bool selected, size_t size, char const* name) {
            if (!selected && size != 0)
                fail(std::string("collection '") + name
                     + "' is allocated although no callback selected it");
            if (selected && size == 0)
                fail(std::string("collection '") + name
                     + "' is empty although it was selected");
        };
        want(union_sel.event_id, d.event_id.size(), "event_id");
        want(union_sel.parent_id, d.parent_id.size(), "parent_id");
        want(union_sel.track_step_count,
             d.track_step_count.size(),
             "track_step_count");
        want(union_sel.action_id, d.action_id.size(), "action_id");
        want(union_sel.step_length, d.step_length.size(), "step_length");
        want(union_sel.particle, d.particle.size(), "particle");
        want(union_sel.energy_deposition,
             d.energy_deposition.size(),
             "energy_deposition");
        for (auto sp : {StepPoint::pre, StepPoint::post})
        {
            auto const& p = d.points[sp];
            auto const& ps = union_sel.points[sp];
            want(ps.time, p.time.size(), "point.time");
            want(ps.pos, p.pos.size(), "point.pos");
            want(ps.dir, p.dir.size(), "point.dir");
            want(ps.volume_id, p.volume_id.size(), "point.volume_id");
            want(ps.energy, p.energy.size(), "point.energy");
        }
        if (!error.empty())
            return;
        if (have_det)
        {
            // DetectorStepOutput (the hit-processing convenience layer) must
            // hold exactly the in-detector steps of THIS call, in slot order;
            // the output object is reused across calls as HitProcessor does
            copy_steps(&hits_, s.steps);
            size_t n = 0;
            for (auto i : range(TrackSlotId{s.steps.size()}))
            {
                if (!d.detector[i])
                    continue;
                if (n >= hits_.size())
                {
                    ++n;
                    continue;
                }
                bool ok = hits_.detector[n] == d.detector[i]
                          && hits_.track_id[n] == d.track_id[i];
                if (union_sel.event_id)
                    ok = ok && hits_.event_id.size() == hits_.size()
                         && hits_.event_id[n] == d.event_id[i];
                if (union_sel.track_step_count)
                    ok = ok && hits_.track_step_count.size() == hits_.size()
                         && hits_.track_step_count[n] == d.track_step_count[i];
                if (union_sel.energy_deposition)
                    ok = ok && hits_.energy_deposition.size() == hits_.size()
                         && same_bits(hits_.energy_deposition[n].value(),
                                      d.energy_deposition[i].value());
                if (union_sel.step_length)
                    ok = ok && hits_.step_length.size() == hits_.size()
                         && same_bits(hits_.step_length[n], d.step_length[i]);
                for (auto sp : {StepPoint::pre, StepPoint::post})
                {
                    if (union_sel.points[sp].energy)
                        ok = ok
                             && hits_.points[sp].energy.size() == hits_.size()
                             && same_bits(hits_.points[sp].energy[n].value(),
                                          d.points[sp].energy[i].value());
                    if (union_sel.points[sp].time)
                        ok = ok && hits_.points[sp].time.size() == hits_.size()
                             && same_bits(hits_.points[sp].time[n],
                                          d.points[sp].time[i]);
                }
                if (!ok)
                    fail("copy_steps: hit " + std::to_string(n)
                         + " differs from the state's in-detector step of "
                           "slot "
                         + std::to_string(i.get()));
                ++n;
            }
            if (n != hits_.size())
                fail("copy_steps delivered " + std::to_string(hits_.size())
                     + " hits for a call with " + std::to_string(n)
                     + " in-detector steps");
            ++copy_calls;
            if (n == 0)
                ++copy_empty_calls;
        }
        for (auto i : range(TrackSlotId{s.steps.size()}))
        {
            if (!d.track_id[i])
                continue;
            if (have_det && !d.detector[i])
                continue;
            Delivered e;
            e.call = *call;
            e.slot = int(i.get());
            e.track = d.track_id[i].get();
            e.detector = have_det ? int(d.detector[i].get()) : -1;
            delivered.push_back(e);
            auto it = truth->find({e.call, e.slot});
            if (it == truth->end())
            {
                fail("a step was delivered for a slot that took no step");
                continue;
            }
            StepRec const& t = it->second;
            std::ostringstream id;
            id << "delivered step (track " << e.track << ", call " << e.call
               << ", slot " << e.slot << ")";
            if (t.track != e.track)
                fail(id.str() + ": track id differs from the truth");
            if (union_sel.event_id
                && (d.event_id[i] ? int(d.event_id[i].get()) : -1) != t.event)
                fail(id.str() + ": event_id differs");
            if (union_sel.parent_id
                && (d.parent_id[i] ? int(d.parent_id[i].get()) : -1) != t.parent)
                fail(id.str() + ": parent_id differs");
            if (union_sel.track_step_count
                && d.track_step_count[i] != t.step_count)
                fail(id.str() + ": track_step_count differs");
            if (union_sel.action_id
                && (d.action_id[i] ? int(d.action_id[i].get()) : -1)
                       != t.action)
                fail(id.str() + ": action_id differs");
            if (union_sel.step_length && !same_bits(d.step_length[i], t.length))
                fail(id.str() + ": step_length differs");
            if (union_sel.particle
                && (d.particle[i] ? int(d.particle[i].get()) : -1) != t.particle)
                fail(id.str() + ": particle differs");
            if (union_sel.energy_deposition
                && !same_bits(d.energy_deposition[i].value(), t.edep))
                fail(id.str() + ": energy_deposition differs");
            for (auto sp : {StepPoint::pre, StepPoint::post})
            {
                auto const& p = d.points[sp];
                auto const& ps = union_sel.points[sp];
                PointRec const& tp = sp == StepPoint::pre ? t.pre : t.post;
                if (ps.time && !same_bits(p.time[i], tp.time))
                    fail(id.str() + ": point time differs");
                if (ps.energy && !same_bits(p.energy[i].value(), tp.energy))
                    fail(id.str() + ": point energy differs");
                if (ps.volume_id
                    && (p.volume_id[i] ? int(p.volume_id[i].get()) : -1)
                           != tp.volume)
                    fail(id.str() + ": point volume differs");
                for (int k = 0; k < 3; ++k)
                {
                    if (ps.pos && !same_bits(p.pos[i][k], tp.pos[k]))
                        fail(id.str() + ": point position differs");
                    if (ps.dir && !same_bits(p.dir[i][k], tp.dir[k]))
                        fail(id.str() + ": point direction differs");
                }
            }
        }
    }
};

StepSelection gen_selection(Choices& c, CaseLog& log)
{
    StepSelection s;
    auto b = [&](double p) {
        bool v = c.boolean(p);
        log.mix(int(v));
        return v;
    };
    s.event_id = b(0.5);
    s.parent_id = b(0.4);
    s.track_step_count = b(0.5);
    s.action_id = b(0.5);
    s.step_length = b(0.5);
    s.particle = b(0.5);
    s.energy_deposition = b(0.6);
    for (auto sp : {StepPoint::pre, StepPoint::post})
    {
        s.points[sp].time = b(0.4);
        s.points[sp].pos = b(0.5);
        s.points[sp].dir = b(0.3);
        s.points[sp].volume_id = b(0.5);
        s.points[sp].energy = b(0.5);
    }
    if (!s)
        s.energy_deposition = true;  // empty selections are rejected
    return s;
}

}  // namespace

Verdict run_case(Choices& c, CaseLog& log)
{
    GenOptions opt;
    Problem truth;
    Verdict v = setup_problem(c, log, opt, truth);
    if (v != Verdict::pass)
        return v;
    v = run_all_events(truth, log, 20000);
    if (v != Verdict::pass)
        return v == Verdict::violation ? Verdict::trivial : v;
    std::map<std::pair<long, int>, StepRec> tmap;
    for (auto const& s : truth.w->rec->steps)
        tmap[{s.call, s.slot}] = s;

    // callbacks under test
    auto geo = truth.src.fix->params;
    size_t nvol = geo->num_volumes();
    int ncb = int(c.int_in(1, 3));
    int detmode = int(c.pick({2, 3, 1}));  // none / subsets / mixed (invalid)
    // SimpleCalo assumes it is the only interface with a detector map (it
    // indexes its tallies by the shared detector id), so it is tested alone
    bool use_calo = detmode == 1 && c.boolean(0.35);
    if (use_calo)
        ncb = 0;
    log.mix(ncb);
    log.mix(detmode);
    log.mix(int(use_calo));
    log.d("callbacks", ncb);
    log.d("detector_mode", detmode);
    log.d("simple_calo", int(use_calo));
    std::vector<std::shared_ptr<TestCb>> cbs;
    std::vector<bool> vol_used(nvol, false);
    StepSelection union_sel;
    std::map<int, int> detmap;  // volume -> detector
    bool all_nonzero = true;
    int next_det = 0;
    for (int i = 0; i < ncb; ++i)
    {
        auto cb = std::make_shared<TestCb>();
        cb->sel = gen_selection(c, log);
        union_sel |= cb->sel;
        bool with_det = detmode == 1 || (detmode == 2 && i == 0);
        if (with_det)
        {
            int nd = int(c.int_in(1, 4));
            for (int k = 0; k < nd; ++k)
            {
                size_t vv = c.index(nvol);
                log.mix(vv);
                if (vol_used[vv])
                    continue;
                vol_used[vv] = true;
                cb->filt.detectors[VolumeId{VolumeId::size_type(vv)}]
                    = DetectorId{DetectorId::size_type(next_det)};
                detmap[int(vv)] = next_det++;
            }
            cb->filt.nonzero_energy_deposition = c.boolean(0.5);
            if (cb->filt.detectors.empty())
                with_det = false;
        }
        if (!with_det || !cb->filt.nonzero_energy_deposition)
            all_nonzero = all_nonzero && (with_det ? false : true);
        if (with_det && !cb->filt.nonzero_energy_deposition)
            all_nonzero = false;
        cbs.push_back(cb);
    }
    // nonzero filter is the AND over all interfaces (only with detectors)
    bool any_without_det = false, any_with_det = false;
    bool nonzero = true;
    for (auto const& cb : cbs)
    {
        (cb->filt.detectors.empty() ? any_without_det : any_with_det) = true;
        nonzero = nonzero && cb->filt.nonzero_energy_deposition;
    }
    std::shared_ptr<SimpleCalo> calo;
    std::vector<int> calo_vols;
    if (use_calo)
    {
        std::vector<Label> labels;
        for (int k = 0; k < 3; ++k)
        {
            size_t vv = c.index(nvol);
            if (vol_used[vv])
                continue;
            vol_used[vv] = true;
            labels.push_back(geo->id_to_label(VolumeId{VolumeId::size_type(vv)}));
            calo_vols.push_back(int(vv));
        }
        if (!labels.empty())
        {
            try
            {
                calo = std::make_shared<SimpleCalo>(labels, *geo, 1);
            }
            catch (celeritas::RuntimeError const&)
            {
                calo.reset();
                calo_vols.clear();
            }
        }
        if (!calo)
            return Verdict::trivial;
        any_with_det = true;
        if (calo)
        {
            // SimpleCalo selects energy deposition + pre-step volume and
            // filters on its volumes with non-zero deposition
            StepSelection cs;
            cs.energy_deposition = true;
            cs.points[StepPoint::pre].volume_id = true;
            union_sel |= cs;
            for (size_t k = 0; k < calo_vols.size(); ++k)
                detmap[calo_vols[k]] = -100 - int(k);  // marks "in calo"
        }
    }
    bool mixed = any_with_det && any_without_det;

    std::shared_ptr<ActionDiagnostic> adiag;
    std::shared_ptr<StepDiagnostic> sdiag;
    int const step_bins = 30;
    std::vector<std::shared_ptr<StepInterface>> ifaces(cbs.begin(), cbs.end());
    if (calo)
        ifaces.push_back(calo);
    std::unique_ptr<World> w;
    try
    {
        w = build_world(
            truth.spec,
            geo,
            {},
            ifaces,
            {},
            false,
            [&](CoreParams const& core) {
                adiag = ActionDiagnostic::make_and_insert(core);
                sdiag = StepDiagnostic::make_and_insert(core, step_bins);
            });
    }
    catch (celeritas::RuntimeError const& e)
    {
        if (mixed)
        {
            log.label("mixed-filters-rejected");
            log.nontrivial = true;
            return Verdict::pass;
        }
        return log.fail(std::string("valid callback set was rejected: ")
                        + e.what());
    }
    if (mixed)
        return log.fail("callbacks with and without detector maps were "
                        "accepted together (documented as unsupported)");
    for (auto& cb : cbs)
    {
        cb->call = &w->rec->call;
        cb->truth = &tmap;
        cb->union_sel = union_sel;
    }
    StepperInput si;
    si.params = w->core;
    si.stream_id = StreamId{0};
    si.num_track_slots = truth.spec.track_slots;
    Stepper<MemSpace::host> step(si);
    for (size_t e = 0; e < truth.spec.events.size(); ++e)
    {
        auto prim = make_primaries(*w, truth.spec.events[e], int(e));
        RunResult r = run_event(*w, step, prim, unsigned(e), 40000);
        if (!r.error.empty() || !r.completed)
            return log.fail("twin world did not complete the event: " + r.error);
    }
    // expected deliveries
    std::vector<std::pair<long, int>> expect;
    long filtered_out = 0;
    for (auto const& kv : tmap)
    {
        StepRec const& t = kv.second;
        bool in = true;
        if (any_with_det)
        {
            in = detmap.count(t.pre.volume) > 0;
            bool nz = nonzero && (calo ? true : true);
            // SimpleCalo always demands nonzero; AND over all interfaces
            bool eff_nonzero = nonzero && (!calo || true);
            (void)nz;
            if (in && eff_nonzero && t.edep == 0)
                in = false;
        }
        if (in)
            expect.push_back(kv.first);
        else
            ++filtered_out;
    }
    long ndelivered = 0;
    for (size_t i = 0; i < cbs.size(); ++i)
    {
        auto const& cb = *cbs[i];
        if (!cb.error.empty())
            return log.fail("callback " + std::to_string(i) + ": " + cb.error);
        std::set<std::pair<long, int>> got;
        for (auto const& dlv : cb.delivered)
        {
            if (!got.insert({dlv.call, dlv.slot}).second)
                return log.fail("callback " + std::to_string(i)
                                + ": a step was delivered twice");
            if (any_with_det)
            {
                StepRec const& t = tmap.at({dlv.call, dlv.slot});
                auto it = detmap.find(t.pre.volume);
                int want = it == detmap.end() ? -999 : it->second;
                if (want >= 0 && dlv.detector != want)
                    return log.fail("callback " + std::to_string(i)
                                    + ": detector id "
                                    + std::to_string(dlv.detector)
                                    + " != mapped id " + std::to_string(want)
                                    + " of the pre-step volume");
            }
        }
        if (got.size() != expect.size())
        {
            std::ostringstream m;
            m << "callback " << i << " received " << got.size()
              << " steps, expected " << expect.size() << " (of " << tmap.size()
              << " taken; detectors " << detmap.size() << ", nonzero filter "
              << nonzero << ")";
            return log.fail(m.str());
        }
        for (auto const& k : expect)
            if (!got.count(k))
            {
                StepRec const& t = tmap.at(k);
                std::ostringstream m;
                m << "callback " << i << " never received track " << t.track
                  << " step " << t.step_count << " (pre-step volume "
                  << t.pre.volume << ", deposit " << t.edep << ")";
                return log.fail(m.str());
            }
        ndelivered += long(got.size());
    }
    // calorimeter
    if (calo)
    {
        auto tot = calo->calc_total_energy_deposition();
        for (size_t k = 0; k < calo_vols.size(); ++k)
        {
            long double sum = 0;
            for (auto const& kv : tmap)
                if (kv.second.pre.volume == calo_vols[k])
                    sum += kv.second.edep;
            if (fabsl(tot[k] - sum) > 1e-12L * (fabsl(sum) + 1e-6L))
            {
                std::ostringstream m;
                m.precision(15);
                m << "SimpleCalo detector " << k << " (volume " << calo_vols[k]
                  << ") = " << tot[k] << " MeV, sum of deposits with that "
                  << "pre-step volume = " << (double)sum;
                return log.fail(m.str());
            }
        }
        log.label("simple-calo");
    }
    // action diagnostic: counts of (particle, post-step action)
    {
        auto counts = adiag->calc_actions();  // [particle][action]
        if (std::getenv("VERIF_SIMDEBUG"))
        {
            auto const& reg = *w->core->action_reg();
            for (size_t p = 0; p < counts.size(); ++p)
                for (size_t a = 0; a < counts[p].size(); ++a)
                    if (counts[p][a])
                        std::fprintf(stderr, "diag p%zu a%zu(%s) = %zu\n", p, a, std::string(reg.id_to_label(ActionId(a))).c_str(), size_t(counts[p][a]));
            for (auto const& kv : adiag->calc_actions_map())
                std::fprintf(stderr, "map %s = %zu\n", kv.first.c_str(), size_t(kv.second));
            for (auto aid : range(ActionId{reg.num_actions()}))
                std::fprintf(stderr, "action %u %s\n", unsigned(aid.get()), std::string(reg.id_to_label(aid)).c_str());
            std::fprintf(stderr, "dims %zu x %zu\n", counts.size(), counts.empty()?0:counts[0].size());
            std::map<std::pair<int,int>,long> r2;
            for (auto const& kv : tmap) ++r2[{kv.second.particle, kv.second.action}];
            for (auto const& kv : r2) std::fprintf(stderr, "truth p%d a%d = %ld\n", kv.first.first, kv.first.second, kv.second);
        }
        std::map<std::pair<int, int>, long> ref;
        for (auto const& kv : tmap)
            ++ref[{kv.second.particle, kv.second.action}];
        for (size_t p = 0; p < counts.size(); ++p)
            for (size_t a = 0; a < counts[p].size(); ++a)
            {
                long want = 0;
                auto it = ref.find({int(p), int(a)});
                if (it != ref.end())
                    want = it->second;
                if (long(counts[p][a]) != want)
                {
                    std::ostringstream m;
                    m << "ActionDiagnostic[particle " << p << "][action " << a
                      << "] = " << counts[p][a] << ", steps with that "
                      << "post-step action = " << want;
                    return log.fail(m.str());
                }
            }
    }
    // step diagnostic: steps per track at track end
    {
        auto counts = sdiag->calc_steps();  // [particle][bin]
        std::map<std::pair<int, int>, long> ref;
        auto events = split_events(truth.w->rec->steps);
        for (auto const& ek : events)
            for (auto const& tk : ek.second.tracks)
            {
                int n = int(tk.second.steps.size());
                int nb = int(counts.empty() ? 0 : counts[0].size());
                ++ref[{tk.second.particle, std::min(n, nb - 1)}];
            }
        for (size_t p = 0; p < counts.size(); ++p)
            for (size_t b = 0; b < counts[p].size(); ++b)
            {
                long want = 0;
                auto it = ref.find({int(p), int(b)});
                if (it != ref.end())
                    want = it->second;
                if (long(counts[p][b]) != want)
                {
                    std::ostringstream m;
                    m << "StepDiagnostic[particle " << p << "][" << b
                      << " steps] = " << counts[p][b] << ", tracks that "
                      << "ended after that many steps = " << want;
                    return log.fail(m.str());
                }
            }
    }
    {
        long cc = 0, ce = 0;
        for (auto const& cbp : cbs)
        {
            cc += cbp->copy_calls;
            ce += cbp->copy_empty_calls;
        }
        log.count("copy_steps_calls", cc);
        log.count("copy_steps_calls_without_hits", ce);
        if (ce > 0 && cc > ce)
            log.label("copy-steps-empty-after-hits");
    }
    log.count("delivered_steps", ndelivered);
    log.count("filtered_out_steps", filtered_out);
    if (any_with_det)
        log.label("with-detectors");
    if (nonzero && any_with_det)
        log.label("nonzero-filter");
    log.nontrivial = ndelivered >= 50 && (filtered_out >= 1 || ncb >= 2);
    return Verdict::pass;
}

bool run_exhaustive(ExhaustiveResult&)
{
    return false;
}

}  // namespace verif
