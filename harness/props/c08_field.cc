// C08 — field propagation follows the field and stays consistent with the
// geometry.
//
// One case = geometry (bundled | generated raw) + particle (e-, e+, mu-, mu+)
// + field (uniform any direction | uniform z | RZ map) + FieldDriverOptions
// + integrator (Dormand-Prince | classical RK4 | ZHelix) + start (interior |
// on a boundary reached by a linear step + crossing; uniform / near-tangent /
// grazing directions) + requested step (+ optional subdivision).
//
// Oracles (see notes/C08.md for the error model):
//   1 particle energy/momentum untouched, geo.dir() unit
//   2 0 < distance <= step (1 + 1e-9)
//   3 looping / boundary / full-step trichotomy (+ documented "bump"), flag ==
//     geo.is_on_boundary(), end point located (O-GEO) in the start volume
//   4 uniform field: end point and direction on the analytic helix
//   5 no boundary deeper than the chord tolerance is jumped (helix samples, or
//     a long-double reference trajectory for RZ maps), crossing consistent
//   6 subdivision independence
#include <algorithm>
#include <cmath>
#include <fstream>
#include <memory>
#include <sstream>
#include <vector>

#include "caselog.hh"
#include "corecel/data/CollectionStateStore.hh"
#include "corecel/io/Logger.hh"
#include "celeritas/Quantities.hh"
#include "celeritas/field/DormandPrinceStepper.hh"
#include "celeritas/field/FieldDriverOptions.hh"
#include "celeritas/field/MakeMagFieldPropagator.hh"
#include "celeritas/field/RZMapField.hh"
#include "celeritas/field/RZMapFieldInput.hh"
#include "celeritas/field/RZMapFieldParams.hh"
#include "celeritas/field/RungeKuttaStepper.hh"
#include "celeritas/field/UniformField.hh"
#include "celeritas/field/UniformZField.hh"
#include "celeritas/field/ZHelixStepper.hh"
#include "celeritas/phys/PDGNumber.hh"
#include "celeritas/phys/ParticleData.hh"
#include "celeritas/phys/ParticleParams.hh"
#include "celeritas/phys/ParticleTrackView.hh"
#include "geofix.hh"
#include "geosrc.hh"

namespace verif
{
char const* const kPropertyId = "C08";
char const* const kHarness = "c08_field";
size_t const kMaxBytes = 704;
char const* const kRule
    = "byte string -> (geometry: bundled .org.json | generated raw "
      "OrangeInput; particle e-/e+/mu-/mu+; field: uniform (any direction, "
      "also aimed so that the orbit grazes a real boundary) | uniform-z | RZ "
      "map (bundled cms-tiny | generated smooth map), 1e-3..10 T; momentum "
      "such that the gyroradius is 1e-4..1e4 x geometry scale; "
      "FieldDriverOptions inside validate_input; integrator DormandPrince | "
      "RK4 | ZHelix; start interior (O-GEO unambiguous) or on a boundary "
      "after a linear step + crossing, direction uniform | near-tangent | "
      "grazing; step log-uniform 0.1 x minimum_step .. 50 turns; optional "
      "subdivision into k calls); oracle = analytic helix / long-double "
      "reference trajectory + independent geometry locator; non-trivial = "
      "direction turns > 5 degrees AND (boundary hit | start on boundary | "
      ">= 1 full turn | looping)";

namespace
{
using namespace celeritas;
using geo::LD;
using geo::V3;

constexpr LD kLorentz = 2.99792458e-4L;  // (MeV/c) / (gauss cm): p = k B R

//---------------------------------------------------------------------------//
// Shared, built once
//---------------------------------------------------------------------------//
struct Shared
{
    std::shared_ptr<ParticleParams> particles;
    using PStore = CollectionStateStore<ParticleStateData, MemSpace::host>;
    std::unique_ptr<PStore> pstate;
    RZMapFieldInput cms_input;
    std::shared_ptr<RZMapFieldParams> cms_map;
    bool have_cms = false;
};

Shared& shared()
{
    static Shared s;
    return s;
}

double const kMass[4] = {0.5109989461, 0.5109989461, 105.6583745, 105.6583745};
int const kCharge[4] = {-1, +1, -1, +1};
char const* const kPName[4] = {"e-", "e+", "mu-", "mu+"};

//---------------------------------------------------------------------------//
// Small vector helpers (long double)
//---------------------------------------------------------------------------//
V3 cross(V3 const& a, V3 const& b)
{
    return {{a[1] * b[2] - a[2] * b[1],
             a[2] * b[0] - a[0] * b[2],
             a[0] * b[1] - a[1] * b[0]}};
}
V3 scaled(V3 const& a, LD s)
{
    return {{a[0] * s, a[1] * s, a[2] * s}};
}
V3 add(V3 const& a, V3 const& b)
{
    return {{a[0] + b[0], a[1] + b[1], a[2] + b[2]}};
}
V3 sub(V3 const& a, V3 const& b)
{
    return {{a[0] - b[0], a[1] - b[1], a[2] - b[2]}};
}
bool normalize(V3& a)
{
    LD n = geo::norm(a);
    if (!(n > 0) || !std::isfinite((double)n))
        return false;
    a = scaled(a, 1 / n);
    return true;
}
Real3 r3(V3 const& v)
{
    return Real3{double(v[0]), double(v[1]), double(v[2])};
}
V3 v3(Real3 const& v)
{
    return {{v[0], v[1], v[2]}};
}
V3 any_perp(V3 const& n)
{
    int k = 0;
    for (int i = 1; i < 3; ++i)
        if (fabsl(n[i]) < fabsl(n[k]))
            k = i;
    V3 e = {{0, 0, 0}};
    e[k] = 1;
    V3 t = cross(n, e);
    normalize(t);
    return t;
}

//---------------------------------------------------------------------------//
// Analytic helix in a uniform field
//   du/ds = omega (u x b),  omega = q k |B| / p
//---------------------------------------------------------------------------//
struct Helix
{
    V3 x0, u0, b;
    LD omega = 0;
    LD upar = 0;
    V3 uperp, w;  // w = uperp x b

    void init(V3 const& x, V3 const& u, V3 const& bdir, LD om)
    {
        x0 = x;
        u0 = u;
        b = bdir;
        omega = om;
        upar = geo::dot(u, b);
        uperp = sub(u, scaled(b, upar));
        w = cross(uperp, b);
    }
    LD sin_perp() const { return geo::norm(uperp); }
    // radius of the projected circle
    LD r_perp() const { return omega != 0 ? sin_perp() / fabsl(omega) : INFINITY; }
    // radius of curvature of the path
    LD r_curv() const
    {
        LD k = fabsl(omega) * sin_perp();
        return k > 0 ? 1 / k : INFINITY;
    }
    V3 pos(LD s) const
    {
        LD a = omega * s;
        LD A, B;  // sin(a)/omega, (1-cos a)/omega
        if (fabsl(a) < 1e-6L)
        {
            A = s * (1 - a * a / 6);
            B = s * a / 2 * (1 - a * a / 12);
        }
        else
        {
            A = sinl(a) / omega;
            LD h = sinl(a / 2);
            B = 2 * h * h / omega;
        }
        V3 r = x0;
        for (int i = 0; i < 3; ++i)
            r[i] += upar * b[i] * s + A * uperp[i] + B * w[i];
        return r;
    }
    V3 dir(LD s) const
    {
        LD a = omega * s;
        LD ca = cosl(a), sa = sinl(a);
        V3 r;
        for (int i = 0; i < 3; ++i)
            r[i] = upar * b[i] + ca * uperp[i] + sa * w[i];
        return r;
    }
};

//---------------------------------------------------------------------------//
// Independent evaluation of the RZ map (definition of RZMapField: B_z is
// interpolated in z at the lower r node, B_r in r at the lower z node) and a
// long-double RK4 reference trajectory
//---------------------------------------------------------------------------//
struct RzOracle
{
    RZMapFieldInput const* in = nullptr;
    V3 operator()(V3 const& x) const
    {
        V3 v = {{0, 0, 0}};
        LD r = sqrtl(x[0] * x[0] + x[1] * x[1]);
        LD z = x[2];
        if (!(z >= in->min_z && z <= in->max_z && r >= in->min_r
              && r <= in->max_r))
            return v;
        auto bin = [](LD q, LD lo, LD hi, unsigned n, LD& frac) {
            LD dl = (hi - lo) / (n - 1);
            long i = long(floorl((q - lo) / dl));
            if (i < 0)
                i = 0;
            if (i > long(n) - 2)
                i = long(n) - 2;
            frac = (q - (lo + dl * i)) / dl;
            return size_t(i);
        };
        LD fr, fz;
        size_t ir = bin(r, in->min_r, in->max_r, in->num_grid_r, fr);
        size_t iz = bin(z, in->min_z, in->max_z, in->num_grid_z, fz);
        size_t nr = in->num_grid_r;
        LD lo = in->field_z[iz * nr + ir], hi = in->field_z[(iz + 1) * nr + ir];
        v[2] = lo + (hi - lo) * fz;
        lo = in->field_r[iz * nr + ir];
        hi = in->field_r[iz * nr + ir + 1];
        LD t = (r != 0) ? (lo + (hi - lo) * fr) / r : lo;
        v[0] = t * x[0];
        v[1] = t * x[1];
        return v;
    }
};

struct RefState
{
    V3 x, u;
};

template<class F>
RefState ref_rhs(F const& field, RefState const& y, LD qk_over_p)
{
    RefState d;
    d.x = y.u;
    V3 B = field(y.x);
    d.u = scaled(cross(y.u, B), qk_over_p);
    return d;
}

template<class F>
RefState ref_rk4(F const& field, RefState y, LD h, LD c)
{
    auto ax = [](RefState const& a, RefState const& k, LD s) {
        RefState r;
        r.x = add(a.x, scaled(k.x, s));
        r.u = add(a.u, scaled(k.u, s));
        return r;
    };
    RefState k1 = ref_rhs(field, y, c);
    RefState k2 = ref_rhs(field, ax(y, k1, h / 2), c);
    RefState k3 = ref_rhs(field, ax(y, k2, h / 2), c);
    RefState k4 = ref_rhs(field, ax(y, k3, h), c);
    RefState r = y;
    for (int i = 0; i < 3; ++i)
    {
        r.x[i] += h / 6 * (k1.x[i] + 2 * k2.x[i] + 2 * k3.x[i] + k4.x[i]);
        r.u[i] += h / 6 * (k1.u[i] + 2 * k2.u[i] + 2 * k3.u[i] + k4.u[i]);
    }
    normalize(r.u);
    return r;
}

//---------------------------------------------------------------------------//
// Counting wrapper around a stepper (re-implementation of the few lines of
// the unit tests' DiagnosticStepper)
//---------------------------------------------------------------------------//
inline bool trace_enabled()
{
    static bool const on = std::getenv("VERIF_C08_TRACE") != nullptr;
    return on;
}

struct StepStats
{
    long calls = 0;
    long chain = 0;  // number of distinct start states: upper bound on the
                     // number of integration steps in the accepted trajectory
    bool has = false;
    Real3 last_beg{0, 0, 0};
    std::vector<Real3> starts;  // distinct start positions (capped)
    // F15 matcher (uniform fields): a trial step whose three-point sagitta
    // passes the driver's test although the true sagitta of an arc of that
    // length exceeds twice the tolerance
    double kappa = 0;  // path curvature |omega| sin(theta); 0 = unknown
    double chord_tol = 0;  // delta_chord + dchord_tol
    bool bad_chord = false;
};

template<class StepperT>
struct CountingStepper
{
    using result_type = FieldStepperResult;
    StepperT step_;
    StepStats* st_;
    result_type operator()(real_type step, OdeState const& s) const
    {
        ++st_->calls;
        if (!st_->has || s.pos != st_->last_beg)
        {
            ++st_->chain;
            st_->has = true;
            st_->last_beg = s.pos;
            if (st_->starts.size() < 256)
                st_->starts.push_back(s.pos);
        }
        result_type r = step_(step, s);
        if (st_->kappa > 0)
        {
            Real3 bm, be;
            for (int i = 0; i < 3; ++i)
            {
                bm[i] = r.mid_state.pos[i] - s.pos[i];
                be[i] = r.end_state.pos[i] - s.pos[i];
            }
            Real3 cr = cross_product(be, bm);
            double dch = std::sqrt(dot_product(cr, cr) / dot_product(be, be));
            double a = step * st_->kappa;  // turning angle of the arc
            double true_sag = a < 2 * M_PI ? (1 - std::cos(a / 2)) / st_->kappa
                                           : 2 / st_->kappa;
            if (dch <= st_->chord_tol && true_sag > 2 * st_->chord_tol)
                st_->bad_chord = true;
        }
        if (trace_enabled())
        {
            std::fprintf(stderr,
                         "  stepper h=%.9g pos=(%.12g,%.12g,%.12g) dir=(%.6g,"
                         "%.6g,%.6g) -> end=(%.12g,%.12g,%.12g) |p|end/|p|=%."
                         "12g errpos/h=%.3g errmom/p=%.3g\n",
                         step,
                         s.pos[0],
                         s.pos[1],
                         s.pos[2],
                         s.mom[0] / norm(s.mom),
                         s.mom[1] / norm(s.mom),
                         s.mom[2] / norm(s.mom),
                         r.end_state.pos[0],
                         r.end_state.pos[1],
                         r.end_state.pos[2],
                         norm(r.end_state.mom) / norm(s.mom),
                         norm(r.err_state.pos) / step,
                         norm(r.err_state.mom) / norm(s.mom));
        }
        return r;
    }
};

template<template<class> class StepperT, class FieldT>
Propagation run_propagator(FieldT&& field,
                           FieldDriverOptions const& opts,
                           ParticleTrackView const& particle,
                           OrangeTrackView& tv,
                           real_type step,
                           StepStats* count)
{
    auto stepper = make_mag_field_stepper<StepperT>(
        std::forward<FieldT>(field), particle.charge());
    using S = decltype(stepper);
    auto propagate = make_field_propagator(
        CountingStepper<S>{std::move(stepper), count}, opts, particle, tv);
    return propagate(step);
}

//---------------------------------------------------------------------------//
// Nearest surface (by first-order distance) to the point described by a
// located path: distance and unit normal in the global frame.  Aiming aid
// only — never used for judging.
//---------------------------------------------------------------------------//
struct NearSurf
{
    LD dist = INFINITY;
    V3 n = {{0, 0, 1}};
    bool ok = false;
};

NearSurf nearest_surface(geo::Model const& m, geo::Path const& path)
{
    NearSurf best;
    LD G[3][3] = {{1, 0, 0}, {0, 1, 0}, {0, 0, 1}};  // global <- local
    for (size_t i = 0; i < path.lv.size(); ++i)
    {
        auto const& l = path.lv[i];
        if (l.universe < 0 || l.universe >= int(m.univ.size()))
            return best;
        if (i > 0)
        {
            auto const& pl = path.lv[i - 1];
            geo::Universe const& P = m.univ[pl.universe];
            geo::Xform const* xf = nullptr;
            if (!P.is_array)
            {
                auto it = P.unit.daughters.find(pl.volume);
                if (it == P.unit.daughters.end())
                    return best;
                xf = &it->second.xf;
            }
            else
            {
                if (pl.volume < 0
                    || pl.volume >= int(P.array.daughters.size()))
                    return best;
                xf = &P.array.daughters[pl.volume].xf;
            }
            if (!xf->identity)
            {
                LD N[3][3];
                for (int a = 0; a < 3; ++a)
                    for (int c = 0; c < 3; ++c)
                    {
                        N[a][c] = 0;
                        for (int k = 0; k < 3; ++k)
                            N[a][c] += G[a][k] * xf->R[k][c];
                    }
                for (int a = 0; a < 3; ++a)
                    for (int c = 0; c < 3; ++c)
                        G[a][c] = N[a][c];
            }
        }
        auto consider = [&](LD d, V3 g) {
            if (!(d < best.dist) || !normalize(g))
                return;
            best.dist = d;
            for (int a = 0; a < 3; ++a)
                best.n[a] = G[a][0] * g[0] + G[a][1] * g[1] + G[a][2] * g[2];
            best.ok = true;
        };
        geo::Universe const& U = m.univ[l.universe];
        if (!U.is_array)
        {
            for (size_t s = 0; s < U.unit.surfs.size(); ++s)
            {
                if (U.unit.unsupported[s])
                    continue;
                consider(U.unit.surfs[s].approx_dist(l.pos),
                         U.unit.surfs[s].grad(l.pos));
            }
        }
        else
        {
            for (int ax = 0; ax < 3; ++ax)
                for (double gp : U.array.grid[ax])
                {
                    V3 e = {{0, 0, 0}};
                    e[ax] = 1;
                    consider(fabsl(l.pos[ax] - gp), e);
                }
        }
    }
    return best;
}

bool usable(geo::Path const& p)
{
    return !p.ambiguous && !p.overlap && !p.nowhere && !p.bad_logic
           && !p.outside() && !p.lv.empty();
}

//---------------------------------------------------------------------------//
// The decoded case
//---------------------------------------------------------------------------//
enum FieldKind
{
    f_uniform,
    f_uniform_z,
    f_rzmap
};
enum StepperKind
{
    s_dp,
    s_rk4,
    s_zhelix
};

struct Case
{
    GeoFixture* fix = nullptr;
    int particle = 0;
    LD mass = 0;
    int q = -1;
    double energy = 0;  // kinetic [MeV]
    LD mom = 0;  // from the energy actually set (long double)
    FieldKind fkind = f_uniform;
    StepperKind skind = s_dp;
    V3 bvec = {{0, 0, 0}};  // gauss (uniform kinds)
    RZMapFieldInput const* rz_in = nullptr;
    RZMapFieldParams const* rz_params = nullptr;
    std::shared_ptr<RZMapFieldParams> rz_owned;
    RZMapFieldInput rz_gen;
    FieldDriverOptions opts;
    bool starved = false;

    // start
    V3 p0, d0;  // interior initialisation point / linear direction
    bool on_boundary = false;
    bool redirect = false;  // set_dir(u_start) after reaching the start
    V3 u_start;
    geo::Path start_path;
    V3 x_start;  // position the propagation starts from

    double step = 0;
    double kappa = 0;  // analytic path curvature (uniform fields)
    bool have_aim = false;
    V3 aim = {{0, 0, 0}};  // predicted lowest point of a grazing orbit
};

// Bring the geometry track state to the start of the case.  Returns false if
// the start is not usable (outside after crossing, navigation failure).
bool make_start(Case& cs, OrangeTrackView& tv, std::string* why)
{
    GeoFixture& f = *cs.fix;
    tv = GeoTrackInitializer{r3(cs.p0), r3(cs.d0)};
    if (tv.failed() || tv.is_outside())
    {
        *why = "init";
        return false;
    }
    if (cs.on_boundary)
    {
        Propagation pr = tv.find_next_step();
        if (!pr.boundary || !(pr.distance > 0))
        {
            *why = "no-boundary";
            return false;
        }
        tv.move_to_boundary();
        tv.cross_boundary();
        if (tv.failed() || tv.is_outside())
        {
            *why = "crossed-outside";
            return false;
        }
    }
    if (cs.redirect)
        tv.set_dir(r3(cs.u_start));
    (void)f;
    return true;
}

struct Run
{
    Propagation p;
    StepStats st;
    long nstep = 0;  // stepper calls
    long nchain = 0;  // accepted integration steps (upper bound)
    V3 pos, dir;
    bool geo_on_boundary = false;
};

Run do_propagate(Case& cs, OrangeTrackView& tv, double step)
{
    auto& sh = shared();
    ParticleTrackView particle(
        sh.particles->host_ref(), sh.pstate->ref(), TrackSlotId{0});
    Run r;
    r.st.kappa = cs.kappa;
    r.st.chord_tol = cs.opts.delta_chord + cs.opts.dchord_tol;
    switch (cs.fkind)
    {
        case f_uniform: {
            Real3 b = r3(cs.bvec);
            if (cs.skind == s_dp)
                r.p = run_propagator<DormandPrinceStepper>(
                    UniformField{b}, cs.opts, particle, tv, step, &r.st);
            else
                r.p = run_propagator<RungeKuttaStepper>(
                    UniformField{b}, cs.opts, particle, tv, step, &r.st);
            break;
        }
        case f_uniform_z: {
            double bz = double(cs.bvec[2]);
            if (cs.skind == s_dp)
                r.p = run_propagator<DormandPrinceStepper>(
                    UniformZField{bz}, cs.opts, particle, tv, step, &r.st);
            else if (cs.skind == s_rk4)
                r.p = run_propagator<RungeKuttaStepper>(
                    UniformZField{bz}, cs.opts, particle, tv, step, &r.st);
            else
                r.p = run_propagator<ZHelixStepper>(
                    UniformZField{bz}, cs.opts, particle, tv, step, &r.st);
            break;
        }
        case f_rzmap: {
            if (cs.skind == s_dp)
                r.p = run_propagator<DormandPrinceStepper>(
                    RZMapField{cs.rz_params->host_ref()},
                    cs.opts,
                    particle,
                    tv,
                    step,
                    &r.st);
            else
                r.p = run_propagator<RungeKuttaStepper>(
                    RZMapField{cs.rz_params->host_ref()},
                    cs.opts,
                    particle,
                    tv,
                    step,
                    &r.st);
            break;
        }
    }
    r.nstep = r.st.calls;
    r.nchain = r.st.chain;
    r.pos = v3(tv.pos());
    r.dir = v3(tv.dir());
    r.geo_on_boundary = tv.is_on_boundary();
    return r;
}

std::string fmt(LD v)
{
    std::ostringstream os;
    os.precision(12);
    os << (double)v;
    return os.str();
}

//---------------------------------------------------------------------------//
// Error model (notes/C08.md): bound on |geo.pos - h(distance)| after a call
// that used `nstep` stepper evaluations and reported `distance`
//---------------------------------------------------------------------------//
struct Tol
{
    LD path = 0;  // position
    LD ang = 0;  // direction (radians)
    bool dir_judged = true;
};

// K: ratio of the true local error to the embedded estimate that the driver
// compares with epsilon_rel_max (measured <= 3 for DP5(4) at h*kappa ~ 1.25,
// grows ~ h*kappa; see notes)
constexpr LD kEstimateFactor = 10;

Tol tolerance(Case const& cs, Helix const& hx, Run const& r, LD scale)
{
    auto const& o = cs.opts;
    Tol t;
    LD n = LD(r.nchain) + 1;
    LD dist = r.p.distance;
    LD eps = kEstimateFactor * o.epsilon_rel_max;
    // (a) truncation error accepted by the driver per integration step:
    //     position <= eps*h, direction and |p| <= eps (relative)
    LD e_dir = n * eps;
    // (b) the ODE state's |p| is not renormalised between integration steps:
    //     a relative drift of up to n*eps changes the rotation rate, i.e. the
    //     phase error is at most drift * total phase angle
    LD phase_angle = fabsl(hx.omega) * dist;
    LD dphi = n * eps * phase_angle;
    LD rp = hx.r_perp();
    LD sp = hx.sin_perp();
    LD e_phase_pos = std::isfinite((double)rp) ? std::min<LD>(dphi, 2) * rp : 0;
    LD e_phase_dir = std::min<LD>(dphi, 2) * sp;
    LD e_int = e_dir * dist + e_phase_pos;
    // (c) boundary acceptance: |lin - chord| <= delta_intersection, or
    //     update_length <= minimum_step; full step declared when the rest is
    //     <= minimum_step
    LD phase = 2 * o.delta_intersection + 2 * o.minimum_step;
    LD tight = 0;
    bool is_tight = 2 * rp <= 4 * (o.delta_chord + o.dchord_tol);
    if (is_tight)
        tight = 4 * rp;  // substeps may span many turns: phase is free
    t.path = e_int + phase + o.delta_intersection + tight
             + 1e-10L * (scale + geo::norm(r.pos));
    LD kappa = std::isfinite((double)hx.r_curv()) ? 1 / hx.r_curv() : 0;
    t.ang = e_dir + e_phase_dir + phase * 1.25L * kappa + 1e-11L;
    t.dir_judged = !(is_tight && r.p.boundary);
    return t;
}

//---------------------------------------------------------------------------//
Verdict judge(Case& cs, Choices& c, CaseLog& log)
{
    GeoFixture& f = *cs.fix;
    auto& sh = shared();
    auto tv = f.track();
    std::string why;

    // -- start ------------------------------------------------------------
    if (!make_start(cs, tv, &why))
    {
        log.label("start-unusable");
        return Verdict::trivial;
    }
    cs.start_path = f.nav_path();
    cs.x_start = v3(tv.pos());
    V3 u_start = v3(tv.dir());
    if (!cs.on_boundary)
    {
        geo::Path op = geo::locate(
            f.model, cs.x_start, geo::delta_at(f.model, cs.x_start) * 4);
        if (!usable(op) || !op.same_as(cs.start_path))
        {
            // C03's business (navigation vs. point location)
            log.label("start-geo-disagree");
            return Verdict::trivial;
        }
    }

    ParticleTrackView particle(
        sh.particles->host_ref(), sh.pstate->ref(), TrackSlotId{0});
    particle = ParticleTrackView::Initializer_t{ParticleId(cs.particle),
                                                units::MevEnergy{cs.energy}};
    double const e_before = particle.energy().value();
    double const p_before = particle.momentum().value();

    // -- helix / reference ----------------------------------------------------
    bool uniform = cs.fkind != f_rzmap;
    Helix hx;
    LD bmag = geo::norm(cs.bvec);
    if (uniform)
    {
        V3 b = cs.bvec;
        normalize(b);
        hx.init(cs.x_start, u_start, b, cs.q * kLorentz * bmag / cs.mom);
        LD rc = hx.r_curv();
        cs.kappa = std::isfinite((double)rc) ? double(1 / rc) : 0;
    }

    // ZHelixStepper is exact only for an orbit centred on the z axis with
    // q*Bz < 0 (see notes: F11/F12); other inputs are the listed findings
    bool zh_known = false;
    std::string zh_key;
    if (cs.skind == s_zhelix)
    {
        bool par = (u_start[0] == 0 && u_start[1] == 0);
        LD cx = cs.x_start[0] + hx.w[0] / hx.omega;
        LD cy = cs.x_start[1] + hx.w[1] / hx.omega;
        LD off = sqrtl(cx * cx + cy * cy);
        bool centred = off <= 1e-9L * (hx.r_perp() + f.scale);
        bool pos_hel = cs.q * cs.bvec[2] < 0;
        if (!pos_hel || u_start[1] == 0 || par)
            zh_key = "F36-zhelix-helicity";
        else if (!centred)
            zh_key = "F35-zhelix-orbit-not-centred-on-z-axis";
        zh_known = !zh_key.empty();
        log.label(centred ? "zhelix-centred" : "zhelix-offaxis");
        if (par)
        {
            // direction parallel to the field: the stepper divides 0/0
            auto st = make_mag_field_stepper<ZHelixStepper>(
                UniformZField{double(cs.bvec[2])},
                units::ElementaryCharge{double(cs.q)});
            OdeState y;
            y.pos = r3(cs.x_start);
            y.mom = r3(scaled(u_start, cs.mom));
            auto res = st(cs.step, y);
            if (std::isnan(res.end_state.pos[0]))
                return log.fail("ZHelixStepper returns NaN for a direction "
                                "parallel to the field",
                                zh_key);
        }
    }

    // -- single call -----------------------------------------------------------
    if (cs.on_boundary && !tv.is_on_boundary())
        return log.fail("harness: start not on a boundary after crossing");
    if (trace_enabled())
        std::fprintf(stderr, "start on_boundary=%d\n", int(tv.is_on_boundary()));
    Run r = do_propagate(cs, tv, cs.step);
    log.count("stepper_calls", r.nstep);

    auto describe = [&]() {
        std::ostringstream os;
        os.precision(17);
        os << " [distance=" << r.p.distance << " step=" << cs.step
           << " boundary=" << r.p.boundary << " looping=" << r.p.looping
           << " nstep=" << r.nstep << " pos=(" << (double)r.pos[0] << ","
           << (double)r.pos[1] << "," << (double)r.pos[2] << ")]";
        return os.str();
    };

    // (1) particle untouched, direction unit
    if (particle.energy().value() != e_before
        || particle.momentum().value() != p_before)
        return log.fail("particle energy/momentum changed by propagation");
    for (int k = 0; k < 3; ++k)
        if (std::isnan((double)r.pos[k]) || std::isnan((double)r.dir[k]))
            return log.fail("NaN in geometry position/direction after "
                            "propagation"
                            + describe());
    if (!(fabsl(geo::norm(r.dir) - 1) <= 1e-12L))
        return log.fail("geo.dir() is not a unit vector after propagation"
                        + describe());

    // (2) distance
    if (std::isnan(r.p.distance) || !(r.p.distance > 0)
        || !(r.p.distance <= cs.step * (1 + 1e-9)))
        return log.fail("distance outside (0, step(1+1e-9)]" + describe());
    if (r.p.distance > cs.step)
        log.label("distance-above-step");

    // (3) trichotomy
    if (r.p.boundary != r.geo_on_boundary)
        return log.fail("returned boundary flag != geo.is_on_boundary()"
                        + describe());
    bool bumped = false;
    if (r.p.looping)
    {
        log.label("out-looping");
        if (r.p.boundary)
            return log.fail("looping and boundary both set" + describe());
        if (!(r.p.distance < cs.step))
            return log.fail("looping but distance >= step" + describe());
        if (r.nstep < cs.opts.max_substeps)
            return log.fail("looping after fewer stepper calls than "
                            "max_substeps"
                            + describe());
    }
    else if (r.p.boundary)
    {
        log.label("out-boundary");
    }
    else
    {
        double bump = std::fmin(0.1 * cs.opts.delta_intersection, cs.step);
        if (std::fabs(r.p.distance - cs.step) <= 1e-9 * cs.step)
            log.label("out-full");
        else if (r.p.distance == bump && cs.on_boundary)
        {
            // documented: stuck on a boundary -> bumped by bump_distance
            bumped = true;
            log.label("out-bumped");
        }
        else
            return log.fail("no boundary, not looping, but distance != step"
                            + describe());
    }
    // Regimes in which the location of the track relative to boundaries is
    // not decidable within the configured tolerances (counted, not judged):
    //  * tight: the orbit diameter is below ~4 delta_chord, so the sagitta
    //    test never limits a substep, substeps span whole turns, their chords
    //    can be shorter than minimum_step (boundary test along a stale
    //    direction) and a boundary within one orbit diameter may be missed;
    //    once missed, the volume assignment stays wrong for the rest of the
    //    step
    //  * grazing start: starting on a boundary, the helix leaves the start
    //    volume again before it is ever farther than the geometry tolerance
    //    from the start surface
    bool tight = false;
    {
        LD rp = INFINITY;
        if (uniform)
            rp = hx.r_perp();
        else
        {
            RzOracle fo{cs.rz_in};
            V3 B = fo(cs.x_start);
            LD bm = geo::norm(B);
            if (bm > 0)
            {
                V3 bb = scaled(B, 1 / bm);
                LD sp = geo::norm(
                    sub(u_start, scaled(bb, geo::dot(u_start, bb))));
                rp = sp * cs.mom / (kLorentz * bm);
            }
        }
        tight = 2 * rp <= 4 * (cs.opts.delta_chord + cs.opts.dchord_tol)
                || 2 * rp <= 4 * cs.opts.minimum_step;
    }
    bool grazing = false;
    if (uniform && cs.on_boundary && !tight)
    {
        for (LD sx = cs.opts.minimum_step / 4; sx < r.p.distance; sx *= 2)
        {
            V3 x = hx.pos(sx);
            geo::Path op = geo::locate(
                f.model, x, geo::delta_at(f.model, x) * 4);
            if (op.ambiguous)
                continue;
            grazing = !op.same_as(cs.start_path);
            break;
        }
    }
    if (tight)
        log.label("regime-tight");
    if (grazing)
        log.label("start-grazing-fuzzy");
    bool judge_loc = !tight && !grazing;

    // F14 matcher: an intermediate position of the track (start of an
    // integration step) lies exactly on a surface of a universe on its path
    auto on_surface_exactly = [&](Run const& rr) {
        for (auto const& sp : rr.st.starts)
        {
            V3 x = v3(sp);
            if (geo::norm(sub(x, cs.x_start)) == 0)
                continue;
            geo::Path op = geo::locate(
                f.model, x, 1e-14L * (f.scale + geo::norm(x)));
            if (op.ambiguous)
                return true;
        }
        return false;
    };
    char const* const kF15
        = "F39-chord-finder-accepts-substep-with-unconverged-sagitta";
    char const* const kF14
        = "F38-orange-no-intersection-from-point-exactly-on-internal-surface";

    // (a stepper outside its valid domain -- listed findings F11/F12 -- moves
    // the track along a path unrelated to its direction: only oracles 1, 2,
    // the flag and the helix comparison are applied then)
    if (!r.p.boundary && !bumped && !zh_known && judge_loc)
    {
        // every chord was checked by the navigator: the end point lies in the
        // start volume up to the geometry tolerance -- except that substeps
        // with a chord shorter than minimum_step are checked along a stale
        // direction (documented in the propagation loop), so each accepted
        // substep may add up to minimum_step of unverified displacement
        LD unverified = cs.opts.minimum_step
                        * std::min<LD>(cs.opts.max_substeps, r.nchain);
        geo::Path op = geo::locate(
            f.model, r.pos, geo::delta_at(f.model, r.pos) * 4 + unverified);
        if (op.overlap || op.bad_logic)
        {
            log.label("oracle-overlap");
            return Verdict::trivial;
        }
        if (!op.ambiguous && !op.same_as(cs.start_path) && trace_enabled())
        {
            // debug aid: linear navigation from the start to the end point
            std::string w2;
            make_start(cs, tv, &w2);
            V3 ch = sub(r.pos, cs.x_start);
            LD len = geo::norm(ch);
            normalize(ch);
            std::fprintf(stderr,
                         "debug: start=(%.12Lg,%.12Lg,%.12Lg) chord=(%.6Lg,%.6Lg,%.6Lg) len=%.6Lg "
                         "on_boundary=%d\n",
                         cs.x_start[0], cs.x_start[1], cs.x_start[2],
                         ch[0], ch[1], ch[2], len, int(tv.is_on_boundary()));
            tv.set_dir(r3(ch));
            auto pr = tv.find_next_step(double(len));
            std::fprintf(stderr,
                         "debug: find_next_step(len) -> boundary=%d dist=%.9g\n",
                         int(pr.boundary), pr.distance);
            bool trunc = false;
            V3 x1 = geo::along(cs.x_start, ch, 1e-6L);
            auto segs = geo::trace(f.model, x1, ch, 6, &trunc);
            for (auto const& sg : segs)
                std::fprintf(stderr, "debug: oracle seg [%.9Lg, %.9Lg) %s\n", sg.t0, sg.t1, sg.path.str().c_str());
        }
        if (!op.ambiguous && !op.same_as(cs.start_path))
        {
            std::string m = "end point without boundary flag is located in "
                            + op.str() + " but the track is in "
                            + cs.start_path.str() + describe();
            if (on_surface_exactly(r))
                return log.fail(m, kF14);
            if (r.st.bad_chord)
                return log.fail(m, kF15);
            return log.fail(m);
        }
    }
    if (r.p.boundary && !zh_known)
    {
        // the end point lies on a surface
        geo::Path op = geo::locate(
            f.model, r.pos, geo::delta_at(f.model, r.pos) * 4);
        if (op.overlap || op.bad_logic)
        {
            log.label("oracle-overlap");
            return Verdict::trivial;
        }
        if (!op.ambiguous)
            return log.fail("boundary flagged but the end point is not within "
                            "the geometry tolerance of any surface"
                            + describe());
    }

    // (4) helix
    Tol tol;
    bool judge_helix = uniform && !cs.starved && !bumped;
    LD err_pos = 0, err_ang = 0;
    if (judge_helix)
    {
        tol = tolerance(cs, hx, r, f.scale);
        V3 hp = hx.pos(r.p.distance);
        V3 hd = hx.dir(r.p.distance);
        err_pos = geo::norm(sub(r.pos, hp));
        err_ang = geo::norm(sub(r.dir, hd));
        // calibration evidence: error relative to the tolerance, by decade
        LD ratio = err_pos / tol.path;
        log.label(ratio < 1e-4   ? "helix-err<1e-4tol"
                  : ratio < 1e-2 ? "helix-err<1e-2tol"
                  : ratio < 1e-1 ? "helix-err<1e-1tol"
                  : ratio < 1    ? "helix-err<tol"
                                 : "helix-err>tol");
        if (tol.dir_judged)
        {
            LD ra = err_ang / tol.ang;
            log.label(ra < 1e-4   ? "helix-dir<1e-4tol"
                      : ra < 1e-2 ? "helix-dir<1e-2tol"
                      : ra < 1e-1 ? "helix-dir<1e-1tol"
                      : ra < 1    ? "helix-dir<tol"
                                  : "helix-dir>tol");
        }
        if (!(err_pos <= tol.path))
        {
            std::string m = "end point is " + fmt(err_pos)
                            + " away from the analytic helix at the returned "
                              "distance (tolerance "
                            + fmt(tol.path) + ")" + describe();
            if (zh_known)
                return log.fail(m, zh_key);
            return log.fail(m);
        }
        if (tol.dir_judged && !(err_ang <= tol.ang))
        {
            std::string m = "final direction differs from the helix tangent "
                            "by "
                            + fmt(err_ang) + " (tolerance " + fmt(tol.ang)
                            + ")" + describe();
            if (zh_known)
                return log.fail(m, zh_key);
            // F13: a boundary found within minimum_step of the start of a
            // substep commits the momentum of the *end* of that (possibly
            // long) substep: the direction is the helix tangent at a later
            // arc length s' in (distance, distance + one substep]
            if (r.p.boundary && hx.sin_perp() > 0)
            {
                LD up2 = geo::dot(hx.uperp, hx.uperp);
                LD cc = geo::dot(r.dir, hx.uperp) / up2;
                LD ss = geo::dot(r.dir, hx.w) / up2;
                LD a = atan2l(ss, cc);  // omega * s' (mod 2 pi)
                LD T = 2 * M_PI / fabsl(hx.omega);
                LD s1 = a / hx.omega;
                s1 += ceill((r.p.distance - s1) / T) * T;  // first >= distance
                LD rc = hx.r_curv();
                LD smax = std::min<LD>(
                    cs.step - r.p.distance,
                    1.5L * sqrtl(8 * rc * (cs.opts.delta_chord + cs.opts.dchord_tol))
                        + cs.opts.minimum_step);
                LD e2 = geo::norm(sub(r.dir, hx.dir(s1)));
                if (s1 - r.p.distance <= smax + tol.ang * rc + cs.opts.minimum_step
                    && e2 <= tol.ang)
                    return log.fail(
                        m + " -- the direction is the helix tangent at s'="
                            + fmt(s1),
                        "F37-boundary-near-substep-start-commits-end-momentum");
                m += " {s'=" + fmt(s1) + " smax=" + fmt(smax) + " e2=" + fmt(e2)
                     + "}";
            }
            return log.fail(m);
        }
    }

    // (5) no boundary deeper than the tolerance jumped (uniform fields)
    long n_samples = 0, n_unamb = 0;
    if (judge_helix && !zh_known && judge_loc)
    {
        LD D = r.p.distance;
        LD rc = hx.r_curv();
        LD spacing = D / 8;
        if (std::isfinite((double)rc))
        {
            spacing = std::min(spacing, rc / 50);
            spacing = std::min(
                spacing, sqrtl(8 * rc * cs.opts.delta_chord) / 4);
        }
        long n = long(std::min<LD>(96, ceill(D / spacing)));
        n = std::max<long>(n, 8);
        // deviation of the numerical path from the helix: the a-priori bound
        // tol.path, or -- while the total phase angle is below one radian, where
        // the deviation grows monotonically along the path (no cancellation
        // over a turn) -- four times the deviation observed at the end point
        LD dev = tol.path;
        if (fabsl(hx.omega) * D <= 1)
        {
            LD obs = 4 * err_pos + 3 * cs.opts.delta_intersection
                     + 2 * cs.opts.minimum_step
                     + 1e-10L * (f.scale + geo::norm(r.pos));
            if (obs < dev)
            {
                dev = obs;
                log.label("samples-tight-depth");
            }
        }
        LD depth = cs.opts.delta_chord + cs.opts.dchord_tol + dev
                   + cs.opts.delta_intersection
                   + cs.opts.minimum_step
                         * std::min<LD>(cs.opts.max_substeps, r.nchain);
        // sample positions: uniform grid, plus (aimed cases) the closest
        // approach of the helix to the aimed boundary point and its
        // neighbourhood
        std::vector<LD> ss;
        for (long i = 0; i < n; ++i)
            ss.push_back(D * (LD(i) + 0.5L) / n);
        if (cs.have_aim)
        {
            long best = 0;
            LD bd = INFINITY;
            for (long i = 0; i < n; ++i)
            {
                LD dd = geo::norm(sub(hx.pos(ss[i]), cs.aim));
                if (dd < bd)
                {
                    bd = dd;
                    best = i;
                }
            }
            LD lo = std::max<LD>(0, ss[best] - D / n);
            LD hi = std::min<LD>(D, ss[best] + D / n);
            for (int it = 0; it < 40; ++it)
            {
                LD m1 = lo + (hi - lo) / 3, m2 = hi - (hi - lo) / 3;
                if (geo::norm(sub(hx.pos(m1), cs.aim))
                    < geo::norm(sub(hx.pos(m2), cs.aim)))
                    hi = m2;
                else
                    lo = m1;
            }
            LD sc = (lo + hi) / 2;
            LD w = D / n;
            for (int k = -4; k <= 4; ++k)
            {
                LD sx = sc + w * k / 4;
                if (sx > 0 && sx < D)
                    ss.push_back(sx);
            }
        }
        for (LD s : ss)
        {
            V3 x = hx.pos(s);
            LD dl = depth + geo::delta_at(f.model, x);
            geo::Path op = geo::locate(f.model, x, dl);
            ++n_samples;
            if (op.overlap || op.bad_logic)
            {
                log.label("oracle-overlap");
                return Verdict::trivial;
            }
            if (op.ambiguous)
                continue;
            ++n_unamb;
            if (!op.same_as(cs.start_path))
            { std::string m_ = (
                    "the helix at s=" + fmt(s) + " lies in " + op.str()
                    + ", more than " + fmt(dl)
                    + " from every surface, but the propagator reported no "
                      "boundary before distance "
                    + fmt(D) + " (start volume " + cs.start_path.str() + ")"
                    + describe());
                if (on_surface_exactly(r))
                    return log.fail(m_, kF14);
                if (r.st.bad_chord)
                    return log.fail(m_, kF15);
                return log.fail(m_); }
        }
        log.count("helix_samples", n_samples);
        log.count("helix_samples_unambiguous", n_unamb);
    }

    // crossing consistency after a boundary hit
    if (r.p.boundary && !zh_known && judge_loc)
    {
        tv.cross_boundary();
        if (tv.failed())
            return log.fail("cross_boundary failed after field propagation "
                            "to a boundary"
                            + describe());
        LD dl = geo::delta_at(f.model, r.pos);
        LD eta = 64 * dl;
        V3 xe = geo::along(r.pos, r.dir, eta);
        geo::Path op = geo::locate(f.model, xe, 8 * dl);
        bool jdg = !op.ambiguous && !op.overlap && !op.nowhere
                   && !op.bad_logic;
        if (jdg)
        {
            bool trunc = false;
            auto segs = geo::trace(f.model, xe, r.dir, 2, &trunc);
            if (std::isfinite((double)segs[0].t1) && segs[0].end_lo < 2 * eta)
                jdg = false;
            // ... and the only crossing between the end point and xe is the
            // boundary the track sits on (no thin sliver in between)
            auto back = geo::trace(
                f.model, xe, scaled(r.dir, -1), 2, &trunc);
            if (!op.outside() && std::isfinite((double)back[0].t1)
                && back[0].end_lo < eta - 4 * dl)
            {
                if (trace_enabled())
                    std::fprintf(stderr,
                                 "back-trace: t1=%.6Lg eta=%.6Lg dl=%.3Lg "
                                 "fuzzy=%d path=%s\n",
                                 back[0].t1,
                                 eta,
                                 dl,
                                 int(back[0].fuzzy_end),
                                 back[0].path.str().c_str());
                jdg = false;
            }
        }
        if (jdg)
        {
            if (tv.is_outside())
            {
                if (!op.outside())
                    return log.fail("outside after crossing but just beyond "
                                    "the boundary lies "
                                    + op.str() + describe());
            }
            else if (!op.same_as(f.nav_path()))
            {
                std::string m = "after crossing the volume is "
                                + f.nav_path().str()
                                + " but just beyond the boundary lies "
                                + op.str() + describe();
                if (on_surface_exactly(r))
                    return log.fail(m, kF14);
                if (r.st.bad_chord)
                    return log.fail(m, kF15);
                return log.fail(m);
            }
            if (op.same_as(cs.start_path))
                log.label("boundary-reentrant");
            else
                log.label("boundary-new-volume");
        }
        else
            log.label("boundary-fuzzy-cross");
    }

    // (6) subdivision
    int ksub = int(c.int_in(0, 4));
    log.mix(ksub);
    log.d("subdivisions", ksub);
    if (ksub >= 2 && !bumped && !zh_known)
    {
        log.label("subdivided");
        double frac[4];
        double tot = 0;
        for (int i = 0; i < ksub; ++i)
        {
            frac[i] = c.real_in(0.05, 1);
            log.mix(frac[i]);
            tot += frac[i];
        }
        if (!make_start(cs, tv, &why))
            return log.fail("start not reproducible");
        LD acc = 0, tol_acc = 0, ang_acc = 0;
        Run rs;
        bool ended = false;
        long calls = 0;
        for (int i = 0; i < ksub && !ended; ++i)
        {
            double sub_step = cs.step * frac[i] / tot;
            if (!(sub_step > 0))
                break;
            rs = do_propagate(cs, tv, sub_step);
            ++calls;
            if (std::isnan(rs.p.distance) || !(rs.p.distance > 0)
                || !(rs.p.distance <= sub_step * (1 + 1e-9)))
                return log.fail("sub-call " + std::to_string(i)
                                + ": distance outside (0, step]");
            if (rs.p.boundary != rs.geo_on_boundary)
                return log.fail("sub-call " + std::to_string(i)
                                + ": boundary flag != geo.is_on_boundary()");
            acc += rs.p.distance;
            if (judge_helix)
            {
                Tol t = tolerance(cs, hx, rs, f.scale);
                tol_acc += t.path;
                ang_acc += t.ang;
                LD e = geo::norm(sub(rs.pos, hx.pos(acc)));
                if (!(e <= tol_acc))
                {
                    std::string m
                        = "after sub-call " + std::to_string(i)
                          + " the position is " + fmt(e)
                          + " away from the helix at the accumulated distance "
                          + fmt(acc) + " (tolerance " + fmt(tol_acc) + ")";
                    if (zh_known)
                        return log.fail(m, zh_key);
                    return log.fail(m);
                }
            }
            bool full = !rs.p.boundary && !rs.p.looping
                        && std::fabs(rs.p.distance - sub_step)
                               <= 1e-9 * sub_step;
            if (!full)
                ended = true;
        }
        if (judge_helix && !zh_known && calls > 0)
        {
            // same outcome as the single call when both travelled the full
            // step inside the volume
            bool single_full = !r.p.boundary && !r.p.looping;
            bool multi_full = !ended;
            if (single_full && multi_full)
            {
                LD e = geo::norm(sub(rs.pos, r.pos));
                if (!(e <= tol.path + tol_acc))
                    return log.fail("subdivided propagation ends " + fmt(e)
                                    + " away from the single call (tolerance "
                                    + fmt(tol.path + tol_acc) + ")");
                log.label("subdiv-both-full");
            }
            else if (single_full != multi_full)
                log.label("subdiv-outcome-differs");
            else
                log.label("subdiv-both-ended");
        }
    }

    // -- non-triviality -----------------------------------------------------
    LD turn = acosl(std::max<LD>(-1, std::min<LD>(1, geo::dot(u_start, r.dir))));
    bool full_turn = uniform && fabsl(hx.omega) * r.p.distance >= 2 * M_PI;
    if (full_turn)
    {
        log.label("full-turn");
        turn = M_PI;
    }
    bool turned = turn > 5 * M_PI / 180;
    if (turned)
        log.label("turn>5deg");
    log.nontrivial = turned
                     && (r.p.boundary || cs.on_boundary || full_turn
                         || r.p.looping);
    return Verdict::pass;
}

//---------------------------------------------------------------------------//
FieldDriverOptions gen_options(Choices& c, CaseLog& log, double scale)
{
    FieldDriverOptions o;
    if (c.boolean(0.3))
    {
        log.label("options-default");
        return o;
    }
    log.label("options-generated");
    o.minimum_step = c.log_uniform(1e-8, 1e-4);
    o.delta_intersection = o.minimum_step * c.log_uniform(1.01, 1e3);
    o.delta_chord = c.log_uniform(1e-5, 1e-1) * std::fmin(scale, 10.0);
    o.epsilon_step = c.log_uniform(1e-7, 1e-2);
    o.epsilon_rel_max = c.log_uniform(1e-6, 1e-2);
    o.errcon = c.log_uniform(1e-6, 1e-2);
    o.pgrow = -c.real_in(0.1, 0.3);
    o.pshrink = -c.real_in(0.15, 0.35);
    o.safety = c.real_in(0.5, 0.95);
    o.max_stepping_increase = c.real_in(1.5, 10);
    o.max_stepping_decrease = c.real_in(0.05, 0.5);
    o.max_nsteps = c.boolean(0.6) ? 100 : short(c.int_in(1, 100));
    o.max_substeps = c.boolean(0.4) ? 10 : short(c.int_in(1, 100));
    for (double v : {o.minimum_step,
                     o.delta_intersection,
                     o.delta_chord,
                     o.epsilon_step,
                     o.epsilon_rel_max,
                     o.pgrow,
                     o.pshrink,
                     o.safety,
                     o.max_stepping_increase,
                     o.max_stepping_decrease})
        log.mix(v);
    log.mix(int(o.max_nsteps));
    log.mix(int(o.max_substeps));
    return o;
}

void gen_rzmap(Case& cs, Choices& c, CaseLog& log, double scale, double bgauss)
{
    RZMapFieldInput& in = cs.rz_gen;
    in.num_grid_z = unsigned(c.int_in(2, 10));
    in.num_grid_r = unsigned(c.int_in(2, 10));
    double ext = scale * c.real_in(0.5, 3);
    in.min_z = -ext;
    in.max_z = ext * c.real_in(0.5, 1);
    in.min_r = 0;
    in.max_r = ext * c.real_in(0.7, 1.5);
    double a = c.real_in(-0.5, 0.5), b = c.real_in(-0.5, 0.5),
           g = c.real_in(-0.3, 0.3);
    for (double v : {ext, in.max_z, in.max_r, a, b, g})
        log.mix(v);
    log.mix(in.num_grid_z);
    log.mix(in.num_grid_r);
    in.field_z.resize(in.num_grid_z * in.num_grid_r);
    in.field_r.resize(in.field_z.size());
    for (unsigned iz = 0; iz < in.num_grid_z; ++iz)
        for (unsigned ir = 0; ir < in.num_grid_r; ++ir)
        {
            double z = in.min_z
                       + (in.max_z - in.min_z) * iz / (in.num_grid_z - 1);
            double rr = in.max_r * ir / (in.num_grid_r - 1);
            double zz = z / ext, rn = rr / ext;
            in.field_z[iz * in.num_grid_r + ir]
                = bgauss * (1 + a * zz + b * rn * rn);
            in.field_r[iz * in.num_grid_r + ir] = bgauss * g * rn * zz;
        }
    in.driver_options = cs.opts;
}

//---------------------------------------------------------------------------//
Verdict decode_and_run(GeoSource& src, Choices& c, CaseLog& log)
{
    GeoFixture& f = *src.fix;
    auto& sh = shared();
    Case cs;
    cs.fix = &f;

    // particle
    cs.particle = int(c.int_in(0, 3));
    cs.mass = kMass[cs.particle];
    cs.q = kCharge[cs.particle];
    log.mix(cs.particle);
    log.ds("particle", kPName[cs.particle]);

    // field kind / integrator
    int fk = int(c.pick({5, 2.5, 2.5}));
    cs.fkind = FieldKind(fk);
    int sk;
    if (cs.fkind == f_uniform_z)
        sk = int(c.pick({4, 3, 3}));
    else
        sk = int(c.pick({6, 4, 0}));
    cs.skind = StepperKind(sk);
    log.mix(fk);
    log.mix(sk);
    static char const* const cls[3][3]
        = {{"dp-uniform", "rk4-uniform", ""},
           {"dp-uniformz", "rk4-uniformz", "zhelix-uniformz"},
           {"dp-rzmap", "rk4-rzmap", ""}};
    log.label(cls[fk][sk]);
    log.ds("class", cls[fk][sk]);

    cs.opts = gen_options(c, log, f.scale);

    // field strength [gauss] and gyroradius
    double bt = c.log_uniform(1e-3, 10);
    double bgauss = bt * 1e4;
    double rgyro = f.scale * c.log_uniform(1e-4, 1e4);
    log.mix(bt);
    log.mix(rgyro);
    log.d("B_tesla", bt);

    // interior start point
    V3 p;
    bool found = false;
    for (int a = 0; a < 6 && !found; ++a)
    {
        for (int k = 0; k < 3; ++k)
            p[k] = c.real_in(f.lo[k], f.hi[k]);
        geo::Path pp = geo::locate(f.model, p, geo::delta_at(f.model, p) * 4);
        found = usable(pp);
    }
    if (!found)
    {
        log.label("no-start-point");
        return Verdict::trivial;
    }
    double dd[3];
    c.unit_vector(dd);
    V3 d = {{dd[0], dd[1], dd[2]}};
    if (c.boolean(0.1))
    {
        int ax = int(c.int_in(0, 2));
        bool neg = c.boolean();
        d = {{0, 0, 0}};
        d[ax] = neg ? -1 : 1;
        log.label("dir-axis-aligned");
    }
    cs.p0 = p;
    cs.d0 = d;
    for (int k = 0; k < 3; ++k)
    {
        log.mix(double(p[k]));
        log.mix(double(d[k]));
    }

    // start mode: 0 interior/uniform dir, 1 on boundary keep dir,
    //             2 on boundary near-tangent, 3 interior grazing orbit
    int mode = int(c.pick({4, 2.5, 2, 2.5}));
    log.mix(mode);
    V3 bdir;  // field direction (uniform kind)
    {
        double bb[3];
        c.unit_vector(bb);
        bdir = {{bb[0], bb[1], bb[2]}};
        int bk = int(c.pick({6, 2, 1, 1}));
        log.mix(bk);
        if (bk == 1)
        {
            int ax = int(c.int_in(0, 2));
            bool neg = c.boolean();
            bdir = {{0, 0, 0}};
            bdir[ax] = neg ? -1 : 1;
        }
        else if (bk == 2)
            bdir = d;  // field parallel to the motion (straight line)
        else if (bk == 3)
        {
            bdir = any_perp(d);  // planar orbit
        }
        for (int k = 0; k < 3; ++k)
            log.mix(double(bdir[k]));
    }
    bool bz_neg = c.boolean();
    log.mix(int(bz_neg));
    if (cs.fkind == f_uniform_z)
        bdir = {{0, 0, bz_neg ? -1.0L : 1.0L}};

    LD radius = rgyro;  // p = k B R
    double step_override = 0;
    bool aimed = false;

    auto boundary_point = [&](V3 const& from, V3 const& w, V3& q, V3& n) {
        // first real boundary along w (oracle), its position and the normal
        // of the nearest surface there
        bool trunc = false;
        auto segs = geo::trace(f.model, from, w, 2, &trunc);
        if (segs.empty() || !std::isfinite((double)segs[0].t1)
            || segs[0].fuzzy_end || segs[0].path.overlap)
            return false;
        q = geo::along(from, w, segs[0].t1);
        geo::Path qp = geo::locate(f.model, q, geo::delta_at(f.model, q));
        NearSurf ns = nearest_surface(f.model, qp);
        if (!ns.ok || ns.dist > 16 * geo::delta_at(f.model, q))
            return false;
        n = ns.n;
        return true;
    };

    if (mode == 1 || mode == 2)
    {
        // the first boundary along d must lead into another volume of the
        // world (oracle trace); otherwise try -d, otherwise start inside
        auto enters = [&](V3 const& w) {
            bool trunc = false;
            auto segs = geo::trace(f.model, p, w, 2, &trunc);
            return segs.size() >= 2 && !segs[1].path.outside()
                   && !segs[1].path.nowhere && !segs[0].path.overlap
                   && !segs[1].path.overlap;
        };
        if (!enters(d))
        {
            bool ok = false;
            V3 cand[7] = {scaled(d, -1),
                          {{1, 0, 0}},
                          {{-1, 0, 0}},
                          {{0, 1, 0}},
                          {{0, -1, 0}},
                          {{0, 0, 1}},
                          {{0, 0, -1}}};
            for (auto const& w : cand)
                if (enters(w))
                {
                    d = w;
                    cs.d0 = d;
                    ok = true;
                    break;
                }
            if (!ok)
                mode = 0;
        }
    }
    if (mode == 1 || mode == 2)
    {
        cs.on_boundary = true;
        log.label("start-boundary");
        if (mode == 2)
        {
            V3 q, n;
            if (boundary_point(p, d, q, n))
            {
                if (geo::dot(n, d) < 0)
                    n = scaled(n, -1);  // pointing into the new volume
                V3 t = sub(d, scaled(n, geo::dot(d, n)));
                if (!normalize(t))
                    t = any_perp(n);
                double alpha = c.log_uniform(1e-7, 0.5);
                double rot = c.real_in(0, 2 * M_PI);
                log.mix(alpha);
                log.mix(rot);
                V3 t2 = cross(n, t);
                V3 tt = add(scaled(t, cosl(rot)), scaled(t2, sinl(rot)));
                V3 u = add(scaled(tt, cosl(alpha)), scaled(n, sinl(alpha)));
                normalize(u);
                cs.redirect = true;
                cs.u_start = u;
                log.label("start-boundary-tangent");
                if (cs.fkind == f_uniform && c.boolean(0.7))
                {
                    // curvature in the plane of (n, u): toward / away
                    V3 bb = cross(tt, n);
                    if (normalize(bb))
                    {
                        bool toward = c.boolean(0.6);
                        log.mix(int(toward));
                        // curvature vector = omega (u x b); want sign(n)
                        V3 cv = cross(u, bb);
                        LD sgn = geo::dot(cv, n) * cs.q;  // omega ~ q
                        bool is_toward = sgn < 0;
                        if (is_toward != toward)
                            bb = scaled(bb, -1);
                        bdir = bb;
                        aimed = true;
                        log.label(toward ? "aim-curve-toward"
                                         : "aim-curve-away");
                    }
                }
            }
        }
    }
    else if (mode == 3 && cs.fkind == f_uniform)
    {
        // orbit through p that dips tau below (or passes |tau| above) a real
        // boundary point q
        V3 q, n;
        if (boundary_point(p, d, q, n))
        {
            V3 pq = sub(p, q);
            if (geo::dot(pq, n) < 0)
                n = scaled(n, -1);
            LD ah = geo::dot(pq, n);
            V3 tv_ = sub(scaled(pq, -1), scaled(n, -ah));  // from P toward Q,
                                                           // tangential
            LD at = geo::norm(tv_);
            double tau = cs.opts.delta_chord
                         * (c.boolean(0.5) ? c.log_uniform(0.02, 50)
                                           : c.real_in(0.5, 3));
            bool miss = c.boolean(0.3);
            log.mix(tau);
            log.mix(int(miss));
            LD tt = miss ? -LD(tau) : LD(tau);
            bool straddle = c.boolean(0.4);
            log.mix(int(straddle));
            if (straddle)
            {
                // start close to the surface so that ONE chord spans the dip:
                // total sagitta H = ah + tau in (0.35, 2.8) delta_chord
                LD dc = cs.opts.delta_chord;
                LD ah2 = dc * c.real_in(0.05, 0.9);
                LD tau2 = dc * c.real_in(0.3, 1.9);
                LD H = ah2 + tau2;
                LD R2 = std::max<LD>(rgyro, 4 * H);
                LD at2 = sqrtl(2 * R2 * H - H * H);
                V3 t0 = at > 0 ? scaled(tv_, 1 / at) : any_perp(n);
                V3 p2 = add(add(q, scaled(n, ah2)), scaled(t0, -at2));
                geo::Path a = geo::locate(
                    f.model, p, geo::delta_at(f.model, p) * 4);
                geo::Path b = geo::locate(
                    f.model, p2, geo::delta_at(f.model, p2) * 4);
                if (usable(b) && b.same_as(a))
                {
                    p = p2;
                    cs.p0 = p2;
                    ah = ah2;
                    at = at2;
                    tv_ = scaled(t0, at2);
                    tt = tau2;
                    step_override = double(2 * R2 * atan2l(at2, R2 - H));
                    log.label("aim-straddle");
                    for (int k = 0; k < 3; ++k)
                        log.mix(double(p2[k]));
                }
            }
            if (at > 0 && ah + tt > 0)
            {
                V3 t = scaled(tv_, 1 / at);
                LD R = (at * at + (ah + tt) * (ah + tt)) / (2 * (ah + tt));
                // centre (plane coords origin q, axes t, n): (0, R - tt);
                // P = (-at, ah)
                LD rt = -at, rn = ah - R + tt;  // P - C
                // tangent with positive t component
                LD ut = -rn / R, un = rt / R;
                if (ut < 0)
                {
                    ut = -ut;
                    un = -un;
                }
                V3 u = add(scaled(t, ut), scaled(n, un));
                V3 toC = add(scaled(t, -rt), scaled(n, -rn));
                V3 bb = cross(t, n);
                if (normalize(u) && normalize(bb) && normalize(toC)
                    && R > 1e-6 * f.scale && R < 1e6 * f.scale)
                {
                    V3 cv = scaled(cross(u, bb), cs.q);
                    if (geo::dot(cv, toC) < 0)
                        bb = scaled(bb, -1);
                    bdir = bb;
                    cs.redirect = true;
                    cs.u_start = u;
                    radius = R;
                    aimed = true;
                    cs.have_aim = true;
                    cs.aim = sub(q, scaled(n, tt));
                    log.label(miss ? "aim-graze-miss" : "aim-graze-dip");
                }
            }
        }
    }
    if (!cs.on_boundary)
        log.label("start-interior");
    (void)aimed;

    // ZHelix: half of the cases get an orbit centred on the z axis
    V3 u_eff = cs.redirect ? cs.u_start : d;
    if (cs.skind == s_zhelix && !cs.on_boundary && c.boolean(0.6))
    {
        LD rxy = sqrtl(p[0] * p[0] + p[1] * p[1]);
        double ct = c.real_in(-0.95, 0.95);
        log.mix(ct);
        LD st = sqrtl(1 - LD(ct) * ct);
        if (rxy > 1e-6 * f.scale)
        {
            // omega = q k B / p; sigma = -sign(omega * bz)
            LD sg = (cs.q * (bz_neg ? -1 : 1)) > 0 ? -1 : 1;
            V3 u = {{sg * st * (-p[1]) / rxy, sg * st * p[0] / rxy, ct}};
            normalize(u);
            cs.redirect = true;
            cs.u_start = u;
            u_eff = u;
            radius = rxy / st;
        }
    }

    // momentum from the radius: p = k B R  (R: radius for motion
    // perpendicular to the field)
    LD pm = kLorentz * bgauss * radius;
    if (!(pm > 1e-12L) || !(pm < 1e12L))
    {
        log.label("momentum-out-of-range");
        return Verdict::trivial;
    }
    // kinetic energy from momentum, stable for p << m
    LD ekin = pm * pm / (sqrtl(pm * pm + cs.mass * cs.mass) + cs.mass);
    cs.energy = double(ekin);
    if (!(cs.energy > 0))
        return Verdict::trivial;
    {
        LD e = cs.energy;
        cs.mom = sqrtl(e * e + 2 * cs.mass * e);
    }
    log.mix(cs.energy);
    log.d("energy_MeV", cs.energy);
    cs.bvec = scaled(bdir, bgauss);

    // RZ map
    if (cs.fkind == f_rzmap)
    {
        bool bundled = sh.have_cms && c.boolean(0.5);
        log.mix(int(bundled));
        if (bundled)
        {
            cs.rz_in = &sh.cms_input;
            cs.rz_params = sh.cms_map.get();
            log.label("rzmap-cms-tiny");
            bgauss = 3.8e4;
        }
        else
        {
            gen_rzmap(cs, c, log, f.scale, bgauss);
            try
            {
                cs.rz_owned = std::make_shared<RZMapFieldParams>(cs.rz_gen);
            }
            catch (RuntimeError const&)
            {
                return Verdict::rejected;
            }
            cs.rz_in = &cs.rz_gen;
            cs.rz_params = cs.rz_owned.get();
            log.label("rzmap-generated");
        }
    }

    // step: 0.1 x minimum_step .. 50 turns
    LD turn_len = 2 * M_PI * cs.mom / (kLorentz * bgauss);
    double lo = 0.1 * cs.opts.minimum_step;
    double hi = double(50 * turn_len);
    if (!(hi > 10 * lo))
        hi = 10 * lo;
    if (hi > 1e4 * f.scale)
        hi = std::fmax(1e4 * f.scale, 10 * lo);
    if (c.boolean(0.5))
    {
        // aim at the interesting range: 0.01 .. 50 turns
        double l2 = std::fmax(lo, double(0.01 * turn_len));
        if (l2 < hi)
            lo = l2;
    }
    cs.step = c.log_uniform(lo, hi);
    if (c.boolean(0.05))
    {
        cs.step = cs.opts.minimum_step
                  * (c.boolean() ? 1.0 : c.real_in(0.5, 2));
        log.label("step-near-minimum");
    }
    if (step_override > 0 && cs.have_aim)
        cs.step = step_override;
    log.mix(cs.step);
    log.d("step", cs.step);

    // regime labels
    {
        LD ratio = (cs.mom / (kLorentz * bgauss)) / f.scale;
        log.label(ratio < 1e-2  ? "R<1e-2scale"
                  : ratio < 1e2 ? "R~scale"
                                : "R>1e2scale");
    }
    // iteration budget sufficient for the chord search and the error control
    // loops (see notes): otherwise oracles 4-6 are not applied
    {
        V3 b = bdir;
        normalize(b);
        LD sp = geo::norm(sub(u_eff, scaled(b, geo::dot(u_eff, b))));
        LD rc = sp > 0 ? (cs.mom / (kLorentz * bgauss)) / sp : INFINITY;
        LD need = 0;
        if (std::isfinite((double)rc))
        {
            LD chord = sqrtl(8 * rc * cs.opts.delta_chord);
            if (cs.step > chord)
                need = log2l(cs.step / chord);
        }
        cs.starved = cs.opts.max_nsteps < 40
                     || cs.opts.max_nsteps < need + 8;
        if (cs.starved)
            log.label("iteration-starved");
    }
    if (log.want_desc)
    {
        double v[3] = {double(cs.bvec[0]), double(cs.bvec[1]), double(cs.bvec[2])};
        log.dv("B_gauss", v, 3);
        double pp[3] = {double(p[0]), double(p[1]), double(p[2])};
        log.dv("p0", pp, 3);
        double d3[3] = {double(d[0]), double(d[1]), double(d[2])};
        log.dv("d0", d3, 3);
        if (cs.redirect)
        {
            double u3[3] = {double(cs.u_start[0]),
                            double(cs.u_start[1]),
                            double(cs.u_start[2])};
            log.dv("u_start", u3, 3);
        }
        log.d("on_boundary", cs.on_boundary);
        log.d("gyroradius", double(cs.mom / (kLorentz * bgauss)));
        auto const& o = cs.opts;
        double ov[12] = {o.minimum_step,
                         o.delta_chord,
                         o.delta_intersection,
                         o.epsilon_step,
                         o.epsilon_rel_max,
                         o.pgrow,
                         o.pshrink,
                         o.safety,
                         o.max_stepping_increase,
                         o.max_stepping_decrease,
                         double(o.max_nsteps),
                         double(o.max_substeps)};
        log.dv("options", ov, 12);
    }

    return judge(cs, c, log);
}

}  // namespace

void setup()
{
    geosrc_setup();
    auto& sh = shared();
    using namespace celeritas::units;
    ParticleParams::Input defs = {{"electron",
                                   pdg::electron(),
                                   MevMass{kMass[0]},
                                   ElementaryCharge{-1},
                                   constants::stable_decay_constant},
                                  {"positron",
                                   pdg::positron(),
                                   MevMass{kMass[1]},
                                   ElementaryCharge{1},
                                   constants::stable_decay_constant},
                                  {"mu_minus",
                                   pdg::mu_minus(),
                                   MevMass{kMass[2]},
                                   ElementaryCharge{-1},
                                   constants::stable_decay_constant},
                                  {"mu_plus",
                                   pdg::mu_plus(),
                                   MevMass{kMass[3]},
                                   ElementaryCharge{1},
                                   constants::stable_decay_constant}};
    sh.particles = std::make_shared<ParticleParams>(std::move(defs));
    sh.pstate = std::make_unique<Shared::PStore>(sh.particles->host_ref(), 1);
    try
    {
        std::ifstream is("/repo/test/celeritas/data/cms-tiny.field.json");
        if (is)
        {
            is >> sh.cms_input;
            sh.cms_map = std::make_shared<RZMapFieldParams>(sh.cms_input);
            sh.have_cms = true;
        }
    }
    catch (std::exception const& e)
    {
        std::fprintf(stderr, "note: cms-tiny field map not usable: %.200s\n", e.what());
    }
}

Verdict run_case(Choices& c, CaseLog& log)
{
    // Geometry sources for C08: bundled fixtures and generated raw inputs.
    // Construction-API models (enabled in geosrc.hh when VERIF_HAVE_GEOGEN is
    // defined) are skipped: navigation-vs-oracle disagreements inside such
    // models are the subject of C03/C09 (see notes).
    GeoSource src;
    Verdict gv = Verdict::trivial;
    for (int attempt = 0; attempt < 4; ++attempt)
    {
        src = GeoSource{};
        gv = choose_geometry(c, log, src);
        if (gv == Verdict::rejected)
            return gv;
        if (gv == Verdict::pass && src.fix && src.fix->name != "api")
            break;
        gv = Verdict::trivial;
    }
    if (gv != Verdict::pass)
    {
        log.label("geo-api-skipped");
        return Verdict::trivial;
    }
    try
    {
        return decode_and_run(src, c, log);
    }
    catch (celeritas::RuntimeError const& e)
    {
        return log.fail(std::string("RuntimeError during propagation: ")
                        + e.what());
    }
    catch (celeritas::DebugError const& e)
    {
        return log.fail(std::string("DebugError during propagation: ")
                        + e.what());
    }
}

bool run_exhaustive(ExhaustiveResult&)
{
    return false;
}

}  // namespace verif
