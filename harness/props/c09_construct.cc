// C09 -- Geometry construction preserves the meaning of the user's solids.
//
// One case = random construction-API model (geogen.hh) -> InputBuilder ->
// OrangeParams -> OrangeTrackView initialised at probe points; the label of
// the volume found by the runtime must equal the label predicted by the
// analytic membership oracle for every probe farther than 4*tol from every
// face met on the way.
#include <cmath>
#include <cstdio>
#include <cstdlib>
#include <memory>
#include <sstream>
#include <string>
#include <vector>

#include "caselog.hh"
#ifdef C09_TIMING
#    include <chrono>
static double g_t[5];
struct TimerDump
{
    ~TimerDump()
    {
        std::fprintf(stderr, "gen %.2f build %.2f params %.2f probes-gen %.2f check %.2f\n", g_t[0], g_t[1], g_t[2], g_t[3], g_t[4]);
    }
} g_timer_dump;
#    define TICK(i)                                                       \
        g_t[i] += std::chrono::duration<double>(                          \
                      std::chrono::steady_clock::now() - t_last)          \
                      .count();                                           \
        t_last = std::chrono::steady_clock::now();
#else
#    define TICK(i)
#endif
#include "corecel/data/CollectionStateStore.hh"
#include "corecel/io/Label.hh"
#include "geocel/Types.hh"
#include "geogen.hh"
#include "orange/OrangeInput.hh"
#include "orange/OrangeParams.hh"
#include "orange/OrangeTrackView.hh"
#include "orange/surf/SurfaceIO.hh"
#include "orange/surf/VariantSurface.hh"
#include <iostream>

namespace verif
{
char const* const kPropertyId = "C09";
char const* const kHarness = "c09_construct";
size_t const kMaxBytes = 800;
char const* const kRule
    = "byte string -> random orangeinp model (proto tree depth<=2, <=2 "
      "daughters and <=5 first-match cutting objects per unit over all "
      "primitives / solids / poly-solids / booleans / transforms, random "
      "tolerance, planted near-coincident faces) + probe points (uniform in "
      "the world box, +-{5,30,1000} tol along face normals, inside "
      "daughters); oracle = analytic long-double membership margins, "
      "first-match descent, points within 4 tol of a face skipped; "
      "non-trivial = >=1 transformed node and >=1 boolean node, >=50 "
      "unambiguous probes with >=2 distinct expected labels, and (depth>=1 "
      "or >=2 cutting objects)";

namespace
{
using namespace celeritas;
namespace gg = verif::geogen;

gg::Limits g_limits;
bool g_dump = false;

char const* prim_label(int k)
{
    static char const* n[] = {"prim:box", "prim:sphere", "prim:cyl",
                              "prim:cone", "prim:ellipsoid", "prim:prism",
                              "prim:genprism", "prim:para", "prim:wedge",
                              "prim:cylsolid", "prim:sphsolid",
                              "prim:conesolid", "prim:prismsolid",
                              "prim:polycone", "prim:polyprism"};
    return n[k];
}

void dump_input(OrangeInput const& inp)
{
    for (auto const& uv : inp.universes)
    {
        auto const* u = std::get_if<UnitInput>(&uv);
        if (!u)
            continue;
        std::cerr << "UNIT " << u->label << "\n";
        std::cerr.precision(17);
        int i = 0;
        for (auto const& sf : u->surfaces)
        {
            std::cerr << "  s" << i++ << ": ";
            std::visit([](auto const& x) { std::cerr << x << "\n"; }, sf);
        }
        for (auto const& v : u->volumes)
        {
            std::cerr << "  vol " << v.label.name << " faces:";
            for (auto f : v.faces)
                std::cerr << f.get() << " ";
            std::cerr << " logic:";
            for (auto l : v.logic)
            {
                if (l == logic::land) std::cerr << "& ";
                else if (l == logic::lor) std::cerr << "| ";
                else if (l == logic::lnot) std::cerr << "~ ";
                else if (l == logic::ltrue) std::cerr << "* ";
                else std::cerr << l << " ";
            }
            std::cerr << " bbox:" << v.bbox.lower()[0] << "," << v.bbox.lower()[1] << "," << v.bbox.lower()[2] << " .. "
                      << v.bbox.upper()[0] << "," << v.bbox.upper()[1] << "," << v.bbox.upper()[2] << "\n";
        }
    }
}

}  // namespace

void setup()
{
    gg::quiet_logs();
    g_limits.allow_parallelepiped_skew = true;
    g_limits.allow_small_ellipsoid = true;
    g_limits.allow_flattened_twist = true;
    g_limits.allow_merged_quadric_clone = true;
    if (char const* e = std::getenv("C09_NO_SKEW"))
        g_limits.allow_parallelepiped_skew = (e[0] == '0');
    // C09_SAFE=1: the finding-free generator other harnesses use
    if (std::getenv("C09_SAFE"))
        g_limits = gg::Limits{};
    g_dump = std::getenv("C09_DUMP") != nullptr;
}

Verdict run_case(Choices& c, CaseLog& log)
{
    std::unique_ptr<gg::GenGeo> geo;
    std::unique_ptr<OrangeParams> params;
    uint64_t seed = c.bits(8);
    log.mix(seed);
#ifdef C09_TIMING
    auto t_last = std::chrono::steady_clock::now();
#endif
    try
    {
        geo = std::make_unique<gg::GenGeo>(gg::generate(c, log, g_limits));
    }
    catch (gg::Excluded const& e)
    {
        log.label("excluded-known-class");
        return Verdict::rejected;
    }
    catch (RuntimeError const& e)
    {
        log.label("rejected:construct");
        log.ds("rejected", std::string(e.what()).substr(0, 300));
        return Verdict::rejected;
    }
    TICK(0)
    log.ds("geo", geo->desc);
    log.d("seed", seed);
    if (g_dump)
        std::fprintf(stderr, "GEO: %s\n", geo->desc.c_str());
    try
    {
        OrangeInput inp = gg::build_input(*geo);
        if (g_dump)
            dump_input(inp);
        TICK(1)
        params = std::make_unique<OrangeParams>(std::move(inp));
    }
    catch (RuntimeError const& e)
    {
        log.label("rejected:build");
        log.ds("rejected", std::string(e.what()).substr(0, 300));
        return Verdict::rejected;
    }

    TICK(2)
    // class labels
    auto const& f = geo->feat;
    for (int k = 0; k < gg::P_COUNT; ++k)
        if (f.prim[k])
            log.label(prim_label(k));
    bool has_bool = f.n_any + f.n_all + f.n_neg + f.n_sub > 0;
    bool has_xf = f.n_xf + f.n_daughters > 0;
    if (f.n_any) log.label("csg:any");
    if (f.n_all) log.label("csg:all");
    if (f.n_neg) log.label("csg:neg");
    if (f.n_sub) log.label("csg:sub");
    if (f.n_rot) log.label("xf:rotation");
    if (f.n_improper) log.label("xf:improper");
    if (f.n_compose) log.label("xf:composed");
    if (f.n_tiny_offset) log.label("placement:tiny-offset");
    if (f.n_tinyrot) log.label("xf:tiny-rotation");
    if (f.n_planted) log.label("near-coincident planted");
    if (f.n_daughter_rot) log.label("daughter with rotation");
    if (f.n_reuse) log.label("daughter reused");
    if (f.n_twisted) log.label("genprism:twisted");
    if (f.n_degenerate) log.label("genprism:degenerate");
    if (f.n_oriented_prism) log.label("prism:oriented");
    if (f.n_skew) log.label("para:skewed");
    if (f.n_small_ell) log.label("ellipsoid:small-coefficients");
    if (f.n_flat_twist) log.label("genprism:flattened-twist");
    if (f.n_merged_gq) log.label("cyl:merged-quadric-clone");
    if (f.n_excluded_f11) log.label("excluded:F11-ellipsoid-crash");
    if (f.n_explicit) log.label("unit:explicit-boundary");
    if (f.n_background) log.label("unit:background");
    if (f.nondefault_tol) log.label("tol:nondefault");
    log.label(f.depth == 0 ? "depth0" : f.depth == 1 ? "depth1" : "depth2");
    log.count("units", f.n_units);
    log.count("regions", f.n_regions);

    CollectionStateStore<OrangeStateData, MemSpace::host> st(params->host_ref(),
                                                             1);
    OrangeTrackView tv(params->host_ref(), st.ref(), TrackSlotId{0});

    gg::Prng rng{seed ^ 0x5851f42d4c957f2dull};
    std::vector<gg::P3> pts;
    double H = gg::world_halfwidth(*geo);
    // global centre of the world ball
    gg::P3 wc = geo->global->bc;
    for (int i = 0; i < 48; ++i)
        pts.push_back({wc.x + H * rng.u(-1, 1), wc.y + H * rng.u(-1, 1),
                       wc.z + H * rng.u(-1, 1)});
    size_t n_uniform = pts.size();
    auto sp = gg::surface_points(*geo, rng, 2, 60);
    // (not exactly the planting multiples {2, 10, 1000}: a probe must not
    // land exactly on the face of a planted neighbour)
    static double const offs[] = {5, -5, 30.7, -30.7, 1013, -1013};
    for (auto const& s : sp)
        for (double k : offs)
        {
            gg::LD d = k * s.tol;
            pts.push_back({s.p.x + d * s.n.x, s.p.y + d * s.n.y,
                           s.p.z + d * s.n.z});
        }
    size_t n_face = pts.size() - n_uniform;
    auto dp = gg::daughter_points(*geo, rng, 10);
    pts.insert(pts.end(), dp.begin(), dp.end());

    TICK(3)
    long n_unamb = 0, n_amb = 0, n_near = 0, n_deep = 0;
    std::string first_label;
    bool two_labels = false;
    Real3 const dir{0, 0, 1};
    for (size_t i = 0; i < pts.size(); ++i)
    {
        // the probe is the double-rounded point
        Real3 pos{double(pts[i].x), double(pts[i].y), double(pts[i].z)};
        gg::Expect ex = gg::expected(*geo, pos[0], pos[1], pos[2]);
        if (ex.ambiguous)
        {
            ++n_amb;
            continue;
        }
        ++n_unamb;
        if (i >= n_uniform && i < n_uniform + n_face && ex.margin < 10)
            ++n_near;
        if (ex.depth > 0)
            ++n_deep;
        std::string want = ex.volume_label + "@" + ex.unit_label;
        if (first_label.empty())
            first_label = want;
        else if (want != first_label)
            two_labels = true;

        tv = GeoTrackInitializer{pos, dir};
        std::string got;
        if (tv.failed())
            got = "<failed to initialise>";
        else if (tv.is_outside())
            got = "[EXTERIOR]@" + geo->global->label;
        else
        {
            Label const& l = params->id_to_label(tv.volume_id());
            got = l.name + "@" + l.ext;
        }
        if (got != want)
        {
            std::ostringstream os;
            os.precision(17);
            os << "probe (" << pos[0] << ", " << pos[1] << ", " << pos[2]
               << ") kind="
               << (i < n_uniform ? "uniform"
                   : i < n_uniform + n_face ? "face-normal" : "daughter")
               << ": runtime volume '" << got << "' but the solids' definition "
               << "gives '" << want << "' (smallest |margin| on the way = "
               << double(ex.margin) << " x 4 tol, level " << ex.depth
               << "); margins in tol:" << gg::explain(*geo, pos[0], pos[1], pos[2]);
            log.d("probe_index", i);
            if (g_dump)
                std::fprintf(stderr, "%s\n%s\n", os.str().c_str(),
                             geo->desc.c_str());
            if (ex.known & gg::KF10)
                return log.fail(os.str(), "F10-parallelepiped-bbox");
            if (ex.known & gg::KF11)
                return log.fail(os.str(), "F30-ellipsoid-unnormalised-quadric");
            if (ex.known & gg::KF13)
                return log.fail(os.str(), "F32-quadric-softequal-coefficients");
            if (ex.known & gg::KF12)
                return log.fail(os.str(), "F31-genprism-small-twist-flattened");
            return log.fail(os.str());
        }
    }
    TICK(4)
    log.count("probes_unambiguous", n_unamb);
    log.count("probes_ambiguous", n_amb);
    log.count("probes_face_within_10x", n_near);
    log.count("probes_in_daughters", n_deep);
    log.nontrivial = has_bool && has_xf && n_unamb >= 50 && two_labels
                     && (f.depth >= 1 || f.n_regions >= 2);
    return Verdict::pass;
}

bool run_exhaustive(ExhaustiveResult&)
{
    return false;
}

}  // namespace verif
