// C12 (part 1) — surface primitives are self-consistent: intersections,
// sense and normal of every surface class against a long-double reference of
// the surface function built from the *stored* surface data.
// (Transforms / simplification: c12_xform.cc.)
#include <algorithm>
#include <cmath>
#include <cstdio>
#include <cstdlib>
#include <set>
#include <string>
#include <vector>

#include "caselog.hh"
#include "corecel/Constants.hh"
#include "corecel/cont/Array.hh"
#include "orange/OrangeTypes.hh"
#include "orange/surf/ConeAligned.hh"
#include "orange/surf/CylAligned.hh"
#include "orange/surf/CylCentered.hh"
#include "orange/surf/GeneralQuadric.hh"
#include "orange/surf/Involute.hh"
#include "orange/surf/Plane.hh"
#include "orange/surf/PlaneAligned.hh"
#include "orange/surf/SimpleQuadric.hh"
#include "orange/surf/Sphere.hh"
#include "orange/surf/SphereCentered.hh"

namespace verif
{
char const* const kPropertyId = "C12";
char const* const kHarness = "c12_surf";
size_t const kMaxBytes = 200;
char const* const kRule
    = "byte string -> (surface class of 18, parameters log-uniform 1e-3..1e3 "
      "or structured/rotated quadrics, position far/near/inside/outside or "
      "constructed exactly on the surface (then and only then "
      "SurfaceState::on), direction uniform / axis-parallel / tangent / "
      "asymptotic (a~0) / radial with perturbations 0 or 1e-12..1e-1); oracle "
      "= long-double surface function from the stored data, cancellation-free "
      "roots, first-order rounding model k*eps*condition for every tolerance; "
      "involute: Newton/bisection roots of the line-involute equation on "
      "[tmin,tmax]; non-trivial = at least one finite well-conditioned "
      "intersection verified with |cos(d,n)| < 0.999 at the crossing";
void setup() {}

namespace
{
using namespace celeritas;
using LD = long double;

constexpr LD eps = 1.1102230246251565e-16L;  // 2^-53, unit roundoff
// Safety factor on every first-order rounding bound.  Calibration (C12_CALIB,
// 1e6 cases, required crossings only): largest observed root error 2.0
// eps*cond, normal 0.93, sense mismatch only below 1.8 eps*cond; planted
// defects are O(1) >> 1e12 eps.
constexpr LD KT = 256;
constexpr LD min_a = 1e-10L;  // QuadraticSolver::min_a() == sqrt_quadratic^2

// Development aid (C12_CALIB=1): largest observed error / (eps * condition)
struct Calib
{
    double root = 0, normal = 0, sense = 0, resid = 0;
    ~Calib()
    {
        if (std::getenv("C12_CALIB"))
            std::fprintf(stderr,
                         "CALIB max ratios (units of eps*cond): root %.3g "
                         "normal %.3g sense-mismatch %.3g resid %.3g\n",
                         root, normal, sense, resid);
    }
} g_calib;

char const* intern(std::string const& s)
{
    static std::set<std::string> pool;
    return pool.insert(s).first->c_str();
}

//---------------------------------------------------------------------------//
// Reference quadric in local coordinates y = x - o:
//   f = sum A_i y_i^2 + D0 y0 y1 + D1 y1 y2 + D2 y2 y0 + sum G_i y_i + J
// (the local origin mirrors the shifted form each class stores, so that the
// "absolute" sums below are first-order bounds of the code's own rounding)
struct Quad
{
    LD o[3] = {0, 0, 0};
    LD A[3] = {0, 0, 0};
    LD D[3] = {0, 0, 0};
    LD G[3] = {0, 0, 0};
    LD J = 0;
};

enum class SK
{
    linear,  // planes
    sphere,  // QuadraticSolver(1, hb)
    cyl,  // a = 1 - d_T^2, a < min_a -> none
    general  // QuadraticSolver::solve_general
};

void to_local(Quad const& q, double const x[3], LD y[3])
{
    for (int i = 0; i < 3; ++i)
        y[i] = (LD)x[i] - q.o[i];
}

LD qf(Quad const& q, LD const y[3])
{
    return q.A[0] * y[0] * y[0] + q.A[1] * y[1] * y[1] + q.A[2] * y[2] * y[2]
           + q.D[0] * y[0] * y[1] + q.D[1] * y[1] * y[2] + q.D[2] * y[2] * y[0]
           + q.G[0] * y[0] + q.G[1] * y[1] + q.G[2] * y[2] + q.J;
}

LD qfabs(Quad const& q, LD const y[3])
{
    return fabsl(q.A[0]) * y[0] * y[0] + fabsl(q.A[1]) * y[1] * y[1]
           + fabsl(q.A[2]) * y[2] * y[2] + fabsl(q.D[0] * y[0] * y[1])
           + fabsl(q.D[1] * y[1] * y[2]) + fabsl(q.D[2] * y[2] * y[0])
           + fabsl(q.G[0] * y[0]) + fabsl(q.G[1] * y[1]) + fabsl(q.G[2] * y[2])
           + fabsl(q.J);
}

void qgrad(Quad const& q, LD const y[3], LD g[3], LD gabs[3])
{
    g[0] = 2 * q.A[0] * y[0] + q.D[0] * y[1] + q.D[2] * y[2] + q.G[0];
    g[1] = 2 * q.A[1] * y[1] + q.D[0] * y[0] + q.D[1] * y[2] + q.G[1];
    g[2] = 2 * q.A[2] * y[2] + q.D[1] * y[1] + q.D[2] * y[0] + q.G[2];
    gabs[0] = fabsl(2 * q.A[0] * y[0]) + fabsl(q.D[0] * y[1])
              + fabsl(q.D[2] * y[2]) + fabsl(q.G[0]);
    gabs[1] = fabsl(2 * q.A[1] * y[1]) + fabsl(q.D[0] * y[0])
              + fabsl(q.D[1] * y[2]) + fabsl(q.G[1]);
    gabs[2] = fabsl(2 * q.A[2] * y[2]) + fabsl(q.D[1] * y[1])
              + fabsl(q.D[2] * y[0]) + fabsl(q.G[2]);
}

LD qa(Quad const& q, LD const d[3])
{
    return q.A[0] * d[0] * d[0] + q.A[1] * d[1] * d[1] + q.A[2] * d[2] * d[2]
           + q.D[0] * d[0] * d[1] + q.D[1] * d[1] * d[2] + q.D[2] * d[2] * d[0];
}

LD qaabs(Quad const& q, LD const d[3])
{
    return fabsl(q.A[0]) * d[0] * d[0] + fabsl(q.A[1]) * d[1] * d[1]
           + fabsl(q.A[2]) * d[2] * d[2] + fabsl(q.D[0] * d[0] * d[1])
           + fabsl(q.D[1] * d[1] * d[2]) + fabsl(q.D[2] * d[2] * d[0]);
}

struct RayC
{
    LD a, b, c, Aabs, Babs, Cabs;
};

RayC ray_coeff(Quad const& q, LD const y[3], LD const d[3])
{
    RayC r;
    LD g[3], gabs[3];
    qgrad(q, y, g, gabs);
    r.a = qa(q, d);
    r.Aabs = qaabs(q, d);
    r.b = g[0] * d[0] + g[1] * d[1] + g[2] * d[2];
    r.Babs = gabs[0] * fabsl(d[0]) + gabs[1] * fabsl(d[1])
             + gabs[2] * fabsl(d[2]);
    r.c = qf(q, y);
    r.Cabs = qfabs(q, y);
    return r;
}

// Real roots of a t^2 + b t + c (any sign), cancellation free
int solve_quadratic(LD a, LD b, LD c, LD r[2])
{
    if (a == 0)
    {
        if (b == 0)
            return 0;
        r[0] = -c / b;
        return 1;
    }
    LD disc = b * b - 4 * a * c;
    if (disc < 0)
        return 0;
    LD sq = sqrtl(disc);
    LD qq = -(b + (b >= 0 ? sq : -sq)) / 2;
    if (qq == 0)
    {
        r[0] = 0;
        return 1;
    }
    r[0] = qq / a;
    r[1] = c / qq;
    return 2;
}

LD norm3(LD const v[3])
{
    return sqrtl(v[0] * v[0] + v[1] * v[1] + v[2] * v[2]);
}

void unit_ld(Choices& c, LD u[3])
{
    double t[3];
    c.unit_vector(t);
    for (int i = 0; i < 3; ++i)
        u[i] = t[i];
}

// Value that is often exactly zero, else signed log-uniform
double coord(Choices& c, double lo, double hi, double pzero)
{
    if (c.boolean(pzero))
        return 0.0;
    return c.signed_log_uniform(lo, hi);
}

struct Geom
{
    LD centre[3] = {0, 0, 0};
    LD L = 1;
};

//---------------------------------------------------------------------------//
struct Ref
{
    LD t;
    LD tol;
    bool required;
    bool used = false;
    LD slack = 0;  // extra distance by which the true crossing may differ
};

struct RayRefs
{
    std::vector<Ref> refs;
    bool window = false;  // tangent-fuzzy: accept <= 2 values in [wlo, whi]
    LD wlo = 0, whi = 0;
    char const* zone = "zone-quad";
    int zone_id = 0;  // 0 quad, 1 along (|a| < min_a), 2 ambiguous
    LD far_lo = INFINITY;  // ambiguous zone: one value >= far_lo accepted
    bool start_in_noise = false;  // |f(p)| below the rounding noise
    bool out_of_contract = false;
};

void add_ref(RayRefs& rr, LD t, LD tol, bool force_optional = false)
{
    if (!(tol >= 0) || std::isnan((double)t))
        return;
    if (t < -tol)
        return;  // certainly behind: nothing may match it
    rr.refs.push_back({t, tol, !force_optional && t > tol});
}

// Reference intersections for the ray with local start y, direction d
RayRefs reference_roots(Quad const& q, SK sk, LD const y[3], LD const d[3],
                        bool on, int t_axis)
{
    RayRefs rr;
    RayC r = ray_coeff(q, y, d);
    if (sk == SK::linear)
    {
        rr.zone = "zone-linear";
        if (on)
            return rr;  // planes: no intersection when on the surface
        if (r.c == 0)
        {
            rr.out_of_contract = true;
            return rr;
        }
        LD berr = KT * eps * r.Babs;
        if (fabsl(r.b) <= berr)
        {
            // parallel to rounding: the code's n.d (possibly fused) may be
            // any tiny number of either sign -> nothing, or a huge distance
            rr.far_lo = fabsl(r.c) / (fabsl(r.b) + berr) / 4;
            rr.zone = "zone-linear-parallel";
        }
        if (r.b == 0)
            return rr;  // exactly parallel: 'n_dir != 0' test
        LD t = -r.c / r.b;
        LD tol = KT * eps * (r.Babs * fabsl(t) + r.Cabs) / fabsl(r.b)
                 + KT * eps * fabsl(t);
        add_ref(rr, t, tol, fabsl(r.b) <= berr);
        return rr;
    }

    // The code's leading coefficient: 1 (sphere), 1 - d_T^2 (cylinder)
    LD Aabs = r.Aabs;
    if (sk == SK::sphere)
        Aabs = 2;
    else if (sk == SK::cyl)
        Aabs = 1 + d[t_axis] * d[t_axis];
    LD aerr = KT * eps * Aabs;
    LD a = r.a, hb = r.b / 2, cc = r.c;

    int zone = 0;  // 0 quad, 1 along, 2 ambiguous
    if (sk == SK::cyl || sk == SK::general)
    {
        LD aa = (sk == SK::cyl) ? a : fabsl(a);
        if (aa + aerr < min_a)
            zone = 1;
        else if (aa - aerr < min_a)
            zone = 2;
    }
    if (zone == 1)
        rr.zone = "zone-along";
    else if (zone == 2)
        rr.zone = "zone-ambiguous-a";
    rr.zone_id = zone;
    rr.start_in_noise = fabsl(cc) <= KT * eps * r.Cabs;

    if (!on && cc == 0)
    {
        // exactly on the surface but not flagged 'on': outside the callers'
        // contract (they pass 'on' after a crossing)
        rr.out_of_contract = true;
        return rr;
    }

    if (zone == 1)
    {
        if (sk == SK::cyl || on)
            return rr;  // none expected
        // solve_along_surface: t = -c / b if |b/2| > min_a
        LD hberr = KT * eps * r.Babs / 2;
        if (fabsl(hb) + hberr <= min_a)
            return rr;
        bool amb = fabsl(hb) - hberr <= min_a;
        LD t = -cc / r.b;
        // (the dropped a t^2 term moves the root by a t^2 / b: documented
        // "parallel to the quadric" approximation)
        LD tol = KT * eps * (r.Babs * fabsl(t) + r.Cabs) / fabsl(r.b)
                 + KT * eps * fabsl(t) + 2 * fabsl(a) * t * t / fabsl(r.b);
        add_ref(rr, t, tol, amb);
        return rr;
    }

    if (on)
    {
        // code: t = -2 (b/2)/a, ignoring c
        LD t = -2 * hb / a;
        LD tol = KT * eps * (r.Babs + fabsl(t) * Aabs) / fabsl(a)
                 + KT * eps * fabsl(t);
        add_ref(rr, t, tol, zone == 2);
        if (zone == 2 && r.b != 0)
            rr.far_lo = fabsl(r.b) / (fabsl(a) + 4 * aerr) / 4;
        // 'on' is a logical state: the true crossing differs from -b/a by
        // the self-root ~ c/b (documented in QuadraticSolver::operator()())
        if (!rr.refs.empty())
            rr.refs.back().slack = fabsl(cc) / fabsl(r.b);
        return rr;
    }

    LD disc4 = hb * hb - a * cc;
    LD Edisc = KT * eps
               * (fabsl(hb) * r.Babs + fabsl(a) * r.Cabs + fabsl(cc) * Aabs
                  + hb * hb + fabsl(a * cc));
    if (zone == 2)
    {
        // The code may have taken either branch: the linear root -c/b (far
        // root dropped), or both roots of the quadratic.  Everything is
        // optional; tolerances are deliberately loose (|a| ~ 1e-10).
        if (r.b != 0)
        {
            LD t = -cc / r.b;
            LD tol = KT * eps * (r.Babs * fabsl(t) + r.Cabs) / fabsl(r.b)
                     + 4 * fabsl(a) * t * t / fabsl(r.b) + 1e-6L * fabsl(t);
            add_ref(rr, t, tol, true);
        }
        // far root ~ -b/a with a known only to +-aerr: anything beyond
        // |b| / (|a| + 4 aerr) / 4 is acceptable (once)
        if (r.b != 0)
            rr.far_lo = fabsl(r.b) / (fabsl(a) + 4 * aerr) / 4;
        LD rq[2];
        int n = solve_quadratic(a, r.b, cc, rq);
        for (int i = 0; i < n; ++i)
            if (std::isfinite((double)rq[i]))
            {
                // relative error of the rounded leading coefficient itself
                // is aerr / |a| (up to O(1) in this zone by definition)
                LD rel = 1e-3L + (a != 0 ? 4 * aerr / fabsl(a) : (LD)1);
                add_ref(rr, rq[i], rel * fabsl(rq[i]), true);
            }
        if (fabsl(disc4) <= Edisc && a != 0)
        {
            rr.window = true;
            LD tm = -hb / a;
            LD w = 4 * sqrtl(fabsl(disc4) + Edisc) / fabsl(a)
                   + 1e-3L * fabsl(tm);
            rr.wlo = tm - w;
            rr.whi = tm + w;
        }
        return rr;
    }
    if (fabsl(disc4) <= Edisc)
    {
        rr.window = true;
        rr.zone = "zone-tangent-fuzzy";
        LD tm = -hb / a;
        LD w = sqrtl(fabsl(disc4) + Edisc) / fabsl(a)
               + KT * eps
                     * (fabsl(tm) * (1 + Aabs / fabsl(a))
                        + r.Babs / fabsl(a));
        rr.wlo = tm - w;
        rr.whi = tm + w;
        return rr;
    }
    if (disc4 < 0)
        return rr;
    LD sq = sqrtl(disc4);
    LD qq = -(hb + (hb >= 0 ? sq : -sq));
    LD roots[2] = {qq / a, cc / qq};
    LD hba = hb / a, cp = cc / a, t2 = sq / fabsl(a);
    for (LD t : roots)
    {
        LD tol = KT * eps
                 * ((Aabs * t * t + r.Babs * fabsl(t) + r.Cabs) / (2 * sq)
                    + (hba * hba + fabsl(cp)) / t2 + fabsl(hba) + t2);
        add_ref(rr, t, tol);
    }
    return rr;
}

//---------------------------------------------------------------------------//
struct CaseCtx
{
    Choices& c;
    CaseLog& log;
};

// Draw a position; returns true if constructed on the surface
bool gen_position(CaseCtx& cx, Quad const& q, Geom const& geo, double p[3],
                  char const*& pclass)
{
    Choices& c = cx.c;
    int mode = int(c.pick({30, 4, 26, 30, 10}));
    LD u[3];
    unit_ld(c, u);
    auto place = [&](LD rho, LD out[3]) {
        for (int i = 0; i < 3; ++i)
            out[i] = geo.centre[i] + geo.L * rho * u[i];
    };
    LD x[3];
    if (mode == 1)
    {
        place(0, x);
        pclass = "pos-centre";
    }
    else if (mode == 2)
    {
        place(c.log_uniform(1e-3, 1.0), x);
        pclass = "pos-inner";
    }
    else if (mode == 0)
    {
        place(c.log_uniform(1.0, 1e3), x);
        pclass = "pos-outer";
    }
    else
    {
        // on the surface (mode 3) or displaced from it (mode 4)
        LD q0[3];
        place(c.log_uniform(1e-2, 1e2), q0);
        LD e[3];
        unit_ld(c, e);
        double q0d[3] = {(double)q0[0], (double)q0[1], (double)q0[2]};
        LD y[3];
        to_local(q, q0d, y);
        RayC r = ray_coeff(q, y, e);
        LD roots[2];
        int n = solve_quadratic(r.a, r.b, r.c, roots);
        bool far = c.boolean(0.3);
        if (n == 0)
        {
            for (int i = 0; i < 3; ++i)
                p[i] = q0d[i];
            pclass = "pos-outer";
            return false;
        }
        LD s = roots[0];
        if (n == 2
            && ((fabsl(roots[1]) < fabsl(roots[0])) != far))
            s = roots[1];
        for (int i = 0; i < 3; ++i)
            x[i] = (LD)q0d[i] + s * e[i];
        if (mode == 4)
        {
            double xd[3] = {(double)x[0], (double)x[1], (double)x[2]};
            to_local(q, xd, y);
            LD g[3], gabs[3];
            qgrad(q, y, g, gabs);
            LD gn = norm3(g);
            LD delta = (LD)c.signed_log_uniform(1e-12, 1e-2) * geo.L;
            if (gn > 0)
                for (int i = 0; i < 3; ++i)
                    x[i] += delta * g[i] / gn;
            pclass = "pos-near";
            for (int i = 0; i < 3; ++i)
                p[i] = (double)x[i];
            return false;
        }
        pclass = "pos-on";
        for (int i = 0; i < 3; ++i)
            p[i] = (double)x[i];
        return true;
    }
    for (int i = 0; i < 3; ++i)
        p[i] = (double)x[i];
    return false;
}

void gen_direction(CaseCtx& cx, Quad const& q, Geom const& geo,
                   double const p[3], double d[3], char const*& dclass)
{
    Choices& c = cx.c;
    int mode = int(c.pick({35, 15, 20, 15, 15}));
    LD y[3];
    to_local(q, p, y);
    LD g[3], gabs[3];
    qgrad(q, y, g, gabs);
    LD gn = norm3(g);
    LD base[3];
    LD pert_dir[3] = {0, 0, 0};
    bool have_pert_dir = false;
    dclass = "dir-uniform";
    unit_ld(c, base);
    if (mode == 1)
    {
        int k = int(c.int_in(0, 2));
        bool neg = c.boolean();
        for (int i = 0; i < 3; ++i)
            base[i] = 0;
        base[k] = neg ? -1 : 1;
        dclass = "dir-axis";
    }
    else if (mode == 2 && gn > 0)
    {
        LD dot = (base[0] * g[0] + base[1] * g[1] + base[2] * g[2]) / gn;
        LD v[3];
        for (int i = 0; i < 3; ++i)
            v[i] = base[i] - dot * g[i] / gn;
        LD vn = norm3(v);
        if (vn > 1e-6L)
        {
            for (int i = 0; i < 3; ++i)
            {
                base[i] = v[i] / vn;
                pert_dir[i] = g[i] / gn;
            }
            have_pert_dir = true;
            dclass = "dir-tangent";
        }
    }
    else if (mode == 3)
    {
        // a(d) = 0: solve for one component
        int k = int(c.int_in(0, 2));
        bool second = c.boolean();
        LD ek[3] = {0, 0, 0};
        ek[k] = 1;
        LD a0 = qa(q, base);
        LD a2 = q.A[k];
        LD up[3] = {base[0] + ek[0], base[1] + ek[1], base[2] + ek[2]};
        LD a1 = qa(q, up) - a0 - a2;
        LD roots[2];
        int n = solve_quadratic(a2, a1, a0, roots);
        if (n > 0)
        {
            LD s = roots[(n == 2 && second) ? 1 : 0];
            LD v[3] = {base[0] + s * ek[0], base[1] + s * ek[1],
                       base[2] + s * ek[2]};
            LD vn = norm3(v);
            if (vn > 1e-6L && vn < 1e6L)
            {
                for (int i = 0; i < 3; ++i)
                    base[i] = v[i] / vn;
                dclass = "dir-asymptotic";
            }
        }
    }
    else if (mode == 4)
    {
        // radial: along +-gradient, or toward the centre
        bool neg = c.boolean();
        bool tocentre = c.boolean(0.4);
        LD v[3];
        for (int i = 0; i < 3; ++i)
            v[i] = tocentre ? geo.centre[i] - (LD)p[i] : g[i];
        LD vn = norm3(v);
        if (vn > 0)
        {
            for (int i = 0; i < 3; ++i)
                base[i] = (neg ? -1 : 1) * v[i] / vn;
            dclass = "dir-radial";
        }
    }
    // perturbation
    if (c.boolean(0.65))
    {
        LD e = c.log_uniform(1e-12, 1e-1);
        if (c.boolean())
            e = -e;
        LD w[3];
        unit_ld(c, w);
        if (have_pert_dir && c.boolean(0.6))
            for (int i = 0; i < 3; ++i)
                w[i] = pert_dir[i];
        for (int i = 0; i < 3; ++i)
            base[i] += e * w[i];
    }
    LD bn = norm3(base);
    for (int i = 0; i < 3; ++i)
        d[i] = (double)(base[i] / bn);
}

//---------------------------------------------------------------------------//
std::string fmt(LD v)
{
    char buf[64];
    std::snprintf(buf, sizeof buf, "%.17Lg", v);
    return buf;
}

template<class S>
Verdict check_quadric(S const& s, Quad const& q, SK sk, int t_axis,
                      Geom const& geo, char const* kname, CaseCtx& cx)
{
    Choices& c = cx.c;
    CaseLog& log = cx.log;
    double p[3], d[3];
    char const* pclass = "";
    char const* dclass = "";
    bool on = gen_position(cx, q, geo, p, pclass);
    gen_direction(cx, q, geo, p, d, dclass);
    for (int i = 0; i < 3; ++i)
    {
        log.mix(p[i]);
        log.mix(d[i]);
        if (!std::isfinite(p[i]) || !std::isfinite(d[i]))
            return Verdict::trivial;
    }
    log.dv("pos", p, 3);
    log.dv("dir", d, 3);
    log.d("on", on);
    log.label(pclass);
    log.label(dclass);
    log.label(intern(std::string(kname) + (on ? "/on" : "/off")));

    Real3 const pos{p[0], p[1], p[2]};
    Real3 const dir{d[0], d[1], d[2]};
    LD y[3], dl[3] = {d[0], d[1], d[2]};
    to_local(q, p, y);

    //// sense at the start point ////
    {
        LD f0 = qf(q, y), fa = qfabs(q, y);
        if (fa > 0 && f0 != 0
            && int(s.calc_sense(pos)) != (f0 > 0 ? 1 : -1))
            g_calib.sense = std::max(g_calib.sense,
                                     (double)(fabsl(f0) / (eps * fa)));
        if (fabsl(f0) > KT * eps * fa)
        {
            SignedSense ss = s.calc_sense(pos);
            SignedSense ex = f0 > 0 ? SignedSense::outside
                                    : SignedSense::inside;
            if (ss != ex)
                return log.fail("calc_sense(p) = " + std::to_string(int(ss))
                                + " but f(p) = " + fmt(f0) + " (noise "
                                + fmt(KT * eps * fa) + ")");
            log.count("sense_checked");
        }
        else
            log.count("sense_in_noise");
    }

    //// normal at the start point (formula is valid wherever grad != 0) ////
    auto check_normal = [&](double const x[3], char const* where,
                            LD* cos_out) -> bool {
        LD yy[3];
        to_local(q, x, yy);
        LD g[3], gabs[3];
        qgrad(q, yy, g, gabs);
        LD gn = norm3(g);
        if (!(gn > 0))
            return true;
        LD tol = KT * eps * (1 + 2 * (gabs[0] + gabs[1] + gabs[2]) / gn);
        if (cos_out)
            *cos_out = (g[0] * dl[0] + g[1] * dl[1] + g[2] * dl[2]) / gn;
        if (tol > 1e-3L)
        {
            log.count("normal_illconditioned");
            return true;
        }
        Real3 n = s.calc_normal(Real3{x[0], x[1], x[2]});
        LD nn = 0;
        for (int i = 0; i < 3; ++i)
        {
            g_calib.normal = std::max(
                g_calib.normal,
                (double)(fabsl((LD)n[i] - g[i] / gn) / (tol / KT)));
            if (std::isnan(n[i]) || fabsl((LD)n[i] - g[i] / gn) > tol)
            {
                log.fail(std::string("calc_normal at ") + where
                         + " differs from unit gradient: component "
                         + std::to_string(i) + " got " + fmt(n[i]) + " ref "
                         + fmt(g[i] / gn) + " tol " + fmt(tol));
                return false;
            }
            nn += (LD)n[i] * n[i];
        }
        if (fabsl(nn - 1) > 8 * eps)
        {
            log.fail(std::string("calc_normal at ") + where
                     + " is not unit: |n|^2 - 1 = " + fmt(nn - 1));
            return false;
        }
        log.count("normal_checked");
        return true;
    };
    if (!check_normal(p, "start point", nullptr))
        return Verdict::violation;

    //// intersections ////
    RayRefs rr = reference_roots(q, sk, y, dl, on, t_axis);
    if (rr.out_of_contract)
    {
        log.label("skip-exact-zero-off");
        return Verdict::trivial;
    }
    log.label(rr.zone);
    auto got_arr = s.calc_intersections(pos, dir,
                                        on ? SurfaceState::on
                                           : SurfaceState::off);
    std::vector<double> got;
    for (auto v : got_arr)
    {
        if (std::isnan(v))
            return log.fail("calc_intersections returned NaN");
        if (v == no_intersection())
            continue;
        if (v == 0 && sk == SK::general && !on && rr.start_in_noise
            && rr.zone_id != 0)
        {
            // Known finding: QuadraticSolver::solve_along_surface tests
            // 'result < 0' (the other branches test '<= 0'), so a start
            // point whose computed c is exactly 0 yields distance (-)0
            return log.fail(
                "calc_intersections returned distance 0 (solve_along_surface "
                "with c == 0: '< 0' instead of '<= 0')",
                "F25-along-surface-zero-distance");
        }
        if (!(v > 0))
            return log.fail("calc_intersections returned non-positive "
                            "distance "
                            + fmt(v));
        got.push_back(v);
    }
    std::sort(got.begin(), got.end());
    log.dv("got", got.data(), int(got.size()));

    int in_window = 0;
    bool far_used = false;
    std::vector<std::pair<double, Ref const*>> matched;
    for (double gv : got)
    {
        // closest unused reference within its tolerance
        Ref* best = nullptr;
        LD bestd = 0;
        for (auto& r : rr.refs)
        {
            if (r.used)
                continue;
            LD dd = fabsl((LD)gv - r.t);
            if (dd <= r.tol && (!best || dd < bestd))
            {
                best = &r;
                bestd = dd;
            }
        }
        if (best)
        {
            if (best->tol > 0 && best->required)
            {
                double ratio = (double)(bestd / (best->tol / KT));
                g_calib.root = std::max(g_calib.root, ratio);
                if (ratio > 30 && std::getenv("C12_DEBUG"))
                    std::fprintf(stderr,
                                 "BIGRATIO %g %s %s on=%d req=%d t=%.17Lg "
                                 "got=%.17g tol=%.3Lg\n",
                                 ratio, kname, rr.zone, int(on),
                                 int(best->required), best->t, gv, best->tol);
            }
            best->used = true;
            matched.emplace_back(gv, best);
            continue;
        }
        if (rr.window && gv >= rr.wlo && gv <= rr.whi && in_window < 2)
        {
            ++in_window;
            continue;
        }
        if (gv >= rr.far_lo && !far_used)
        {
            far_used = true;
            continue;
        }
        std::string m = "calc_intersections returned " + fmt(gv)
                        + " which matches no reference crossing (refs:";
        for (auto const& r : rr.refs)
            m += " " + fmt(r.t) + "+-" + fmt(r.tol);
        if (rr.window)
            m += " window [" + fmt(rr.wlo) + "," + fmt(rr.whi) + "]";
        m += ")";
        return log.fail(m);
    }
    for (auto const& r : rr.refs)
    {
        if (r.required && !r.used)
        {
            std::string m = "missing crossing: reference root " + fmt(r.t)
                            + " (tol " + fmt(r.tol) + ") not returned; got";
            for (double gv : got)
                m += " " + fmt(gv);
            return log.fail(m);
        }
    }

    //// per-crossing checks: residual, sense flip, normal ////
    long verified = 0;
    bool oblique = false;
    for (size_t k = 0; k < matched.size(); ++k)
    {
        double gv = matched[k].first;
        Ref const& r = *matched[k].second;
        if (!r.required)
            continue;
        // residual of the returned distance (independent formulation)
        LD xl[3];
        double xd[3];
        for (int i = 0; i < 3; ++i)
        {
            xl[i] = y[i] + (LD)gv * dl[i];
            xd[i] = (double)((LD)p[i] + (LD)gv * dl[i]);
        }
        RayC rc = ray_coeff(q, xl, dl);  // rc.b = f'(t) at the crossing
        LD res = fabsl(rc.c);
        LD res_tol = 2 * r.tol * fabsl(rc.b) + fabsl(rc.a) * r.tol * r.tol
                     + KT * eps * rc.Cabs;
        if (on)
            res_tol += 2 * fabsl(qf(q, y));
        if (rr.zone_id != 0)
            res_tol += 2 * fabsl(rc.a) * (LD)gv * gv;
        if (res_tol > 0)
            g_calib.resid = std::max(g_calib.resid,
                                     (double)(res / (res_tol / KT)));
        if (res > res_tol)
            return log.fail("point at returned distance " + fmt(gv)
                            + " is off the surface: |f| = " + fmt(res)
                            + " > " + fmt(res_tol));
        ++verified;

        // sense on both sides
        LD gap = fabsl(r.t);
        for (auto const& o : rr.refs)
            if (&o != &r)
                gap = std::min(gap, fabsl(o.t - r.t));
        LD pmax = std::max({fabsl((LD)p[0]), fabsl((LD)p[1]),
                            fabsl((LD)p[2])});
        // position rounding (eps |x|) acts through the full gradient
        LD gx[3], gxabs[3];
        qgrad(q, xl, gx, gxabs);
        LD lo = 8 * (r.tol + r.slack)
                + 16 * eps * (pmax + fabsl(r.t)) * norm3(gx) / fabsl(rc.b);
        LD hi = gap / 4;
        if (lo < hi && lo > 0)
        {
            LD eta = lo * powl(hi / lo, (LD)c.unit16());
            double xm[3], xp[3];
            for (int i = 0; i < 3; ++i)
            {
                xm[i] = (double)((LD)p[i] + (r.t - eta) * dl[i]);
                xp[i] = (double)((LD)p[i] + (r.t + eta) * dl[i]);
            }
            LD ym[3], yp[3];
            to_local(q, xm, ym);
            to_local(q, xp, yp);
            LD fm = qf(q, ym), fp = qf(q, yp);
            LD nm = KT * eps * qfabs(q, ym), np = KT * eps * qfabs(q, yp);
            if (fabsl(fm) > nm && fabsl(fp) > np)
            {
                if ((fm > 0) == (fp > 0))
                {
                    log.count("flip_oracle_same_sign");
                    if (std::getenv("C12_DEBUG"))
                        std::fprintf(stderr,
                                     "SAMESIGN %s %s on=%d t=%.17Lg tol=%.3Lg "
                                     "eta=%.3Lg gap=%.3Lg fm=%.3Lg fp=%.3Lg "
                                     "nm=%.3Lg got=%.17g\n",
                                     kname, rr.zone, int(on), r.t, r.tol, eta,
                                     gap, fm, fp, nm, gv);
                }
                else
                {
                    SignedSense sm = s.calc_sense(Real3{xm[0], xm[1], xm[2]});
                    SignedSense sp = s.calc_sense(Real3{xp[0], xp[1], xp[2]});
                    if (int(sm) != (fm > 0 ? 1 : -1)
                        || int(sp) != (fp > 0 ? 1 : -1))
                        return log.fail(
                            "sense does not flip across the crossing at t = "
                            + fmt(r.t) + " (eta " + fmt(eta) + "): before "
                            + std::to_string(int(sm)) + " (f = " + fmt(fm)
                            + "), after " + std::to_string(int(sp))
                            + " (f = " + fmt(fp) + ")");
                    log.count("flip_checked");
                }
            }
            else
                log.count("flip_in_noise");
        }
        else
            log.count("flip_no_room");

        // normal at the crossing
        LD cosang = 1;
        if (!check_normal(xd, "crossing", &cosang))
            return Verdict::violation;
        if (fabsl(cosang) < 0.999L)
            oblique = true;
    }
    log.count("crossings_verified", verified);
    log.label(got.empty() ? "n0" : got.size() == 1 ? "n1" : "n2");
    if (verified > 0 && oblique)
        log.nontrivial = true;
    return Verdict::pass;
}

//---------------------------------------------------------------------------//
// Surface generators
//---------------------------------------------------------------------------//
template<Axis T>
Verdict k_plane_aligned(CaseCtx& cx)
{
    Choices& c = cx.c;
    double pos = coord(c, 1e-3, 1e3, 0.1);
    cx.log.mix(pos);
    cx.log.d("position", pos);
    PlaneAligned<T> s(pos);
    if (s.position() != pos)
        return cx.log.fail("PlaneAligned::position() != constructor value");
    Quad q;
    q.G[to_int(T)] = 1;
    q.J = -(LD)s.position();
    Geom geo;
    geo.centre[to_int(T)] = pos;
    geo.L = c.log_uniform(1e-2, 1e2);
    static char const* names[] = {"px", "py", "pz"};
    return check_quadric(s, q, SK::linear, to_int(T), geo, names[to_int(T)],
                         cx);
}

Verdict k_plane(CaseCtx& cx)
{
    Choices& c = cx.c;
    LD n[3];
    unit_ld(c, n);
    if (c.boolean(0.25))
    {
        // nearly axis aligned
        int k = int(c.int_in(0, 2));
        LD e = c.log_uniform(1e-12, 1e-2);
        for (int i = 0; i < 3; ++i)
            n[i] = e * n[i] + (i == k ? 1 : 0);
    }
    LD nn = norm3(n);
    Real3 nd{double(n[0] / nn), double(n[1] / nn), double(n[2] / nn)};
    double d = coord(c, 1e-3, 1e3, 0.1);
    for (int i = 0; i < 3; ++i)
        cx.log.mix(nd[i]);
    cx.log.mix(d);
    cx.log.dv("normal", nd.data(), 3);
    cx.log.d("d", d);
    Plane s(nd, d);
    Quad q;
    Geom geo;
    for (int i = 0; i < 3; ++i)
    {
        q.G[i] = s.normal()[i];
        geo.centre[i] = (LD)d * nd[i];
    }
    q.J = -(LD)s.displacement();
    geo.L = c.log_uniform(1e-2, 1e2);
    return check_quadric(s, q, SK::linear, 0, geo, "p", cx);
}

bool sq_matches(double stored, double v)
{
    LD e = (LD)v * v;
    return fabsl((LD)stored - e) <= 2 * eps * e;
}

template<Axis T>
Verdict k_cyl_centered(CaseCtx& cx)
{
    Choices& c = cx.c;
    double r = c.log_uniform(1e-3, 1e3);
    cx.log.mix(r);
    cx.log.d("radius", r);
    CylCentered<T> s(r);
    if (!sq_matches(s.radius_sq(), r))
        return cx.log.fail("CylCentered radius_sq != r^2");
    Quad q;
    for (int i = 0; i < 3; ++i)
        q.A[i] = (i == to_int(T)) ? 0 : 1;
    q.J = -(LD)s.radius_sq();
    Geom geo;
    geo.L = r;
    static char const* names[] = {"cxc", "cyc", "czc"};
    return check_quadric(s, q, SK::cyl, to_int(T), geo, names[to_int(T)], cx);
}

template<Axis T>
Verdict k_cyl_aligned(CaseCtx& cx)
{
    Choices& c = cx.c;
    Real3 o{coord(c, 1e-3, 1e3, 0.1), coord(c, 1e-3, 1e3, 0.1),
            coord(c, 1e-3, 1e3, 0.1)};
    double r = c.log_uniform(1e-3, 1e3);
    for (int i = 0; i < 3; ++i)
        cx.log.mix(o[i]);
    cx.log.mix(r);
    cx.log.dv("origin", o.data(), 3);
    cx.log.d("radius", r);
    CylAligned<T> s(o, r);
    if (!sq_matches(s.radius_sq(), r))
        return cx.log.fail("CylAligned radius_sq != r^2");
    Real3 so = s.calc_origin();
    Quad q;
    Geom geo;
    for (int i = 0; i < 3; ++i)
    {
        bool ax = (i == to_int(T));
        if (so[i] != (ax ? 0.0 : o[i]))
            return cx.log.fail("CylAligned::calc_origin() differs from input");
        q.A[i] = ax ? 0 : 1;
        q.o[i] = so[i];
        geo.centre[i] = o[i];
    }
    q.J = -(LD)s.radius_sq();
    geo.L = r;
    static char const* names[] = {"cx", "cy", "cz"};
    return check_quadric(s, q, SK::cyl, to_int(T), geo, names[to_int(T)], cx);
}

Verdict k_sphere_centered(CaseCtx& cx)
{
    double r = cx.c.log_uniform(1e-3, 1e3);
    cx.log.mix(r);
    cx.log.d("radius", r);
    SphereCentered s(r);
    if (!sq_matches(s.radius_sq(), r))
        return cx.log.fail("SphereCentered radius_sq != r^2");
    Quad q;
    q.A[0] = q.A[1] = q.A[2] = 1;
    q.J = -(LD)s.radius_sq();
    Geom geo;
    geo.L = r;
    return check_quadric(s, q, SK::sphere, 0, geo, "sc", cx);
}

Verdict k_sphere(CaseCtx& cx)
{
    Choices& c = cx.c;
    Real3 o{coord(c, 1e-3, 1e3, 0.1), coord(c, 1e-3, 1e3, 0.1),
            coord(c, 1e-3, 1e3, 0.1)};
    double r = c.log_uniform(1e-3, 1e3);
    for (int i = 0; i < 3; ++i)
        cx.log.mix(o[i]);
    cx.log.mix(r);
    cx.log.dv("origin", o.data(), 3);
    cx.log.d("radius", r);
    Sphere s(o, r);
    if (!sq_matches(s.radius_sq(), r))
        return cx.log.fail("Sphere radius_sq != r^2");
    Quad q;
    Geom geo;
    for (int i = 0; i < 3; ++i)
    {
        if (s.origin()[i] != o[i])
            return cx.log.fail("Sphere::origin() differs from input");
        q.A[i] = 1;
        q.o[i] = o[i];
        geo.centre[i] = o[i];
    }
    q.J = -(LD)s.radius_sq();
    geo.L = r;
    return check_quadric(s, q, SK::sphere, 0, geo, "s", cx);
}

template<Axis T>
Verdict k_cone(CaseCtx& cx)
{
    Choices& c = cx.c;
    Real3 o{coord(c, 1e-3, 1e3, 0.1), coord(c, 1e-3, 1e3, 0.1),
            coord(c, 1e-3, 1e3, 0.1)};
    double tang = c.log_uniform(1e-3, 1e3);
    for (int i = 0; i < 3; ++i)
        cx.log.mix(o[i]);
    cx.log.mix(tang);
    cx.log.dv("origin", o.data(), 3);
    cx.log.d("tangent", tang);
    ConeAligned<T> s(o, tang);
    if (!sq_matches(s.tangent_sq(), tang))
        return cx.log.fail("ConeAligned tangent_sq != tangent^2 (tangent "
                           + fmt(tang) + ", stored " + fmt(s.tangent_sq())
                           + ")");
    Quad q;
    Geom geo;
    for (int i = 0; i < 3; ++i)
    {
        if (s.origin()[i] != o[i])
            return cx.log.fail("ConeAligned::origin() differs from input");
        q.A[i] = (i == to_int(T)) ? -(LD)s.tangent_sq() : 1;
        q.o[i] = o[i];
        geo.centre[i] = o[i];
    }
    geo.L = c.log_uniform(1e-2, 1e2);
    static char const* names[] = {"kx", "ky", "kz"};
    return check_quadric(s, q, SK::general, to_int(T), geo, names[to_int(T)],
                         cx);
}

// Random rotation matrix (long double) from a quaternion drawn from choices
void gen_rotation(Choices& c, LD R[3][3])
{
    LD qv[4];
    LD n = 0;
    for (int i = 0; i < 4; ++i)
    {
        qv[i] = c.real_in(-1, 1);
        n += qv[i] * qv[i];
    }
    if (n < 1e-6L)
    {
        qv[0] = 1;
        qv[1] = qv[2] = qv[3] = 0;
        n = 1;
    }
    n = sqrtl(n);
    LD w = qv[0] / n, x = qv[1] / n, yy = qv[2] / n, z = qv[3] / n;
    R[0][0] = 1 - 2 * (yy * yy + z * z);
    R[0][1] = 2 * (x * yy - z * w);
    R[0][2] = 2 * (x * z + yy * w);
    R[1][0] = 2 * (x * yy + z * w);
    R[1][1] = 1 - 2 * (x * x + z * z);
    R[1][2] = 2 * (yy * z - x * w);
    R[2][0] = 2 * (x * z - yy * w);
    R[2][1] = 2 * (yy * z + x * w);
    R[2][2] = 1 - 2 * (x * x + yy * yy);
}

// Structured quadric: canonical shape with semi-axes, centre, optional
// rotation; returns coefficients (long double) of the expanded form
struct Coef10
{
    LD A[3], D[3], G[3], J;
};

void gen_structured(Choices& c, bool rotate, Coef10& out, Geom& geo,
                    CaseLog& log)
{
    int shape = int(c.int_in(0, 8));
    int perm = int(c.int_in(0, 2));
    log.mix(shape);
    log.mix(perm);
    log.d("shape", shape);
    static int const sig[9][3] = {{1, 1, 1},
                                  {1, 1, -1},
                                  {1, 1, -1},
                                  {1, 1, -1},
                                  {1, 1, 0},
                                  {1, 1, 0},
                                  {1, -1, 0},
                                  {1, -1, 0},
                                  {1, 0, 0}};
    static int const kconst[9] = {-1, -1, 1, 0, -1, 0, 0, -1, 0};
    static int const linw[9] = {0, 0, 0, 0, 0, -1, -1, 0, -1};
    LD sax[3], cc[3];
    double s0 = c.log_uniform(1e-2, 1e2);
    for (int i = 0; i < 3; ++i)
    {
        sax[i] = (i > 0 && c.boolean(0.3)) ? s0 : c.log_uniform(1e-2, 1e2);
        if (i == 0)
            sax[i] = s0;
    }
    for (int i = 0; i < 3; ++i)
        cc[i] = coord(c, 1e-3, 1e3, 0.15);
    LD kappa = c.signed_log_uniform(1e-2, 1e2);
    LD a[3], l[3];
    for (int i = 0; i < 3; ++i)
    {
        int j = (i + perm) % 3;
        a[j] = kappa * sig[shape][i] / (sax[i] * sax[i]);
        l[j] = (i == 2) ? kappa * linw[shape] / sax[i] : 0;
    }
    if (shape == 8)
    {
        // parabolic cylinder: the linear term must be on a zero-A axis
        // other than the translation-invariant one: put it on local axis 1
        int j1 = (1 + perm) % 3, j2 = (2 + perm) % 3;
        l[j1] = l[j2];
        l[j2] = 0;
    }
    LD M[3][3] = {{a[0], 0, 0}, {0, a[1], 0}, {0, 0, a[2]}};
    LD lv[3] = {l[0], l[1], l[2]};
    if (rotate)
    {
        LD R[3][3];
        gen_rotation(c, R);
        LD T[3][3];
        for (int i = 0; i < 3; ++i)
            for (int j = 0; j < 3; ++j)
                T[i][j] = R[i][j] * a[j];
        for (int i = 0; i < 3; ++i)
        {
            for (int j = 0; j < 3; ++j)
            {
                M[i][j] = 0;
                for (int k = 0; k < 3; ++k)
                    M[i][j] += T[i][k] * R[j][k];
            }
            lv[i] = R[i][0] * l[0] + R[i][1] * l[1] + R[i][2] * l[2];
        }
    }
    for (int i = 0; i < 3; ++i)
        out.A[i] = M[i][i];
    out.D[0] = 2 * M[0][1];
    out.D[1] = 2 * M[1][2];
    out.D[2] = 2 * M[2][0];
    LD jj = kappa * kconst[shape];
    for (int i = 0; i < 3; ++i)
    {
        LD mc = M[i][0] * cc[0] + M[i][1] * cc[1] + M[i][2] * cc[2];
        out.G[i] = -2 * mc + lv[i];
        jj += cc[i] * mc - lv[i] * cc[i];
    }
    out.J = jj;
    for (int i = 0; i < 3; ++i)
        geo.centre[i] = cc[i];
    geo.L = cbrtl(sax[0] * sax[1] * sax[2]);
}

Verdict k_simple_quadric(CaseCtx& cx)
{
    Choices& c = cx.c;
    Real3 A, G;
    double J;
    Geom geo;
    bool structured = c.boolean(0.6);
    if (structured)
    {
        Coef10 k;
        gen_structured(c, false, k, geo, cx.log);
        for (int i = 0; i < 3; ++i)
        {
            A[i] = (double)k.A[i];
            G[i] = (double)k.G[i];
        }
        J = (double)k.J;
    }
    else
    {
        for (int i = 0; i < 3; ++i)
            A[i] = coord(c, 1e-3, 1e3, 0.25);
        for (int i = 0; i < 3; ++i)
            G[i] = coord(c, 1e-3, 1e3, 0.25);
        J = coord(c, 1e-3, 1e3, 0.15);
        geo.L = c.log_uniform(1e-2, 1e2);
    }
    bool any = false;
    for (int i = 0; i < 3; ++i)
    {
        cx.log.mix(A[i]);
        cx.log.mix(G[i]);
        any = any || A[i] != 0 || G[i] != 0;
    }
    cx.log.mix(J);
    cx.log.dv("abc", A.data(), 3);
    cx.log.dv("def", G.data(), 3);
    cx.log.d("g", J);
    if (!any)
        return Verdict::trivial;  // CELER_EXPECT of the constructor
    SimpleQuadric s(A, G, J);
    Quad q;
    for (int i = 0; i < 3; ++i)
    {
        if (s.second()[i] != A[i] || s.first()[i] != G[i])
            return cx.log.fail("SimpleQuadric accessors differ from input");
        q.A[i] = A[i];
        q.G[i] = G[i];
    }
    if (s.zeroth() != J)
        return cx.log.fail("SimpleQuadric::zeroth differs from input");
    q.J = J;
    cx.log.label(structured ? "sq-structured" : "sq-raw");
    return check_quadric(s, q, SK::general, 0, geo, "sq", cx);
}

Verdict k_general_quadric(CaseCtx& cx)
{
    Choices& c = cx.c;
    Real3 A, D, G;
    double J;
    Geom geo;
    bool structured = c.boolean(0.6);
    if (structured)
    {
        Coef10 k;
        gen_structured(c, true, k, geo, cx.log);
        for (int i = 0; i < 3; ++i)
        {
            A[i] = (double)k.A[i];
            D[i] = (double)k.D[i];
            G[i] = (double)k.G[i];
        }
        J = (double)k.J;
    }
    else
    {
        for (int i = 0; i < 3; ++i)
            A[i] = coord(c, 1e-3, 1e3, 0.25);
        for (int i = 0; i < 3; ++i)
            D[i] = coord(c, 1e-3, 1e3, 0.25);
        for (int i = 0; i < 3; ++i)
            G[i] = coord(c, 1e-3, 1e3, 0.25);
        J = coord(c, 1e-3, 1e3, 0.15);
        geo.L = c.log_uniform(1e-2, 1e2);
    }
    bool any = false;
    for (int i = 0; i < 3; ++i)
    {
        cx.log.mix(A[i]);
        cx.log.mix(D[i]);
        cx.log.mix(G[i]);
        any = any || A[i] != 0 || D[i] != 0 || G[i] != 0;
    }
    cx.log.mix(J);
    cx.log.dv("abc", A.data(), 3);
    cx.log.dv("def", D.data(), 3);
    cx.log.dv("ghi", G.data(), 3);
    cx.log.d("j", J);
    if (!any)
        return Verdict::trivial;
    GeneralQuadric s(A, D, G, J);
    Quad q;
    for (int i = 0; i < 3; ++i)
    {
        if (s.second()[i] != A[i] || s.cross()[i] != D[i]
            || s.first()[i] != G[i])
            return cx.log.fail("GeneralQuadric accessors differ from input");
        q.A[i] = A[i];
        q.D[i] = D[i];
        q.G[i] = G[i];
    }
    if (s.zeroth() != J)
        return cx.log.fail("GeneralQuadric::zeroth differs from input");
    q.J = J;
    cx.log.label(structured ? "gq-structured" : "gq-raw");
    return check_quadric(s, q, SK::general, 0, geo, "gq", cx);
}

Verdict k_involute(CaseCtx& cx);

}  // namespace

Verdict run_case(Choices& c, CaseLog& log)
{
    CaseCtx cx{c, log};
    // px py pz p cxc cyc czc cx cy cz sc s kx ky kz sq gq inv
    int kind = int(c.pick(
        {2, 2, 2, 5, 2, 2, 2, 3, 3, 3, 4, 6, 5, 5, 5, 12, 14, 14}));
    log.mix(kind);
    log.d("kind", kind);
    switch (kind)
    {
        case 0: return k_plane_aligned<Axis::x>(cx);
        case 1: return k_plane_aligned<Axis::y>(cx);
        case 2: return k_plane_aligned<Axis::z>(cx);
        case 3: return k_plane(cx);
        case 4: return k_cyl_centered<Axis::x>(cx);
        case 5: return k_cyl_centered<Axis::y>(cx);
        case 6: return k_cyl_centered<Axis::z>(cx);
        case 7: return k_cyl_aligned<Axis::x>(cx);
        case 8: return k_cyl_aligned<Axis::y>(cx);
        case 9: return k_cyl_aligned<Axis::z>(cx);
        case 10: return k_sphere_centered(cx);
        case 11: return k_sphere(cx);
        case 12: return k_cone<Axis::x>(cx);
        case 13: return k_cone<Axis::y>(cx);
        case 14: return k_cone<Axis::z>(cx);
        case 15: return k_simple_quadric(cx);
        case 16: return k_general_quadric(cx);
        default: return k_involute(cx);
    }
}

namespace
{
//---------------------------------------------------------------------------//
// INVOLUTE
//
// Reference (in the frame where the curve is counter-clockwise: x mirrored
// for Chirality::right, origin subtracted, A = stored displacement angle):
//   C(t) = r_b (cos(t+A) + t sin(t+A),  sin(t+A) - t cos(t+A)),  tmin<=t<=tmax
// Line P + s (u,v), |(u,v)| = 1:
//   F(t) = (C(t) - P) x (u,v) = 0,   F'(t) = r_b t (cos(t+A) v - sin(t+A) u)
// F is monotone between consecutive zeros of F' (spacing pi), so every root is
// bracketed exactly.  Documented code tolerances (InvoluteSolver.hh): root
// function converged to r_b*1e-8; with SurfaceState::on distances below
// r_b*1e-6 are dropped.
//
// Sense (Involute::calc_sense doc): with t_p = sqrt(rho^2/r_b^2 - 1) and the
// displacement angle a' of the involute through the point, the point is
// inside iff tmin <= t_p <= tmax and 0 < (a' - A mod 2pi) < tmax - t_p.
struct InvRef
{
    LD rb, A, tmin, tmax;
    void point(LD t, LD c[2]) const
    {
        LD s = sinl(t + A), co = cosl(t + A);
        c[0] = rb * (co + t * s);
        c[1] = rb * (s - t * co);
    }
    LD F(LD t, LD const P[2], LD u, LD v) const
    {
        LD c[2];
        point(t, c);
        return (c[0] - P[0]) * v - (c[1] - P[1]) * u;
    }
    // sine of the angle between the curve tangent and the line direction
    LD sinphi(LD t, LD u, LD v) const
    {
        return cosl(t + A) * v - sinl(t + A) * u;
    }
};

constexpr LD two_pi = 6.28318530717958647692528676655900577L;

struct InvSense
{
    int sense;  // -1 inside, +1 outside
    bool ok;  // away from every sense boundary (margins below)
};

// Margins: radial 1e-9 (relative, on t^2), angular 1e-6 rad: calc_sense goes
// through acos(), whose error near +-1 is ~sqrt(eps) = 1.5e-8 rad.
InvSense inv_sense(InvRef const& r, LD X, LD Y)
{
    LD q = (X * X + Y * Y) / (r.rb * r.rb);
    LD tp2 = q - 1;
    LD mr = 1e-9L * (1 + q);
    bool ok = !(fabsl(tp2 - r.tmin * r.tmin) < mr
                || fabsl(tp2 - r.tmax * r.tmax) < mr);
    if (tp2 < r.tmin * r.tmin || tp2 > r.tmax * r.tmax)
        return {+1, ok};
    if (tp2 < 1e-8L)
        return {+1, false};
    LD tp = sqrtl(tp2);
    LD theta = atan2l(Y, X) + atanl(tp);
    LD psi = fmodl(theta - tp - r.A, two_pi);
    if (psi < 0)
        psi += two_pi;
    LD width = r.tmax - tp;
    LD ma = 1e-6L * (1 + tp + fabsl(r.A));
    if (psi < ma || two_pi - psi < ma || fabsl(psi - width) < ma)
        ok = false;
    return {(psi > 0 && psi < width) ? -1 : +1, ok};
}

// Input class of known finding F14: stored displacement angle A < 0
// (clockwise involute built with a > pi: A = pi - a), reference says inside,
// and the tangent angle reduced to [0, 2pi) exceeds tmax + A: calc_sense only
// ever adds multiples of 2pi (max(0, floor(..))), so the branch theta - 2pi
// that contains the inside region is never taken and 'outside' is returned.
bool f14_class(InvRef const& r, LD X, LD Y)
{
    if (!(r.A < 0))
        return false;
    LD tp2 = (X * X + Y * Y) / (r.rb * r.rb) - 1;
    if (tp2 <= 0)
        return false;
    LD th = fmodl(atan2l(Y, X) + atanl(sqrtl(tp2)), two_pi);
    if (th < 0)
        th += two_pi;
    return th > r.tmax + r.A;
}

Verdict k_involute(CaseCtx& cx)
{
    Choices& c = cx.c;
    CaseLog& log = cx.log;
    using Real2 = Involute::Real2;

    //// parameters (domain: Involute constructor + orangeinp::Involute) ////
    Real2 org{coord(c, 1e-2, 1e2, 0.35), coord(c, 1e-2, 1e2, 0.35)};
    double rb = c.log_uniform(1e-2, 1e2);
    double a;
    switch (c.pick({70, 10, 10, 10}))
    {
        case 1: a = 0; break;
        case 2: a = (double)(two_pi / 4); break;
        case 3: a = (double)(two_pi / 2); break;
        default: a = c.real_in(0, 6.283185); break;
    }
    bool right = c.boolean();
    double tmin = c.boolean(0.2) ? 0.0 : c.log_uniform(1e-2, 10);
    double tmax = tmin + c.real_in(0.05, 6.2769);  // < tmin + 2 pi
    for (double v : {org[0], org[1], rb, a, tmin, tmax})
        log.mix(v);
    log.mix(int(right));
    log.dv("origin", org.data(), 2);
    log.d("r_b", rb);
    log.d("a", a);
    log.d("right", right);
    log.d("tmin", tmin);
    log.d("tmax", tmax);
    Involute s(org, rb, a, right ? Chirality::right : Chirality::left, tmin,
               tmax);
    // stored data
    {
        LD aexp = right ? two_pi / 2 - (LD)a : (LD)a;
        if (s.r_b() != rb || s.tmin() != tmin || s.tmax() != tmax
            || s.origin()[0] != org[0] || s.origin()[1] != org[1]
            || (s.sign() == Chirality::right) != right
            || fabsl((LD)s.displacement_angle() - aexp) > 8 * eps)
            return log.fail("Involute accessors differ from the constructor "
                            "arguments");
        Involute s2(s.data());
        auto d1 = s.data();
        auto d2 = s2.data();
        for (int i = 0; i < 6; ++i)
            if (d1[i] != d2[i])
                return log.fail("Involute data() does not round-trip");
    }
    InvRef ref{(LD)rb, (LD)s.displacement_angle(), (LD)tmin, (LD)tmax};
    LD const mir = right ? -1 : 1;

    //// position ////
    double p[3];
    bool on = false;
    LD t0 = -1;  // curve parameter when on / near
    char const* pclass;
    {
        int mode = int(c.pick({30, 15, 35, 10, 10}));
        LD X, Y;
        if (mode <= 1)
        {
            t0 = (LD)tmin + ((LD)tmax - tmin) * (LD)c.real_in(1e-3, 0.999);
            LD cc[2];
            ref.point(t0, cc);
            X = cc[0];
            Y = cc[1];
            pclass = "pos-on";
            on = true;
            if (mode == 1)
            {
                LD delta = (LD)c.signed_log_uniform(1e-9, 1e-1) * rb;
                X += delta * sinl(t0 + ref.A);
                Y -= delta * cosl(t0 + ref.A);
                pclass = "pos-near";
                on = false;
            }
        }
        else
        {
            LD rho;
            if (mode == 2)
            {
                LD t = (LD)tmin + ((LD)tmax - tmin) * (LD)c.unit32();
                rho = rb * sqrtl(1 + t * t);
                pclass = "pos-annulus";
            }
            else if (mode == 3)
            {
                rho = rb * sqrtl(1 + (LD)tmax * tmax)
                      * (LD)c.log_uniform(1.0, 100.0);
                pclass = "pos-outer";
            }
            else
            {
                rho = rb * sqrtl(1 + (LD)tmin * tmin) * (LD)c.real_in(0, 1);
                pclass = "pos-inner";
            }
            LD phi = two_pi * (LD)c.unit32();
            X = rho * cosl(phi);
            Y = rho * sinl(phi);
        }
        p[0] = (double)((LD)org[0] + mir * X);
        p[1] = (double)((LD)org[1] + Y);
        p[2] = coord(c, 1e-2, 1e2, 0.3);
    }
    // oracle-frame start point from the rounded doubles
    LD const P[2] = {mir * ((LD)p[0] - org[0]), (LD)p[1] - org[1]};

    //// direction ////
    double d[3];
    char const* dclass;
    {
        int mode = int(c.pick({35, 20, 5, 25, 15}));
        LD v3[3];
        unit_ld(c, v3);
        dclass = "dir-uniform";
        if (mode == 1)
        {
            v3[2] = 0;
            dclass = "dir-inplane";
        }
        else if (mode == 2)
        {
            v3[0] = v3[1] = 0;
            v3[2] = c.boolean() ? -1 : 1;
            dclass = "dir-zaxis";
        }
        else if (mode == 3)
        {
            // aim at a point of the curve
            LD t1 = (LD)tmin + ((LD)tmax - tmin) * (LD)c.unit32();
            LD cc[2];
            ref.point(t1, cc);
            LD dx = cc[0] - P[0], dy = cc[1] - P[1];
            LD n = sqrtl(dx * dx + dy * dy);
            if (n > 0)
            {
                LD beta = c.boolean(0.4) ? 0.0L : (LD)c.real_in(-1.4, 1.4);
                v3[0] = mir * cosl(beta) * dx / n;
                v3[1] = cosl(beta) * dy / n;
                v3[2] = sinl(beta);
                dclass = "dir-aimed";
            }
        }
        else if (mode == 4 && t0 >= 0)
        {
            // along the curve tangent at the start parameter (+ perturbation)
            LD e = c.boolean(0.3) ? 0.0L : (LD)c.signed_log_uniform(1e-9, 1e-1);
            LD sg = c.boolean() ? -1 : 1;
            LD tx = cosl(t0 + ref.A), ty = sinl(t0 + ref.A);
            v3[0] = mir * sg * (tx + e * ty);
            v3[1] = sg * (ty - e * tx);
            v3[2] = 0;
            dclass = "dir-tangent";
        }
        LD n = norm3(v3);
        for (int i = 0; i < 3; ++i)
            d[i] = (double)(v3[i] / n);
    }
    for (int i = 0; i < 3; ++i)
    {
        log.mix(p[i]);
        log.mix(d[i]);
    }
    log.dv("pos", p, 3);
    log.dv("dir", d, 3);
    log.d("on", on);
    log.label(on ? "inv/on" : "inv/off");
    log.label(intern(std::string("inv-") + pclass));
    log.label(intern(std::string("inv-") + dclass));
    Real3 const pos{p[0], p[1], p[2]};
    Real3 const dir{d[0], d[1], d[2]};

    //// sense at the start point ////
    {
        InvSense e = inv_sense(ref, P[0], P[1]);
        if (e.ok)
        {
            SignedSense ss = s.calc_sense(pos);
            if (int(ss) != e.sense)
                return log.fail(
                    "involute calc_sense(p) = " + std::to_string(int(ss))
                        + " but reference " + std::to_string(e.sense),
                    (e.sense < 0 && int(ss) > 0 && f14_class(ref, P[0], P[1]))
                        ? "F28-involute-cw-negative-angle-sense"
                        : "");
            log.count("inv_sense_checked");
        }
        else
            log.count("inv_sense_in_margin");
    }

    //// normal at an on-curve start point ////
    auto check_normal = [&](Real3 const& x, LD tt, LD extra,
                            char const* where) -> bool {
        if (tt < 1e-6L)
            return true;
        LD scale = fabsl((LD)org[0]) + fabsl((LD)org[1])
                   + rb * sqrtl(1 + tt * tt);
        LD tol = 64 * eps * (1 + (1 + tt * tt) / tt + fabsl(ref.A))
                 + 8 * eps * scale / (rb * tt) + extra;
        if (tol > 1e-3L)
            return true;
        Real3 n = s.calc_normal(x);
        LD ex[3] = {mir * sinl(tt + ref.A), -cosl(tt + ref.A), 0};
        LD nn = 0;
        for (int i = 0; i < 3; ++i)
        {
            if (std::isnan(n[i]) || fabsl((LD)n[i] - ex[i]) > tol)
            {
                log.fail(std::string("involute calc_normal at ") + where
                         + ": component " + std::to_string(i) + " got "
                         + fmt(n[i]) + " ref " + fmt(ex[i]) + " tol "
                         + fmt(tol));
                return false;
            }
            nn += (LD)n[i] * n[i];
        }
        if (fabsl(nn - 1) > 8 * eps)
        {
            log.fail("involute calc_normal is not unit");
            return false;
        }
        log.count("inv_normal_checked");
        return true;
    };
    if (on && !check_normal(pos, t0, 0, "start point"))
        return Verdict::violation;

    //// reference crossings ////
    LD U = mir * (LD)d[0], V = (LD)d[1];
    LD n2 = sqrtl(U * U + V * V);
    struct IRef
    {
        LD t3, tol3, tcurve, s2, tol2;
        bool required, used;
    };
    std::vector<IRef> refs;
    if (n2 > 0)
    {
        LD u = U / n2, v = V / n2;
        LD lo_all = std::max((LD)0, (LD)tmin - 0.01L);
        LD hi_all = (LD)tmax + 0.01L;
        // break points: zeros of F' (tan(t + A) = v / u)
        LD base = atan2l(v, u) - ref.A;
        std::vector<LD> br{lo_all};
        for (LD k = ceill((lo_all - base) / (two_pi / 2));; k += 1)
        {
            LD tk = base + k * (two_pi / 2);
            if (tk >= hi_all)
                break;
            if (tk > lo_all)
                br.push_back(tk);
        }
        br.push_back(hi_all);
        // (near-)zeros of F at the break points themselves: tangential
        // contact or a crossing exactly at an end of the search range.  The
        // sign of F there is rounding noise, so these are optional.
        for (LD b : br)
        {
            LD fb = ref.F(b, P, u, v);
            if (fabsl(fb) <= 1e-6L * rb * (1 + b))
            {
                LD cc[2];
                ref.point(b, cc);
                LD s2 = (cc[0] - P[0]) * u + (cc[1] - P[1]) * v;
                LD tol2 = rb * (1 + b) * 1e-2L + fabsl(s2) * 1e-2L;
                refs.push_back({s2 / n2, tol2 / n2, b, s2, tol2, false, false});
            }
        }
        for (size_t i = 0; i + 1 < br.size(); ++i)
        {
            LD lo = br[i], hi = br[i + 1];
            LD flo = ref.F(lo, P, u, v), fhi = ref.F(hi, P, u, v);
            if ((flo > 0) == (fhi > 0) && flo != 0 && fhi != 0)
                continue;
            for (int it = 0; it < 90 && hi - lo > 0; ++it)
            {
                LD mid = (lo + hi) / 2;
                if (mid == lo || mid == hi)
                    break;
                LD fm = ref.F(mid, P, u, v);
                if ((fm > 0) == (flo > 0) && fm != 0)
                {
                    lo = mid;
                    flo = fm;
                }
                else
                {
                    hi = mid;
                    fhi = fm;
                }
            }
            LD ts = (lo + hi) / 2;
            LD sp = ref.sinphi(ts, u, v);
            LD cc[2];
            ref.point(ts, cc);
            LD s2 = (cc[0] - P[0]) * u + (cc[1] - P[1]) * v;
            bool fuzzy = fabsl(sp) < 1e-3L || ts < 1e-3L;
            LD dt = fuzzy ? (LD)1 : 4e-8L / (ts * fabsl(sp));
            if (ts < (LD)tmin - dt || ts > (LD)tmax + dt)
                continue;
            bool edge = fabsl(ts - tmin) <= dt || fabsl(ts - tmax) <= dt;
            LD rho = sqrtl(cc[0] * cc[0] + cc[1] * cc[1]);
            LD tol2 = (fuzzy ? rb * (1 + ts) : 4 * rb * 1e-8L / fabsl(sp))
                      + 256 * eps
                            * (fabsl((LD)org[0]) + fabsl((LD)org[1]) + rho
                               + fabsl(s2) + sqrtl(P[0] * P[0] + P[1] * P[1]));
            LD floor_on = on ? rb * 1e-6L : 0;
            if (s2 < floor_on - tol2)
                continue;
            bool req = !fuzzy && !edge && s2 > floor_on + tol2;
            refs.push_back({s2 / n2, tol2 / n2, ts, s2, tol2, req, false});
        }
    }

    // Degenerate aim: the line passes through the cusp C(0) of the full
    // involute to rounding.  Every bracketing root finder starting at t = 0
    // (as the documented algorithm does) then sees a sign that is pure
    // rounding noise; measure-zero configuration, judged optional.
    if (n2 > 0)
    {
        LD f0 = ref.F(0, P, U / n2, V / n2);
        // (also: |F(0)| below the solver's convergence tolerance r_b*1e-8
        // stops its iteration at once with t ~ 0 - documented tolerance)
        if (fabsl(f0) <= std::max(1e-9L * (rb + sqrtl(P[0] * P[0] + P[1] * P[1])),
                                  4e-8L * rb))
        {
            for (auto& r : refs)
                r.required = false;
            log.label("inv-degenerate-cusp-aim");
        }
    }

    //// code ////
    auto got_arr = s.calc_intersections(pos, dir,
                                        on ? SurfaceState::on
                                           : SurfaceState::off);
    std::vector<double> got;
    for (auto v : got_arr)
    {
        if (std::isnan(v))
            return log.fail("involute calc_intersections returned NaN");
        if (v == no_intersection())
            continue;
        if (!(v > 0))
            return log.fail("involute calc_intersections returned "
                            "non-positive distance "
                            + fmt(v));
        got.push_back(v);
    }
    std::sort(got.begin(), got.end());
    log.dv("got", got.data(), int(got.size()));
    auto describe_refs = [&] {
        std::string m = " (refs:";
        for (auto const& r : refs)
            m += " " + fmt(r.t3) + "+-" + fmt(r.tol3) + (r.required ? "!" : "?")
                 + "@t=" + fmt(r.tcurve);
        m += "; got:";
        for (double g : got)
            m += " " + fmt(g);
        return m + ")";
    };
    std::vector<std::pair<double, IRef*>> matched;
    for (double gv : got)
    {
        IRef* best = nullptr;
        LD bestd = 0;
        for (auto& r : refs)
        {
            // (an optional contact/end-point reference may be reported from
            // both adjacent search brackets: tolerate the duplicate)
            if (r.used && r.required)
                continue;
            LD dd = fabsl((LD)gv - r.t3);
            if (dd <= r.tol3 && (!best || dd < bestd))
            {
                best = &r;
                bestd = dd;
            }
        }
        if (!best)
            return log.fail("involute calc_intersections returned " + fmt(gv)
                            + " which matches no crossing of the arc"
                            + describe_refs());
        best->used = true;
        matched.emplace_back(gv, best);
    }
    for (auto const& r : refs)
    {
        if (!(r.required && !r.used))
            continue;
        // Classify: known finding F13 iff the root lies in one of the
        // solver's own search brackets (t_lower = 0, t_upper = beta - a
        // rounded up to a positive multiple of pi, then +pi or +pi/i) whose
        // end values have the SAME sign, i.e. the bracket holds an even
        // number of roots and is skipped.  The bracket sequence is
        // re-enacted here only to name the input class, not to judge.
        bool f13 = false;
        {
            LD u = U / n2, v = V / n2;
            LD const pi = two_pi / 2;
            LD beta = u != 0 ? atanl(-v / u) : (-v < 0 ? -pi / 2 : pi / 2);
            LD tl = 0, tu = beta - ref.A;
            tu += std::max((LD)0, -floorl(tu / pi)) * pi;
            int i = 1;
            for (int guard = 0; tl < (LD)tmax && guard < 200; ++guard)
            {
                LD fl = ref.F(tl, P, u, v), fu = ref.F(tu, P, u, v);
                bool differ = ((fl > 0) - (fl < 0)) != ((fu > 0) - (fu < 0));
                if (r.tcurve > tl && r.tcurve < tu)
                {
                    // number of roots of F inside this bracket (F is
                    // monotone between zeros of F', spaced pi)
                    int nroots = 0;
                    {
                        LD base = atan2l(v, u) - ref.A;
                        LD prev_t = tl, prev_f = fl;
                        for (LD k = ceill((tl - base) / pi);; k += 1)
                        {
                            LD tk = std::min(base + k * pi, tu);
                            if (tk > prev_t)
                            {
                                LD fk = ref.F(tk, P, u, v);
                                if ((fk > 0) != (prev_f > 0))
                                    ++nroots;
                                prev_t = tk;
                                prev_f = fk;
                            }
                            if (tk >= tu)
                                break;
                        }
                    }
                    LD noise = 1e-9L * (rb + sqrtl(P[0] * P[0] + P[1] * P[1]));
                    // even number: bracket skipped; odd number >= 3: only
                    // one of them is located
                    f13 = nroots >= 2
                          && (differ
                              || (fabsl(fl) > noise && fabsl(fu) > noise));
                    break;
                }
                tl = tu;
                if (differ)
                    tu += pi;
                else
                {
                    tu += pi / i;
                    ++i;
                }
            }
        }
        return log.fail("involute: missing crossing at distance " + fmt(r.t3)
                            + describe_refs(),
                        f13 ? "F27-involute-bracket-skips-root-pair" : "");
    }

    //// per-crossing: sense flip and normal ////
    long verified = 0;
    for (auto const& m : matched)
    {
        IRef const& r = *m.second;
        if (!r.required)
            continue;
        ++verified;
        LD eta2 = std::max(16 * r.tol2, 1e-5L * rb * (1 + r.tcurve));
        LD u = U / n2, v = V / n2;
        InvSense em = inv_sense(ref, P[0] + (r.s2 - eta2) * u,
                                P[1] + (r.s2 - eta2) * v);
        InvSense ep = inv_sense(ref, P[0] + (r.s2 + eta2) * u,
                                P[1] + (r.s2 + eta2) * v);
        if (em.ok && ep.ok && em.sense != ep.sense)
        {
            Real3 xm, xp;
            for (int i = 0; i < 3; ++i)
            {
                xm[i] = (double)((LD)p[i] + (r.t3 - eta2 / n2) * (LD)d[i]);
                xp[i] = (double)((LD)p[i] + (r.t3 + eta2 / n2) * (LD)d[i]);
            }
            SignedSense sm = s.calc_sense(xm), sp = s.calc_sense(xp);
            if (int(sm) != em.sense || int(sp) != ep.sense)
            {
                // F14 class: the only wrong one is an inside point reported
                // outside in the negative-angle branch
                bool bad_m = int(sm) != em.sense, bad_p = int(sp) != ep.sense;
                bool k_m = !bad_m
                           || (em.sense < 0 && int(sm) > 0
                               && f14_class(ref, P[0] + (r.s2 - eta2) * u,
                                            P[1] + (r.s2 - eta2) * v));
                bool k_p = !bad_p
                           || (ep.sense < 0 && int(sp) > 0
                               && f14_class(ref, P[0] + (r.s2 + eta2) * u,
                                            P[1] + (r.s2 + eta2) * v));
                return log.fail(
                    "involute sense does not flip across the crossing at "
                    "distance "
                        + fmt(r.t3) + ": before " + std::to_string(int(sm))
                        + " (ref " + std::to_string(em.sense) + "), after "
                        + std::to_string(int(sp)) + " (ref "
                        + std::to_string(ep.sense) + ")",
                    (k_m && k_p) ? "F28-involute-cw-negative-angle-sense"
                                 : "");
            }
            log.count("inv_flip_checked");
        }
        else
            log.count("inv_flip_skipped");
        Real3 xc;
        for (int i = 0; i < 3; ++i)
            xc[i] = (double)((LD)p[i] + (LD)m.first * (LD)d[i]);
        if (!check_normal(xc, r.tcurve, 4 * r.tol2 / (rb * r.tcurve),
                          "crossing"))
            return Verdict::violation;
    }
    log.count("inv_crossings_verified", verified);
    log.label(got.empty()       ? "inv-n0"
              : got.size() == 1 ? "inv-n1"
              : got.size() == 2 ? "inv-n2"
                                : "inv-n3");
    log.nontrivial = verified > 0;
    return Verdict::pass;
}
}  // namespace

bool run_exhaustive(ExhaustiveResult&)
{
    return false;
}

}  // namespace verif
