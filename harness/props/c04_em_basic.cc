// C04 — every discrete interaction conserves energy and yields valid final
// states.  Models that need no bundled data files: Klein-Nishina,
// Moller/Bhabha, e+ annihilation, Bethe-Heitler (LPM on/off), Rayleigh,
// Coulomb (Wentzel), mu/hadron ionisation (BetheBloch, MuBetheBloch, Bragg,
// ICRU73QO), mu bremsstrahlung, relativistic e+- bremsstrahlung (LPM on/off).
#include <algorithm>
#include <array>
#include <cmath>
#include <cstdarg>
#include <cstdlib>
#include <memory>

#include "interactor_fixture.hh"

#include "celeritas/em/distribution/BetheBlochEnergyDistribution.hh"
#include "celeritas/em/distribution/BraggICRU73QOEnergyDistribution.hh"
#include "celeritas/em/distribution/MuBBEnergyDistribution.hh"
#include "celeritas/em/interactor/BetheHeitlerInteractor.hh"
#include "celeritas/em/interactor/CoulombScatteringInteractor.hh"
#include "celeritas/em/interactor/EPlusGGInteractor.hh"
#include "celeritas/em/interactor/KleinNishinaInteractor.hh"
#include "celeritas/em/interactor/MollerBhabhaInteractor.hh"
#include "celeritas/em/interactor/MuBremsstrahlungInteractor.hh"
#include "celeritas/em/interactor/MuHadIonizationInteractor.hh"
#include "celeritas/em/interactor/RayleighInteractor.hh"
#include "celeritas/em/interactor/RelativisticBremInteractor.hh"
#include "celeritas/em/model/BetheBlochModel.hh"
#include "celeritas/em/model/BetheHeitlerModel.hh"
#include "celeritas/em/model/BraggModel.hh"
#include "celeritas/em/model/CoulombScatteringModel.hh"
#include "celeritas/em/model/EPlusGGModel.hh"
#include "celeritas/em/model/ICRU73QOModel.hh"
#include "celeritas/em/model/KleinNishinaModel.hh"
#include "celeritas/em/model/MollerBhabhaModel.hh"
#include "celeritas/em/model/MuBetheBlochModel.hh"
#include "celeritas/em/model/MuBremsstrahlungModel.hh"
#include "celeritas/em/model/RayleighModel.hh"
#include "celeritas/em/model/RelativisticBremModel.hh"
#include "celeritas/em/params/WentzelOKVIParams.hh"

namespace verif
{
char const* const kPropertyId = "C04";
char const* const kHarness = "c04_em_basic";
size_t const kMaxBytes = 48;
char const* const kRule
    = "bytes -> (model, incident particle, material/element/cut-set from a "
      "fixed menu, incident energy over the model's applicability interval "
      "[lower, upper) incl. end points, +-k ulp and documented branch "
      "thresholds, direction incl. axis / near-axis / (0,0,1-k ulp), RNG "
      "seed with optional forced extreme canonical draws, free stack slots in "
      "{0,1,needed-1,needed,ample}); oracle = allocation protocol + long "
      "double energy ledger (2mc^2 per e+) + momentum balance for closed "
      "final states + validity predicate + bounded draws; non-trivial = the "
      "interaction changed the state (or took the explicit failure path)";

namespace
{
using namespace c04;
using Action = Interaction::Action;

enum Kind
{
    k_kn = 0,
    k_moller,
    k_bhabha,
    k_eplusgg,
    k_bh,
    k_bh_lpm,
    k_rayleigh,
    k_coulomb,
    k_bethebloch,
    k_mubethebloch,
    k_bragg,
    k_icru73qo,
    k_mubrems,
    k_relbrem,
    k_relbrem_lpm,
    k_count
};

char const* const kind_name[k_count] = {"klein-nishina",
                                        "moller",
                                        "bhabha",
                                        "eplusgg",
                                        "bethe-heitler",
                                        "bethe-heitler-lpm",
                                        "rayleigh",
                                        "coulomb-wentzel",
                                        "bethe-bloch",
                                        "mu-bethe-bloch",
                                        "bragg",
                                        "icru73qo",
                                        "mu-brems",
                                        "rel-brems",
                                        "rel-brems-lpm"};

struct Models
{
    std::shared_ptr<ImportedProcesses> imported;
    std::shared_ptr<KleinNishinaModel> kn;
    std::shared_ptr<MollerBhabhaModel> mb;
    std::shared_ptr<EPlusGGModel> epgg;
    std::shared_ptr<BetheHeitlerModel> bh, bh_lpm;
    std::shared_ptr<RayleighModel> rayleigh;
    std::shared_ptr<CoulombScatteringModel> coulomb;
    std::shared_ptr<WentzelOKVIParams> wentzel[4];
    std::shared_ptr<BetheBlochModel> bb, bb_proton;
    std::shared_ptr<BraggModel> bragg_proton;
    std::shared_ptr<MuBetheBlochModel> mubb;
    std::shared_ptr<BraggModel> bragg;
    std::shared_ptr<ICRU73QOModel> icru;
    std::shared_ptr<MuBremsstrahlungModel> mubrems;
    std::shared_ptr<RelativisticBremModel> relbrem, relbrem_lpm;
};

std::unique_ptr<World> W;
Models M;

constexpr double e_floor = 1e-6;  // MeV: stand-in for "lower = 0 (exclusive)"
constexpr double e_high = 1e8;  // MeV: detail::high_energy_limit()
constexpr double coulomb_lo = 1e-4;  // MeV: lower bound of the mock xs grid
constexpr double bragg_hi = 0.2;  // MuIonizationProcess::Options defaults
constexpr double bb_hi = 1e3;
constexpr double proton_bragg_hi = 2.0;
constexpr double sb_hi = 1e3;  // detail::seltzer_berger_upper_limit()

Model::SetApplicability
make_applic(std::initializer_list<Pid> ps, double lo, double hi)
{
    Model::SetApplicability s;
    for (Pid p : ps)
    {
        Applicability a;
        a.particle = W->pid[p];
        a.lower = MevEnergy{lo};
        a.upper = MevEnergy{hi};
        s.insert(a);
    }
    return s;
}

}  // namespace

void setup()
{
    setenv("CELER_LOG", "error", 1);
    setenv("CELER_LOG_LOCAL", "error", 1);
    // elements (ElementId = index)
    std::vector<ElemDef> el = {{1, 1.008, "H", 1},
                               {8, 15.999, "O", 16},
                               {13, 26.982, "Al", 27},
                               {19, 39.0983, "K", 39},
                               {29, 63.546, "Cu", 63},
                               {74, 183.84, "W", 184},
                               {82, 207.2, "Pb", 208},
                               {92, 238.029, "U", 238}};
    // materials: mol/cm^3 atom density, element fractions
    std::vector<std::pair<double, std::vector<std::pair<int, double>>>> mats
        = {{0.141, {{4, 1.0}}},  // Cu
           {0.05477, {{6, 1.0}}},  // Pb
           {1e-5, {{3, 1.0}}},  // K vapour
           {1.0, {{1, 0.5}, {5, 0.3}, {6, 0.2}}},  // "PbWO" as in the tests
           {0.167, {{0, 2.0 / 3}, {1, 1.0 / 3}}},  // water
           {0.0803, {{7, 1.0}}},  // U
           {0.1, {{2, 1.0}}}};  // Al
    W = std::make_unique<World>(el, mats);

    auto const& P = *W->particles;
    std::vector<ImportProcess> procs;
    procs.push_back(W->make_import_process(pdg::gamma(),
                                           {},
                                           ImportProcessClass::conversion,
                                           {ImportModelClass::bethe_heitler_lpm}));
    procs.push_back(W->make_import_process(pdg::gamma(),
                                           {},
                                           ImportProcessClass::rayleigh,
                                           {ImportModelClass::livermore_rayleigh}));
    for (auto p : {pdg::electron(), pdg::positron()})
    {
        procs.push_back(
            W->make_import_process(p,
                                   {},
                                   ImportProcessClass::coulomb_scat,
                                   {ImportModelClass::e_coulomb_scattering},
                                   coulomb_lo,
                                   e_high));
        procs.push_back(W->make_import_process(
            p,
            pdg::gamma(),
            ImportProcessClass::e_brems,
            {ImportModelClass::e_brems_sb, ImportModelClass::e_brems_lpm}));
    }
    for (auto p : {pdg::mu_minus(), pdg::mu_plus()})
    {
        procs.push_back(W->make_import_process(p,
                                               pdg::gamma(),
                                               ImportProcessClass::mu_brems,
                                               {ImportModelClass::mu_brems}));
    }
    M.imported = std::make_shared<ImportedProcesses>(std::move(procs));

    ActionId aid{0};
    M.kn = std::make_shared<KleinNishinaModel>(aid, P);
    M.mb = std::make_shared<MollerBhabhaModel>(aid, P);
    M.epgg = std::make_shared<EPlusGGModel>(aid, P);
    M.bh = std::make_shared<BetheHeitlerModel>(aid, P, M.imported, false);
    M.bh_lpm = std::make_shared<BetheHeitlerModel>(aid, P, M.imported, true);
    M.rayleigh
        = std::make_shared<RayleighModel>(aid, P, *W->materials, M.imported);
    M.coulomb = std::make_shared<CoulombScatteringModel>(
        aid, P, *W->materials, M.imported);
    for (int ff = 0; ff < 4; ++ff)
    {
        WentzelOKVIParams::Options o;
        o.is_combined = false;
        o.polar_angle_limit = 0;
        o.form_factor = NuclearFormFactorType(ff);
        M.wentzel[ff] = std::make_shared<WentzelOKVIParams>(W->materials, o);
    }
    M.bb = std::make_shared<BetheBlochModel>(
        aid, P, make_applic({p_mu_minus, p_mu_plus}, bragg_hi, bb_hi));
    M.mubb = std::make_shared<MuBetheBlochModel>(
        aid, P, make_applic({p_mu_minus, p_mu_plus}, bragg_hi, e_high));
    M.bragg = std::make_shared<BraggModel>(
        aid, P, make_applic({p_mu_plus}, 0, bragg_hi));
    M.icru = std::make_shared<ICRU73QOModel>(
        aid, P, make_applic({p_mu_minus}, 0, bragg_hi));
    // hadrons: Bragg below 2 MeV, Bethe-Bloch above (Geant4's proton limits)
    M.bragg_proton = std::make_shared<BraggModel>(
        aid, P, make_applic({p_proton}, 0, proton_bragg_hi));
    M.bb_proton = std::make_shared<BetheBlochModel>(
        aid, P, make_applic({p_proton}, proton_bragg_hi, e_high));
    M.mubrems = std::make_shared<MuBremsstrahlungModel>(aid, P, M.imported);
    M.relbrem = std::make_shared<RelativisticBremModel>(
        aid, P, *W->materials, M.imported, false);
    M.relbrem_lpm = std::make_shared<RelativisticBremModel>(
        aid, P, *W->materials, M.imported, true);
}

namespace
{
// Attach known-finding keys for exactly their input class
Verdict report(CaseLog& log,
               Kind kind,
               CaseInput const& in,
               OracleResult const& o,
               RngPlan const& plan,
               Outcome const& out = Outcome{},
               long double kin_max = 0)
{
    std::string msg = std::string(kind_name[kind]) + ": " + o.msg;
    // delta ray at its kinematic maximum (forward emission): the polar
    // cosine T(E+M+m)/(p_e p_inc) rounds above 1 -> sqrt(1 - c^2) = NaN
    if (o.nan_seen && kin_max > 0 && !out.sec.empty())
    {
        long double Te = out.sec[0].energy.value();
        long double me = W->def.mass[p_electron];
        long double Mp = W->def.mass[in.particle];
        long double Tin = in.energy;
        long double c = Te * (Tin + Mp + me)
                        / (momentum_of(Te, me) * momentum_of(Tin, Mp));
        if (c >= 1 - 16 * eps_d)
            return log.fail(msg, "F21-forward-limit-costheta-nan");
    }
    if (o.nan_seen && in.f8_dir)
        return log.fail(msg, "F8-rotate-nan");
    // rotate() drops the sign of rot[Y] when 0 < sqrt(1 - z^2) < 0.005
    if (o.momentum_failed && in.near_axis && in.dir[1] < 0)
        return log.fail(msg, "F13-rotate-near-z-sinphi-sign");
    if (kind == k_eplusgg && o.momentum_failed && in.energy > 0)
        return log.fail(msg, "F7-eplusgg-momentum");
    if (o.thr_ulp)
        return log.fail(msg, "F20-secondary-below-cut-ulp");
    // secondary energy exceeds the incident energy by rounding
    if (o.neg_ulp)
        return log.fail(msg, "F22-negative-outgoing-energy-ulp");
    (void)plan;
    return log.fail(msg);
}

void describe(CaseLog& log, Kind kind, CaseInput const& in, int free_slots)
{
    log.ds("model", kind_name[kind]);
    log.desc.precision(17);
    log.d("particle", int(in.particle));
    log.d("energy", in.energy);
    if (log.want_desc)
    {
        log.desc.precision(17);
        double d[3] = {in.dir[0], in.dir[1], in.dir[2]};
        log.dv("dir", d, 3);
    }
    log.d("mat", in.mat);
    log.d("elcomp", in.elcomp);
    log.d("cutset", in.cutset);
    log.d("free_slots", free_slots);
}

void mix_input(CaseLog& log, Kind kind, CaseInput const& in, int free_slots)
{
    log.mix(int(kind));
    log.mix(int(in.particle));
    log.mix(in.energy);
    log.mix(in.dir[0]);
    log.mix(in.dir[1]);
    log.mix(in.dir[2]);
    log.mix(in.mat);
    log.mix(in.elcomp);
    log.mix(in.cutset);
    log.mix(free_slots);
}

void gen_material(Choices& c, CaseInput& in)
{
    in.mat = int(c.index(W->num_materials));
    in.elcomp = int(c.index(W->mat_elems[in.mat].size()));
    in.cutset = int(c.pick({4, 3, 2, 1}));
}

// Independent T_max for a heavy projectile on a free electron
long double tmax_heavy(long double T, long double Mp, long double me)
{
    long double tau = T / Mp, r = me / Mp;
    return 2 * me * tau * (tau + 2) / (1 + 2 * (tau + 1) * r + r * r);
}

Verdict evaluate(CaseLog& log,
                 Kind kind,
                 CaseInput const& in,
                 ModelSpec const& spec,
                 OracleOpts const& opts,
                 RngPlan const& plan,
                 int free_slots,
                 int ff);
}  // namespace

Verdict run_case(Choices& c, CaseLog& log)
{
    Kind kind = Kind(c.pick({10, 8, 8, 8, 7, 7, 6, 7, 5, 5, 5, 5, 6, 6, 6}));
    log.label(kind_name[kind]);
    CaseInput in;
    gen_material(c, in);
    auto const& cutv = W->cut[in.cutset][in.mat];
    double const cut_g = cutv[0], cut_e = cutv[1];
    long double const me = W->def.mass[p_electron];

    ModelSpec spec;
    spec.name = kind_name[kind];
    OracleOpts opts;

    // ---- incident particle and energy ------------------------------------
    switch (kind)
    {
        case k_kn: {
            in.particle = p_gamma;
            spec.needed = 1;
            opts.closed = true;
            opts.allow_empty_secondary = true;
            opts.thr[p_electron] = 1e-4;
            in.energy = gen_energy(
                c, log, e_floor, true, e_high, {1e-4, 0.00511, 0.2555, 0.511, 1.022});
            break;
        }
        case k_moller: {
            in.particle = p_electron;
            spec.needed = 1;
            opts.closed = true;
            opts.thr[p_electron] = cut_e;
            in.energy = gen_energy(c,
                                   log,
                                   2 * cut_e,
                                   false,
                                   e_high,
                                   {2 * cut_e, 4 * cut_e, 1.0});
            break;
        }
        case k_bhabha: {
            in.particle = p_positron;
            spec.needed = 1;
            opts.closed = true;
            opts.thr[p_electron] = cut_e;
            in.energy = gen_energy(
                c, log, cut_e, false, e_high, {cut_e, 2 * cut_e, 1.0});
            break;
        }
        case k_eplusgg: {
            in.particle = p_positron;
            spec.needed = 2;
            opts.closed = true;
            if (c.boolean(0.2))
            {
                in.energy = 0;
                log.label("E:at-rest");
            }
            else
                in.energy
                    = gen_energy(c, log, 1e-9, true, e_high, {0.511, 1.022});
            break;
        }
        case k_bh:
        case k_bh_lpm: {
            in.particle = p_gamma;
            spec.needed = 2;
            in.energy = gen_energy(c,
                                   log,
                                   double(2 * me),
                                   true,
                                   e_high,
                                   {2.0, 50.0, 1e5, 1e6});
            break;
        }
        case k_rayleigh: {
            in.particle = p_gamma;
            spec.needed = 0;
            in.energy
                = gen_energy(c, log, e_floor, true, e_high, {1e-3, 0.1, 10});
            break;
        }
        case k_coulomb: {
            in.particle = c.boolean() ? p_positron : p_electron;
            spec.needed = 0;
            in.energy = gen_energy(
                c, log, coulomb_lo, true, e_high, {cut_e, 1.0, 1e3});
            break;
        }
        case k_bethebloch:
        case k_mubethebloch:
        case k_bragg:
        case k_icru73qo: {
            double lo, hi;
            bool lo_incl = true;
            bool proton = (kind == k_bethebloch || kind == k_bragg)
                          && c.boolean(0.35);
            if (proton)
            {
                in.particle = p_proton;
                lo = kind == k_bragg ? 1e-3 : proton_bragg_hi;
                hi = kind == k_bragg ? proton_bragg_hi : e_high;
                log.label("hadron-projectile");
            }
            else if (kind == k_bethebloch)
            {
                in.particle = c.boolean() ? p_mu_plus : p_mu_minus;
                lo = bragg_hi;
                hi = bb_hi;
            }
            else if (kind == k_mubethebloch)
            {
                in.particle = c.boolean() ? p_mu_plus : p_mu_minus;
                lo = bragg_hi;
                hi = e_high;
            }
            else
            {
                in.particle = kind == k_bragg ? p_mu_plus : p_mu_minus;
                lo = 1e-4;
                hi = bragg_hi;
            }
            spec.needed = 1;
            opts.closed = true;
            opts.allow_unchanged = true;
            // the model's own threshold
            double thr = cut_e;
            if (kind == k_bragg || kind == k_icru73qo)
            {
                // documented: lowest_kin_energy * M / m_proton; 1e-7 slack
                // for the value of the proton-mass constant (CODATA year)
                double lowest = (kind == k_icru73qo ? 5e-3 : 2.5e-4)
                                * double(W->def.mass[in.particle])
                                / 938.27208816 * (1 - 1e-7);
                thr = std::min(cut_e, lowest);
            }
            opts.thr[p_electron] = thr;
            // contract: incident energy > min secondary energy
            if (lo <= thr)
            {
                lo = thr;
                lo_incl = false;
            }
            if (!(lo < hi))
                return Verdict::rejected;  // cut above the whole model range
            // energy at which T_max == threshold (unchanged <-> interacting)
            long double Mp = W->def.mass[in.particle];
            double e_thr = double(
                Mp * (sqrtl(1 + thr / (2 * me)) - 1));  // non-rel. estimate
            in.energy = gen_energy(
                c, log, lo, lo_incl, hi, {e_thr, 2 * e_thr, 250.0, 10.0});
            break;
        }
        case k_mubrems: {
            in.particle = c.boolean() ? p_mu_plus : p_mu_minus;
            spec.needed = 1;
            opts.thr[p_gamma] = cut_g;
            in.energy = gen_energy(c,
                                   log,
                                   std::max(cut_g, 1e-3),
                                   false,
                                   e_high,
                                   {cut_g, 2 * cut_g, 1e3});
            break;
        }
        case k_relbrem:
        case k_relbrem_lpm: {
            in.particle = c.boolean() ? p_positron : p_electron;
            spec.needed = 1;
            opts.thr[p_gamma] = cut_g;
            in.energy = gen_energy(c, log, sb_hi, true, e_high, {1e4, 1e6});
            break;
        }
        default: break;
    }
    gen_direction(c, log, in);
    RngPlan plan = gen_rng(c, log);
    int free_slots = gen_free_slots(c, log, spec.needed);
    int ff = int(c.int_in(0, 3));  // Coulomb form factor
    mix_input(log, kind, in, free_slots);
    describe(log, kind, in, free_slots);
    if (kind == k_coulomb)
    {
        log.mix(ff);
        log.d("form_factor", ff);
    }

    Verdict v = evaluate(log, kind, in, spec, opts, plan, free_slots, ff);
    if (v == Verdict::violation
        && (log.finding.empty() || log.finding == "F8-rotate-nan")
        && plan.nforced > 0)
    {
        // Does the violation disappear with the same stream minus the forced
        // extreme canonical draws?  Then it is attributed to them.
        RngPlan plain = plan;
        plain.nforced = 0;
        CaseLog tmp;
        Verdict v2
            = evaluate(tmp, kind, in, spec, opts, plain, free_slots, ff);
        if (v2 != Verdict::violation || !tmp.finding.empty())
            log.finding = std::string("F24-extreme-canonical-draw");
    }
    return v;
}

namespace
{
Verdict evaluate(CaseLog& log,
                 Kind kind,
                 CaseInput const& in,
                 ModelSpec const& spec,
                 OracleOpts const& opts,
                 RngPlan const& plan,
                 int free_slots,
                 int ff)
{
    auto const& cutv = W->cut[in.cutset][in.mat];
    double const cut_g = cutv[0], cut_e = cutv[1];
    long double const me = W->def.mass[p_electron];

    // ---- views -------------------------------------------------------------
    ParticleTrackView particle = W->make_particle(in.particle, in.energy);
    MaterialView material = W->make_material(in.mat);
    CutoffView cutoffs = W->make_cutoff(in.cutset, in.mat);
    ElementComponentId elcomp{ElementComponentId::size_type(in.elcomp)};
    ElementId el_id = material.element_id(elcomp);
    ElementView element = material.make_element_view(elcomp);
    int const z = element.atomic_number().get();
    if (z >= 74)
        log.label("Z:high");
    else if (z <= 8)
        log.label("Z:low");

    // ---- call ---------------------------------------------------------------
    RunResult rr;
    switch (kind)
    {
        case k_kn:
            rr = run_call(*W, log, spec, free_slots, plan, [&](auto& rng, auto& a) {
                KleinNishinaInteractor interact(
                    M.kn->host_ref(), particle, in.dir, a);
                return interact(rng);
            });
            break;
        case k_moller:
        case k_bhabha:
            rr = run_call(*W, log, spec, free_slots, plan, [&](auto& rng, auto& a) {
                MollerBhabhaInteractor interact(
                    M.mb->host_ref(), particle, cutoffs, in.dir, a);
                return interact(rng);
            });
            break;
        case k_eplusgg:
            rr = run_call(*W, log, spec, free_slots, plan, [&](auto& rng, auto& a) {
                EPlusGGInteractor interact(
                    M.epgg->host_ref(), particle, in.dir, a);
                return interact(rng);
            });
            break;
        case k_bh:
        case k_bh_lpm:
            rr = run_call(*W, log, spec, free_slots, plan, [&](auto& rng, auto& a) {
                BetheHeitlerInteractor interact(
                    (kind == k_bh ? M.bh : M.bh_lpm)->host_ref(),
                    particle,
                    in.dir,
                    a,
                    material,
                    element);
                return interact(rng);
            });
            if (kind == k_bh_lpm && in.energy > 1e5)
                log.label("lpm-regime");
            break;
        case k_rayleigh:
            rr = run_call(*W, log, spec, free_slots, plan, [&](auto& rng, auto&) {
                RayleighInteractor interact(
                    M.rayleigh->host_ref(), particle, in.dir, el_id);
                return interact(rng);
            });
            break;
        case k_coulomb: {
            IsotopeView target
                = element.make_isotope_view(IsotopeComponentId{0});
            rr = run_call(*W, log, spec, free_slots, plan, [&](auto& rng, auto&) {
                CoulombScatteringInteractor interact(M.coulomb->host_ref(),
                                                     M.wentzel[ff]->host_ref(),
                                                     particle,
                                                     in.dir,
                                                     material,
                                                     target,
                                                     el_id,
                                                     cutoffs);
                return interact(rng);
            });
            break;
        }
        case k_bethebloch:
            rr = run_call(*W, log, spec, free_slots, plan, [&](auto& rng, auto& a) {
                MuHadIonizationInteractor<BetheBlochEnergyDistribution> interact(
                    (in.particle == p_proton ? M.bb_proton : M.bb)->host_ref(),
                    particle,
                    cutoffs,
                    in.dir,
                    a);
                return interact(rng);
            });
            break;
        case k_mubethebloch:
            rr = run_call(*W, log, spec, free_slots, plan, [&](auto& rng, auto& a) {
                MuHadIonizationInteractor<MuBBEnergyDistribution> interact(
                    M.mubb->host_ref(), particle, cutoffs, in.dir, a);
                return interact(rng);
            });
            break;
        case k_bragg:
        case k_icru73qo:
            rr = run_call(*W, log, spec, free_slots, plan, [&](auto& rng, auto& a) {
                MuHadIonizationInteractor<BraggICRU73QOEnergyDistribution>
                    interact((in.particle == p_proton
                                  ? M.bragg_proton->host_ref()
                              : kind == k_bragg ? M.bragg->host_ref()
                                                : M.icru->host_ref()),
                             particle,
                             cutoffs,
                             in.dir,
                             a);
                return interact(rng);
            });
            break;
        case k_mubrems:
            rr = run_call(*W, log, spec, free_slots, plan, [&](auto& rng, auto& a) {
                MuBremsstrahlungInteractor interact(M.mubrems->host_ref(),
                                                    particle,
                                                    in.dir,
                                                    cutoffs,
                                                    a,
                                                    material,
                                                    elcomp);
                return interact(rng);
            });
            break;
        case k_relbrem:
        case k_relbrem_lpm:
            rr = run_call(*W, log, spec, free_slots, plan, [&](auto& rng, auto& a) {
                RelativisticBremInteractor interact(
                    (kind == k_relbrem ? M.relbrem : M.relbrem_lpm)->host_ref(),
                    particle,
                    in.dir,
                    cutoffs,
                    a,
                    material,
                    elcomp);
                return interact(rng);
            });
            break;
        default: return Verdict::trivial;
    }
    if (rr.done)
        return rr.verdict;
    Outcome const& out = rr.out;

    // ---- unchanged: only where the model documents it -------------------
    if (out.action == Action::unchanged)
    {
        if (!opts.allow_unchanged)
            return log.fail(std::string(kind_name[kind])
                            + ": returned `unchanged`");
        // mu/hadron ionisation: unchanged <=> threshold >= T_max
        long double tmax = tmax_heavy(in.energy, W->def.mass[in.particle], me);
        long double thr = opts.thr[p_electron];
        long double slack = (kind == k_bragg || kind == k_icru73qo) ? 3e-7L
                                                                    : 1e-12L;
        if (thr < tmax * (1 - slack))
            return log.fail(
                fmt("%s: `unchanged` although T_max = %.17Lg exceeds the "
                    "threshold %.17Lg",
                    kind_name[kind],
                    tmax,
                    thr));
        log.label("unchanged");
        return Verdict::trivial;
    }
    if (opts.allow_unchanged)
    {
        long double tmax = tmax_heavy(in.energy, W->def.mass[in.particle], me);
        long double thr = opts.thr[p_electron];
        long double slack = (kind == k_bragg || kind == k_icru73qo) ? 3e-7L
                                                                    : 1e-12L;
        if (thr > tmax * (1 + slack))
            return log.fail(fmt("%s: interacted although threshold %.17Lg > "
                                "T_max %.17Lg",
                                kind_name[kind],
                                thr,
                                tmax));
    }

    // ---- generic oracle ----------------------------------------------------
    long double kin_max = 0;
    if (kind == k_bhabha)
        kin_max = in.energy;
    else if (kind == k_moller)
        kin_max = in.energy / 2;
    else if (opts.allow_unchanged)
        kin_max = tmax_heavy(in.energy, W->def.mass[in.particle], me);
    OracleResult o = check_outcome(*W, in, out, opts);
    if (!o.msg.empty())
        return report(log, kind, in, o, plan, out, kin_max);

    // ---- model-specific kinematic relations ------------------------------
    long double const Tin = in.energy;
    auto cos_to_inc = [&](Real3 const& d) {
        return (long double)d[0] * in.dir[0] + (long double)d[1] * in.dir[1]
               + (long double)d[2] * in.dir[2];
    };
    bool near_cut = false;
    switch (kind)
    {
        case k_kn: {
            if (out.action != Action::scattered || out.sec.size() != 1)
                return log.fail("klein-nishina: wrong action / multiplicity");
            if (!(out.energy > 0))
                return log.fail("klein-nishina: outgoing photon energy is 0");
            // Compton relation (1 - cos) = m (1/E' - 1/E)
            long double omc = 1 - cos_to_inc(out.direction);
            long double ref = me * (1 / (long double)out.energy - 1 / Tin);
            // rounding of E' = eps E (cancellation in 1/E' - 1/E) plus the
            // 3e-8 rad angular resolution of rotate() near the z axis
            long double tol = 64 * eps_d * (1 + me / out.energy)
                              + sqrtl(2 * fabsl(omc)) * 3e-8L;
            if (fabsl(omc - ref) > tol)
            {
                OracleResult k;
                k.msg = fmt("Compton relation violated: 1-cos = %.17Lg, "
                            "m(1/E'-1/E) = %.17Lg",
                            omc,
                            ref);
                k.momentum_failed = true;
                return report(log, kind, in, k, plan);
            }
            // lower kinematic limit E' >= E / (1 + 2E/m)
            if (out.energy < Tin / (1 + 2 * Tin / me) * (1 - 4 * eps_d))
                return log.fail("klein-nishina: E' below the backscatter "
                                "limit");
            Secondary const& s = out.sec[0];
            if (s)
            {
                if (out.deposit != 0)
                    return log.fail("klein-nishina: electron emitted and "
                                    "energy deposited");
                log.label("kn:electron-emitted");
                near_cut = s.energy.value() < 1.01e-4;
            }
            else
            {
                if (!(out.deposit < 1e-4))
                    return log.fail("klein-nishina: deposit >= secondary "
                                    "cutoff without secondary");
                log.label("kn:electron-below-cutoff");
            }
            break;
        }
        case k_moller:
        case k_bhabha: {
            if (out.action != Action::scattered || out.sec.size() != 1
                || out.deposit != 0)
                return log.fail(std::string(kind_name[kind])
                                + ": wrong action / multiplicity / deposit");
            double es = out.sec[0].energy.value();
            long double emax = kind == k_moller ? Tin / 2 : Tin;
            if (es > emax * (1 + 4 * eps_d))
                return log.fail(fmt("%s: secondary energy %.17g above the "
                                    "kinematic maximum %.17Lg",
                                    kind_name[kind],
                                    es,
                                    emax));
            near_cut = es < 1.01 * cut_e;
            break;
        }
        case k_eplusgg: {
            if (out.action != Action::absorbed || out.sec.size() != 2)
                return log.fail("eplusgg: wrong action / multiplicity");
            for (auto const& s : out.sec)
                if (s.particle_id != W->pid[p_gamma])
                    return log.fail("eplusgg: secondary is not a photon");
            break;
        }
        case k_bh:
        case k_bh_lpm: {
            if (out.action != Action::absorbed || out.sec.size() != 2)
                return log.fail("bethe-heitler: wrong action / multiplicity");
            if (out.sec[0].particle_id != W->pid[p_electron]
                || out.sec[1].particle_id != W->pid[p_positron])
                return log.fail("bethe-heitler: secondaries are not (e-, e+)");
            break;
        }
        case k_rayleigh: {
            if (out.action != Action::scattered || out.energy != in.energy
                || out.deposit != 0)
                return log.fail("rayleigh: energy changed");
            break;
        }
        case k_coulomb: {
            if (out.action != Action::scattered)
                return log.fail("coulomb: wrong action");
            // elastic recoil of the target nucleus at the sampled angle
            long double ct = cos_to_inc(out.direction);
            long double mt = W->iso_mass[el_id.get()][0];
            long double p2 = Tin * (Tin + 2 * me);
            long double rec = p2 * (1 - ct) / (mt + (me + Tin) * (1 - ct));
            // rotate() resolves the incident axis only to ~1.5e-8 rad
            // (sqrt(1 - z^2) with z rounded): angle error 3e-8 at most
            long double omct = ct < 1 ? 1 - ct : 0.0L;
            long double tol = 1e-9L * rec
                              + (p2 / mt)
                                    * (sqrtl(2 * omct) * 3e-8L + 64 * eps_d);
            if (fabsl(rec - out.deposit) > tol)
            {
                OracleResult k;
                k.msg = fmt("deposited recoil %.17g differs from two-body "
                            "recoil %.17Lg at the sampled angle",
                            out.deposit,
                            rec);
                k.momentum_failed = true;
                return report(log, kind, in, k, plan);
            }
            if (ct < 1)
                log.label("coulomb:deflected");
            break;
        }
        case k_bethebloch:
        case k_mubethebloch:
        case k_bragg:
        case k_icru73qo: {
            if (out.action != Action::scattered || out.sec.size() != 1
                || out.deposit != 0)
                return log.fail(std::string(kind_name[kind])
                                + ": wrong action / multiplicity / deposit");
            double es = out.sec[0].energy.value();
            long double tmax
                = tmax_heavy(in.energy, W->def.mass[in.particle], me);
            if (es > tmax * (1 + 1e-12L))
                return log.fail(fmt("%s: delta-ray energy %.17g above T_max "
                                    "%.17Lg",
                                    kind_name[kind],
                                    es,
                                    tmax));
            near_cut = es < 1.01 * opts.thr[p_electron];
            if (kind == k_mubethebloch && in.energy > 250)
                log.label("mubb:rad-correction");
            break;
        }
        case k_mubrems:
        case k_relbrem:
        case k_relbrem_lpm: {
            if (out.action != Action::scattered || out.sec.size() != 1
                || out.deposit != 0)
                return log.fail(std::string(kind_name[kind])
                                + ": wrong action / multiplicity / deposit");
            if (out.sec[0].particle_id != W->pid[p_gamma])
                return log.fail(std::string(kind_name[kind])
                                + ": secondary is not a photon");
            near_cut = out.sec[0].energy.value() < 1.01 * cut_g;
            break;
        }
        default: break;
    }
    if (near_cut)
        log.label("near-cut-secondary");
    // (head-room monitor; sub-tolerance manifestations of F7 / F11 excluded)
    if (opts.closed && o.mom_err > 0 && kind != k_eplusgg
        && !(in.near_axis && in.dir[1] < 0))
    {
        if (o.mom_err > 1e-9)
            log.label("mom-err>1e-9");
        if (o.mom_err > 1e-8)
            log.label("mom-err>1e-8");
        if (o.mom_err > 3e-8)
            log.label("mom-err>3e-8");
        if (o.mom_err > 5e-8)
            log.label("mom-err>5e-8");
        if (o.mom_err > 1e-8)
        {
            if (getenv("C04_DEBUG"))
                fprintf(stderr,
                        "MOMERR %s err=%.3Lg E=%.17g dir=(%.17g,%.17g,%.17g) "
                        "Esec=%.17g\n",
                        kind_name[kind],
                        o.mom_err,
                        in.energy,
                        in.dir[0],
                        in.dir[1],
                        in.dir[2],
                        out.sec.empty() ? 0.0 : out.sec[0].energy.value());
        }
    }
    log.nontrivial = true;
    return Verdict::pass;
}
}  // namespace

bool run_exhaustive(ExhaustiveResult&)
{
    return false;
}

}  // namespace verif
