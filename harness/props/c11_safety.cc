// C11 — the reported safety distance is conservative.
//
// One case = one geometry (bundled .org.json | raw generated OrangeInput |
// construction-API model) + K interior points that the independent oracle
// (O-GEO, georacle.hh) locates unambiguously.  At each point
//   s = OrangeTrackView::find_safety()
// must be >= 0 and not NaN, and
//   (a) for ~32 directions (uniform + directions toward the oracle's nearest
//       point of the surfaces of every universe on the volume path) both the
//       navigator's own find_next_step distance and the oracle's exit
//       distance of the current volume path are >= s (1 - 1e-9) - delta;
//   (b) ~32 points in the ball of radius s (1 - 1e-6) - delta (biased to the
//       shell and to the directed probes) are located by O-GEO in the same
//       volume path.
// find_safety(max_step) promises only min(result, max_step) (its callers
// compare the result with max_step and treat ">= max_step" as "far"), so
// min(result, max_step) is held to the same inequality.
#include <algorithm>
#include <cmath>
#include <cstring>
#include <map>
#include <sstream>

#include "caselog.hh"

#if __has_include("geogen.hh") && !defined(VERIF_NO_GEOGEN)
#    define VERIF_HAVE_GEOGEN 1
#endif
#include "geofix.hh"
#include "geosrc.hh"

namespace verif
{
char const* const kPropertyId = "C11";
char const* const kHarness = "c11_safety";
size_t const kMaxBytes = 640;
char const* const kRule
    = "byte string -> (geometry: bundled .org.json | generated raw "
      "OrangeInput | generated construction-API model; 4..10 points: uniform "
      "in the world box | uniform in the local frame of a universe instance "
      "at any nesting level | at/near the centre or axis of a surface | at a "
      "log-uniform distance from a surface), kept when O-GEO locates them "
      "unambiguously inside; oracle = independent long-double ray marcher and "
      "point locator over the OrangeInput; non-trivial = at least one point "
      "with 0 < safety < inf whose nearest oracle surface is not an "
      "axis-aligned plane";

namespace
{
using namespace celeritas;
using geo::LD;
using geo::V3;

// Open finding: see notes/C11.md.  When false the class is judged like any
// other input.
constexpr bool kCentreFindingOpen = true;
char const* const kCentreKey = "F33-safety-inf-at-sphere-centre";

struct Prng
{
    uint64_t s;
    uint64_t next()
    {
        uint64_t z = (s += 0x9e3779b97f4a7c15ull);
        z = (z ^ (z >> 30)) * 0xbf58476d1ce4e5b9ull;
        z = (z ^ (z >> 27)) * 0x94d049bb133111ebull;
        return z ^ (z >> 31);
    }
    double u() { return double(next() >> 11) / 9007199254740992.0; }
    V3 dir()
    {
        double mu = 1 - 2 * u(), phi = 2 * M_PI * u();
        double st = std::sqrt(std::fmax(0.0, 1 - mu * mu));
        return {{st * std::cos(phi), st * std::sin(phi), mu}};
    }
};

// local -> global map of one universe instance: x_g = R x_l + t
struct Up
{
    LD R[3][3] = {{1, 0, 0}, {0, 1, 0}, {0, 0, 1}};
    LD t[3] = {0, 0, 0};
    V3 point(V3 const& x) const
    {
        V3 r;
        for (int i = 0; i < 3; ++i)
            r[i] = R[i][0] * x[0] + R[i][1] * x[1] + R[i][2] * x[2] + t[i];
        return r;
    }
    V3 vec(V3 const& x) const
    {
        V3 r;
        for (int i = 0; i < 3; ++i)
            r[i] = R[i][0] * x[0] + R[i][1] * x[1] + R[i][2] * x[2];
        return r;
    }
};

// parent.up o daughter  (daughter xf: x_parent = Rd x_d + td)
Up compose(Up const& p, geo::Xform const& d)
{
    if (d.identity)
        return p;
    Up r;
    for (int i = 0; i < 3; ++i)
    {
        for (int j = 0; j < 3; ++j)
        {
            r.R[i][j] = 0;
            for (int k = 0; k < 3; ++k)
                r.R[i][j] += p.R[i][k] * d.R[k][j];
        }
        r.t[i] = p.t[i];
        for (int k = 0; k < 3; ++k)
            r.t[i] += p.R[i][k] * d.t[k];
    }
    return r;
}

struct Instance
{
    int universe;
    int depth;
    Up up;
    double lo[3], hi[3];  // local sampling box
};

struct InstList
{
    std::vector<Instance> v;
};

void local_extent(GeoFixture const& f, int uid, double lo[3], double hi[3])
{
    auto const& uv = f.input.universes[uid];
    bool ok = false;
    if (auto const* u = std::get_if<UnitInput>(&uv))
    {
        if (u->bbox)
        {
            ok = true;
            for (int k = 0; k < 3; ++k)
            {
                lo[k] = u->bbox.lower()[k];
                hi[k] = u->bbox.upper()[k];
                if (!std::isfinite(lo[k]) || !std::isfinite(hi[k]))
                    ok = false;
            }
        }
    }
    else
    {
        auto const& r = std::get<RectArrayInput>(uv);
        ok = true;
        for (int k = 0; k < 3; ++k)
        {
            lo[k] = r.grid[k].front();
            hi[k] = r.grid[k].back();
        }
    }
    if (!ok)
        for (int k = 0; k < 3; ++k)
        {
            lo[k] = -f.scale;
            hi[k] = f.scale;
        }
}

void enumerate(GeoFixture const& f, int uid, Up const& up, int depth,
               InstList& out)
{
    if (out.v.size() >= 48 || depth > 6)
        return;
    Instance in;
    in.universe = uid;
    in.depth = depth;
    in.up = up;
    local_extent(f, uid, in.lo, in.hi);
    out.v.push_back(in);
    geo::Universe const& U = f.model.univ[uid];
    if (!U.is_array)
    {
        for (auto const& kv : U.unit.daughters)
            enumerate(f, kv.second.universe, compose(up, kv.second.xf),
                      depth + 1, out);
    }
    else
    {
        // a few cells only: first, last, middle
        size_t n = U.array.daughters.size();
        size_t picks[3] = {0, n / 2, n - 1};
        size_t last = size_t(-1);
        for (size_t k : picks)
        {
            if (k == last)
                continue;
            last = k;
            auto const& d = U.array.daughters[k];
            enumerate(f, d.universe, compose(up, d.xf), depth + 1, out);
        }
    }
}

std::map<GeoFixture const*, InstList>& inst_cache()
{
    static std::map<GeoFixture const*, InstList> m;
    return m;
}

Real3 r3(V3 const& v)
{
    return Real3{double(v[0]), double(v[1]), double(v[2])};
}

char const* type_label(SurfaceType t)
{
    switch (t)
    {
        case SurfaceType::px:
        case SurfaceType::py:
        case SurfaceType::pz: return "near:plane-aligned";
        case SurfaceType::cxc:
        case SurfaceType::cyc:
        case SurfaceType::czc: return "near:cyl-centered";
        case SurfaceType::sc: return "near:sphere-centered";
        case SurfaceType::cx:
        case SurfaceType::cy:
        case SurfaceType::cz: return "near:cyl-aligned";
        case SurfaceType::p: return "near:plane";
        case SurfaceType::s: return "near:sphere";
        case SurfaceType::kx:
        case SurfaceType::ky:
        case SurfaceType::kz: return "near:cone";
        case SurfaceType::sq: return "near:simple-quadric";
        case SurfaceType::gq: return "near:general-quadric";
        default: return "near:other";
    }
}

bool is_aligned_plane(SurfaceType t)
{
    return t == SurfaceType::px || t == SurfaceType::py
           || t == SurfaceType::pz;
}

// A probe direction (global frame) toward the nearest point of one surface
struct Probe
{
    V3 dir;  // global, unit
    LD dist;  // distance to the surface along that direction
    SurfaceType type;
    bool grid;  // array grid plane
    int level;
};

// chain of local->global maps along an oracle path
std::vector<Up> path_ups(geo::Model const& m, geo::Path const& p)
{
    std::vector<Up> ups;
    Up cur;
    ups.push_back(cur);
    for (size_t l = 0; l + 1 < p.lv.size(); ++l)
    {
        geo::Universe const& U = m.univ[p.lv[l].universe];
        geo::Xform const* xf = nullptr;
        if (!U.is_array)
        {
            auto it = U.unit.daughters.find(p.lv[l].volume);
            if (it != U.unit.daughters.end())
                xf = &it->second.xf;
        }
        else
            xf = &U.array.daughters[p.lv[l].volume].xf;
        if (xf)
            cur = compose(cur, *xf);
        ups.push_back(cur);
    }
    return ups;
}

// Directions toward the nearest point of every surface of every universe on
// the path: -sign(f) grad f / |grad f|, the ray root along it, and one Newton
// refinement (normal at the foot point).
void directed_probes(geo::Model const& m, geo::Path const& p,
                     std::vector<Probe>& out)
{
    auto ups = path_ups(m, p);
    for (size_t l = 0; l < p.lv.size(); ++l)
    {
        geo::Universe const& U = m.univ[p.lv[l].universe];
        V3 const& x = p.lv[l].pos;
        if (U.is_array)
        {
            for (int ax = 0; ax < 3; ++ax)
            {
                auto const& g = U.array.grid[ax];
                // nearest two planes of the cell
                int i = int(std::upper_bound(g.begin(), g.end(), double(x[ax]))
                            - g.begin())
                        - 1;
                i = std::min(std::max(i, 0), int(g.size()) - 2);
                for (int s = 0; s < 2; ++s)
                {
                    V3 d = {{0, 0, 0}};
                    d[ax] = s ? 1 : -1;
                    Probe pr;
                    pr.dir = ups[l].vec(d);
                    pr.dist = fabsl(g[i + s] - x[ax]);
                    pr.type = SurfaceType::px;
                    pr.grid = true;
                    pr.level = int(l);
                    out.push_back(pr);
                }
            }
            continue;
        }
        for (size_t i = 0; i < U.unit.surfs.size(); ++i)
        {
            if (U.unit.unsupported[i])
                continue;
            geo::Quadric const& q = U.unit.surfs[i];
            LD f = q.eval(x);
            V3 g = q.grad(x);
            LD gn = geo::norm(g);
            if (!(gn > 0) || f == 0)
                continue;
            LD sg = f > 0 ? -1 : 1;
            V3 d = {{sg * g[0] / gn, sg * g[1] / gn, sg * g[2] / gn}};
            for (int it = 0; it < 2; ++it)
            {
                LD r[2];
                int n = q.roots(x, d, r);
                LD t = INFINITY;
                for (int k = 0; k < n; ++k)
                    if (r[k] > 0 && r[k] < t)
                        t = r[k];
                if (!std::isfinite((double)t))
                    break;
                Probe pr;
                pr.dir = ups[l].vec(d);
                pr.dist = t;
                pr.type = q.type;
                pr.grid = false;
                pr.level = int(l);
                out.push_back(pr);
                if (q.linear)
                    break;
                // refinement: direction from x to the foot point of the normal
                // through the current hit point
                V3 h = geo::along(x, d, t);
                V3 gh = q.grad(h);
                LD ghn = geo::norm(gh);
                if (!(ghn > 0))
                    break;
                // outward/inward normal at h pointing away from x
                LD s2 = geo::dot(gh, d) >= 0 ? 1 : -1;
                V3 d2 = {{s2 * gh[0] / ghn, s2 * gh[1] / ghn, s2 * gh[2] / ghn}};
                // average keeps the iteration stable for strongly curved
                // surfaces
                V3 dn = {{d[0] + d2[0], d[1] + d2[1], d[2] + d2[2]}};
                LD nn = geo::norm(dn);
                if (!(nn > 0))
                    break;
                for (int k = 0; k < 3; ++k)
                    d[k] = dn[k] / nn;
            }
        }
    }
    std::sort(out.begin(), out.end(), [](Probe const& a, Probe const& b) {
        return a.dist < b.dist;
    });
}

// First parameter t in (0, limit) at which the volume path along p + t d
// differs from `start`; INFINITY if it does not change before `limit`.
LD first_change_before(geo::Model const& m, geo::Path const& start,
                       V3 const& p, V3 const& d, LD limit, geo::Path* next)
{
    geo::Path here = geo::locate(m, p, 0, d);  // frames with this direction
    std::vector<LD> cand;
    geo::candidates(m, here, 0, 0, cand);
    LD scale = geo::norm(p) + 1;
    for (size_t k = 0; k < cand.size(); ++k)
    {
        LD t0 = cand[k];
        if (!(t0 < limit))
            break;
        LD tm;
        if (k + 1 < cand.size())
        {
            LD t1 = cand[k + 1];
            if (t1 - t0 <= 1e-15L * (fabsl(t0) + scale))
                continue;  // coincident crossings: judge behind the last
            tm = (t0 + t1) / 2;
        }
        else
            tm = t0 + scale;
        geo::Path q = geo::locate(m, geo::along(p, d, tm), 0, d);
        if (q.overlap || q.bad_logic)
            return INFINITY;  // invalid geometry here: nothing to judge
        if (!q.same_as(start))
        {
            *next = q;
            return t0;
        }
    }
    return INFINITY;
}

struct PointResult
{
    bool judged = false;
    bool nontrivial = false;
};

// Is the navigator's local position, at some level, exactly at the centre /
// on the axis of a sphere / centred cylinder that is a face of the current
// volume?  (CalcSafetyDistance: calc_normal is 0/0 there.)
bool at_face_centre(GeoFixture& f, geo::Path const& nav)
{
    for (auto const& l : nav.lv)
    {
        auto const* u = std::get_if<UnitInput>(&f.input.universes[l.universe]);
        if (!u || l.volume < 0 || l.volume >= int(u->volumes.size()))
            continue;
        double x[3] = {double(l.pos[0]), double(l.pos[1]), double(l.pos[2])};
        for (auto face : u->volumes[l.volume].faces)
        {
            bool hit = std::visit(
                [&x](auto const& s) -> bool {
                    using S = std::decay_t<decltype(s)>;
                    constexpr SurfaceType t = S::surface_type();
                    if constexpr (t == SurfaceType::sc)
                        return x[0] == 0 && x[1] == 0 && x[2] == 0;
                    else if constexpr (t == SurfaceType::s)
                    {
                        auto o = s.origin();
                        return x[0] - o[0] == 0 && x[1] - o[1] == 0
                               && x[2] - o[2] == 0;
                    }
                    else if constexpr (t == SurfaceType::cxc)
                        return x[1] == 0 && x[2] == 0;
                    else if constexpr (t == SurfaceType::cyc)
                        return x[0] == 0 && x[2] == 0;
                    else if constexpr (t == SurfaceType::czc)
                        return x[0] == 0 && x[1] == 0;
                    else
                        return false;
                },
                u->surfaces[face.unchecked_get()]);
            if (hit)
                return true;
        }
    }
    return false;
}

// Generate one candidate point (global frame)
V3 gen_point(GeoFixture& f, InstList const& il, Choices& c, CaseLog& log,
             int* mode_out)
{
    int mode = int(c.pick({3, 4, 2, 3}));
    *mode_out = mode;
    log.mix(mode);
    V3 p;
    if (mode == 0 || il.v.empty())
    {
        for (int k = 0; k < 3; ++k)
            p[k] = c.real_in(f.lo[k], f.hi[k]);
        return p;
    }
    // instance: biased to nested ones (the list starts with the root)
    size_t ii = c.index(il.v.size());
    if (il.v.size() > 1 && c.boolean(0.5))
        ii = 1 + c.index(il.v.size() - 1);
    Instance const& in = il.v[ii];
    double ext = 0;
    for (int k = 0; k < 3; ++k)
        ext = std::fmax(ext, in.hi[k] - in.lo[k]);
    V3 x;
    for (int k = 0; k < 3; ++k)
        x[k] = c.real_in(in.lo[k], in.hi[k]);
    geo::Universe const& U = f.model.univ[in.universe];
    if (mode >= 2 && !U.is_array && !U.unit.surfs.empty())
    {
        size_t si = c.index(U.unit.surfs.size());
        geo::Quadric const& q = U.unit.surfs[si];
        if (mode == 2)
        {
            // centre / axis: grad f = 0 for the coordinates that have a
            // quadratic term (surfaces without cross terms)
            bool any = false;
            if (q.c[0] == 0 && q.c[1] == 0 && q.c[2] == 0)
                for (int k = 0; k < 3; ++k)
                    if (q.a[k] != 0)
                    {
                        x[k] = -q.b[k] / (2 * q.a[k]);
                        any = true;
                    }
            if (any && c.boolean(0.5))
            {
                // small to moderate offset in a random direction
                double d[3];
                c.unit_vector(d);
                double off = c.log_uniform(1e-12, 0.5) * ext;
                for (int k = 0; k < 3; ++k)
                    x[k] += off * d[k];
            }
        }
        else if (!U.unit.unsupported[si])
        {
            // project onto the surface along the gradient, then step off by
            // a log-uniform distance on either side
            V3 g = q.grad(x);
            LD gn = geo::norm(g);
            LD fv = q.eval(x);
            if (gn > 0 && fv != 0)
            {
                LD sg = fv > 0 ? -1 : 1;
                V3 d = {{sg * g[0] / gn, sg * g[1] / gn, sg * g[2] / gn}};
                LD r[2];
                int n = q.roots(x, d, r);
                LD t = INFINITY;
                for (int k = 0; k < n; ++k)
                    if (r[k] > 0 && r[k] < t)
                        t = r[k];
                if (std::isfinite((double)t))
                {
                    double off = c.log_uniform(1e-6, 0.3) * ext;
                    if (c.boolean(0.5))
                        off = -off;
                    x = geo::along(x, d, t + off);
                }
            }
        }
    }
    p = in.up.point(x);
    // the navigator receives doubles
    for (int k = 0; k < 3; ++k)
        p[k] = LD(double(p[k]));
    return p;
}

Verdict check_point(GeoSource& src, V3 const& p_in, Choices& c, CaseLog& log,
                    Prng& rng, PointResult& res, int pi)
{
    V3 p = p_in;
    GeoFixture& f = *src.fix;
    geo::Model const& m = f.model;
    LD delta = geo::delta_at(m, p);
    geo::Path op = geo::locate(m, p, 4 * delta);
    if (op.ambiguous || op.outside() || op.nowhere || op.overlap
        || op.bad_logic)
    {
        log.count("points_skipped_ambiguous_or_outside");
        return Verdict::pass;
    }
    auto tv = f.track();
    tv = GeoTrackInitializer{r3(p), Real3{0, 0, 1}};
    if (tv.failed() || tv.is_outside() || tv.is_on_boundary())
    {
        // point location is property C03's business
        log.count("points_skipped_init_differs");
        return Verdict::pass;
    }
    geo::Path np = f.nav_path();
    if (!np.same_as(op))
    {
        log.count("points_skipped_init_differs");
        return Verdict::pass;
    }
    bool moved = false;
    if (c.boolean(0.3))
    {
        // reach the point by an internal move instead of an initialisation
        // (the per-level local positions are then updated incrementally)
        V3 d0 = rng.dir();
        Real3 dd0 = make_unit_vector(r3(d0));
        tv = GeoTrackInitializer{r3(p), dd0};
        Propagation pr0 = tv.find_next_step();
        double lim = pr0.boundary ? pr0.distance : f.scale;
        if (std::isfinite(lim) && lim > 0)
        {
            double step = lim * (0.05 + 0.9 * rng.u());
            tv.move_internal(step);
            Real3 const& q = tv.pos();
            p = {{q[0], q[1], q[2]}};
            delta = geo::delta_at(m, p);
            op = geo::locate(m, p, 4 * delta);
            if (op.ambiguous || op.outside() || op.nowhere || op.overlap
                || op.bad_logic)
            {
                log.count("points_skipped_ambiguous_or_outside");
                return Verdict::pass;
            }
            np = f.nav_path();
            if (tv.is_on_boundary() || !np.same_as(op))
            {
                log.count("points_skipped_init_differs");
                return Verdict::pass;
            }
            moved = true;
            log.label("pt:reached-by-move_internal");
        }
    }
    res.judged = true;

    auto describe = [&](std::ostringstream& os) {
        os.precision(17);
        os << " at point #" << pi << " (" << double(p[0]) << ", "
           << double(p[1]) << ", " << double(p[2]) << ") in " << op.str();
    };

    double s = tv.find_safety();
    double max_step = 0;
    bool limited = c.boolean(0.5);
    double s_eff = s;
    if (std::isnan(s) || s < 0)
    {
        std::ostringstream os;
        os << "find_safety returned " << s;
        describe(os);
        return log.fail(os.str());
    }
    if (limited)
    {
        max_step = c.log_uniform(1e-4, 10) * f.scale;
        log.mix(max_step);
        double s2 = tv.find_safety(max_step);
        if (std::isnan(s2) || s2 < 0)
        {
            std::ostringstream os;
            os << "find_safety(" << max_step << ") returned " << s2;
            describe(os);
            return log.fail(os.str());
        }
        // what the limited variant promises its callers
        s_eff = std::fmax(s, std::fmin(s2, max_step));
    }
    if (log.want_desc)
    {
        double pp[4] = {double(p[0]), double(p[1]), double(p[2]), s};
        log.dv("point_safety", pp, 4);
    }

    bool centre_class = kCentreFindingOpen && at_face_centre(f, np);
    auto failure = [&](std::string msg) {
        if (centre_class)
            return log.fail(std::move(msg), kCentreKey);
        return log.fail(std::move(msg));
    };

    // class labels of the leaf volume
    {
        auto const& leaf = op.lv.back();
        if (auto const* u
            = std::get_if<UnitInput>(&f.input.universes[leaf.universe]))
        {
            auto const& v = u->volumes[leaf.volume];
            if (v.zorder == ZOrder::background)
                log.label("vol:background");
            else if (v.flags & VolumeRecord::internal_surfaces)
                log.label("vol:internal-surfaces");
            else
                log.label("vol:simple-logic");
        }
        else
            log.label("vol:array-cell");
        size_t depth = op.lv.size() - 1;
        log.label(depth == 0 ? "level:0" : depth == 1 ? "level:1" : "level:2+");
        bool rotated = false;
        for (size_t l = 0; l + 1 < op.lv.size(); ++l)
        {
            geo::Universe const& U = m.univ[op.lv[l].universe];
            if (!U.is_array)
            {
                auto it = U.unit.daughters.find(op.lv[l].volume);
                if (it != U.unit.daughters.end() && !it->second.xf.identity)
                {
                    auto const& R = it->second.xf.R;
                    if (R[0][0] != 1 || R[1][1] != 1 || R[2][2] != 1)
                        rotated = true;
                }
            }
            else
                log.label("in-array-cell");
        }
        if (rotated)
            log.label("in-rotated-daughter");
    }

    std::vector<Probe> probes;
    directed_probes(m, op, probes);

    if (s == 0)
    {
        log.label("s:zero");
        log.count("points_safety_zero");
        return Verdict::pass;  // always acceptable
    }
    bool inf = !std::isfinite(s_eff);
    log.label(inf ? "s:inf" : "s:positive");
    if (!probes.empty())
    {
        Probe const& n0 = probes.front();
        log.label(n0.grid ? "near:array-grid" : type_label(n0.type));
        if (!inf && !(n0.grid || is_aligned_plane(n0.type)))
            res.nontrivial = true;
        if (!inf && double(n0.dist) > 0 && s >= 0.99 * double(n0.dist))
            log.count("points_safety_tight(>=0.99 true distance)");
    }

    LD bound = LD(s_eff) * (1 - 1e-9L) - delta;  // may be inf
    // (a) rays
    std::vector<V3> dirs;
    {
        size_t nd = std::min<size_t>(probes.size(), 22);
        for (size_t i = 0; i < nd; ++i)
            dirs.push_back(probes[i].dir);
        while (dirs.size() < 32)
            dirs.push_back(rng.dir());
    }
    for (size_t di = 0; di < dirs.size(); ++di)
    {
        V3 d = dirs[di];
        LD n = geo::norm(d);
        Real3 dd{double(d[0] / n), double(d[1] / n), double(d[2] / n)};
        // renormalise in double as callers do
        double n2 = std::sqrt(dd[0] * dd[0] + dd[1] * dd[1] + dd[2] * dd[2]);
        for (int k = 0; k < 3; ++k)
            dd[k] /= n2;
        V3 dv = {{dd[0], dd[1], dd[2]}};
        if (c.boolean(0.25))
            tv = GeoTrackInitializer{r3(p), dd};
        else
            tv.set_dir(dd);
        Propagation pr = tv.find_next_step();
        if (std::isnan(pr.distance))
        {
            std::ostringstream os;
            os << "find_next_step returned NaN";
            describe(os);
            return failure(os.str());
        }
#ifndef C11_SKIP_NAV_CHECK  // (sensitivity experiments: oracle checks alone)
        if (pr.boundary && LD(pr.distance) < bound)
#else
        if (false)
#endif
        {
            std::ostringstream os;
            os.precision(17);
            os << "safety " << s_eff << " exceeds the navigator's own "
               << "distance to boundary " << pr.distance << " along ("
               << dd[0] << ", " << dd[1] << ", " << dd[2] << ")";
            describe(os);
            return failure(os.str());
        }
        // oracle: first change of the volume path along the ray, searched
        // among the crossings closer than the bound (exact arithmetic, no
        // tolerance clustering: only crossings of surfaces of the universes
        // on the current path can change it)
        geo::Path next;
        LD exit = first_change_before(m, op, p, dv, bound, &next);
        if (exit < bound)
        {
            std::ostringstream os;
            os.precision(17);
            os << "safety " << s_eff << " exceeds the true distance "
               << double(exit) << " to the boundary of the current volume "
               << "along (" << dd[0] << ", " << dd[1] << ", " << dd[2]
               << "), beyond which lies " << next.str();
            describe(os);
            return failure(os.str());
        }
    }
    log.count("rays_checked", long(dirs.size()));

    // (b) ball
    LD rad = LD(s_eff) * (1 - 1e-6L) - delta;
    if (inf)
        rad = 2 * LD(f.scale);
    if (rad > 0)
    {
        long nb = 0;
        for (int b = 0; b < 32; ++b)
        {
            V3 d = (b < 12 && size_t(b) < probes.size()) ? probes[b].dir
                                                          : rng.dir();
            LD n = geo::norm(d);
            double u = rng.u();
            LD frac = (u < 0.6) ? 1 : std::cbrt(rng.u());
            V3 q = geo::along(p, d, rad * frac / n);
            geo::Path qp = geo::locate(m, q, delta * 1e-4L);
            if (qp.overlap || qp.bad_logic)
                continue;
            ++nb;
            if (!qp.same_as(op))
            {
                std::ostringstream os;
                os.precision(17);
                os << "the ball of radius safety=" << s_eff
                   << " contains the point (" << double(q[0]) << ", "
                   << double(q[1]) << ", " << double(q[2]) << ") at distance "
                   << double(rad * frac) << " which lies in " << qp.str();
                describe(os);
                return failure(os.str());
            }
        }
        log.count("ball_points_checked", nb);
    }
    if (centre_class)
        log.count("centre_class_points_passing");
    return Verdict::pass;
}

}  // namespace

void setup()
{
    world_logger().level(LogLevel::critical);
    self_logger().level(LogLevel::critical);
    geosrc_setup();
    for (auto const& fx : bundled_fixtures())
    {
        InstList il;
        enumerate(*fx, 0, Up{}, 0, il);
        inst_cache()[fx.get()] = std::move(il);
    }
}

Verdict run_case(Choices& c, CaseLog& log)
{
    GeoSource src;
    try
    {
        Verdict gv = choose_geometry(c, log, src);
        if (gv != Verdict::pass)
            return gv;
    }
    catch (celeritas::RuntimeError const&)
    {
        return Verdict::rejected;
    }
    catch (std::runtime_error const&)
    {
        // geogen::Excluded: model in a known-finding class of C09
        log.label("excluded-known-class");
        return Verdict::rejected;
    }
    GeoFixture& f = *src.fix;
    if (f.model.unsupported)
        return Verdict::trivial;
    InstList local;
    InstList const* il;
    auto it = inst_cache().find(&f);
    if (it != inst_cache().end())
        il = &it->second;
    else
    {
        enumerate(f, 0, Up{}, 0, local);
        il = &local;
    }
    Prng rng{c.bits(8)};
    log.mix(rng.s);
    int npts = int(c.int_in(4, 10));
    long judged = 0, nontriv = 0;
    Verdict known = Verdict::pass;
    std::string known_msg;
    try
    {
        for (int i = 0; i < npts; ++i)
        {
            int mode = 0;
            V3 p = gen_point(f, *il, c, log, &mode);
            for (int k = 0; k < 3; ++k)
                log.mix(double(p[k]));
            PointResult r;
            Verdict v = check_point(src, p, c, log, rng, r, i);
            if (v == Verdict::violation)
            {
                if (log.finding.empty())
                    return v;
                // known finding: remember, keep judging the other points
                known = v;
                known_msg = log.msg;
                continue;
            }
            if (r.judged)
            {
                ++judged;
                static char const* const ml[]
                    = {"pt:world-uniform", "pt:instance-uniform",
                       "pt:surface-centre", "pt:near-surface"};
                log.label(ml[mode]);
            }
            if (r.nontrivial)
                ++nontriv;
        }
    }
    catch (celeritas::RuntimeError const& e)
    {
        return log.fail(std::string("RuntimeError during navigation: ")
                        + e.what());
    }
    catch (celeritas::DebugError const& e)
    {
        return log.fail(std::string("DebugError during navigation: ")
                        + e.what());
    }
    // class labels once per case
    {
        std::sort(log.labels.begin(), log.labels.end(),
                  [](char const* a, char const* b) {
                      return std::strcmp(a, b) < 0;
                  });
        log.labels.erase(std::unique(log.labels.begin(), log.labels.end(),
                                     [](char const* a, char const* b) {
                                         return std::strcmp(a, b) == 0;
                                     }),
                         log.labels.end());
    }
    if (known == Verdict::violation)
    {
        log.msg = known_msg;
        log.finding = kCentreKey;
        return Verdict::violation;
    }
    log.count("points_judged", judged);
    log.count("points_nontrivial", nontriv);
    if (judged == 0)
        return Verdict::trivial;
    log.nontrivial = nontriv > 0;
    return Verdict::pass;
}

bool run_exhaustive(ExhaustiveResult&)
{
    return false;
}

}  // namespace verif
