// C10 — CSG logic rewriting and encoding preserve the region's boolean
// function.
//
// A byte string is decoded into a CsgTree built through the public
// `insert` API (three generator modes: random DAG, deep right-nested chain,
// production-like "shapes + exterior").  The harness' own bit-parallel
// evaluator over the Node variant gives the truth table of EVERY node for
// ALL 2^n assignments of the n <= 12 surfaces (TT0).  Each rewrite /
// encoding is then applied and judged against TT0:
//   insert (dedup + one-level simplification), exchange, simplify_up,
//   simplify, replace_and_simplify (on the assignments consistent with the
//   replaced constant), transform_negated_joins, PostfixLogicBuilder (+
//   surface remapping) evaluated by the runtime LogicEvaluator,
//   build_infix_string (parsed by the harness), runtime InfixEvaluator on a
//   harness-encoded token form, InternalSurfaceFlagger ("simple" => the
//   function is a conjunction of literals over its faces), SenseEvaluator.
#include <algorithm>
#include <cstdint>
#include <cstdio>
#include <cstdlib>
#include <sstream>
#include <string>
#include <variant>
#include <vector>

#include "caselog.hh"
#include "corecel/Assert.hh"
#include "corecel/cont/Span.hh"
#include "orange/OrangeInput.hh"
#include "orange/OrangeParams.hh"
#include "orange/OrangeTypes.hh"
#include "orange/orangeinp/CsgTree.hh"
#include "orange/orangeinp/CsgTreeUtils.hh"
#include "orange/orangeinp/CsgTypes.hh"
#include "orange/orangeinp/detail/InternalSurfaceFlagger.hh"
#include "orange/orangeinp/detail/PostfixLogicBuilder.hh"
#include "orange/orangeinp/detail/SenseEvaluator.hh"
#include "orange/surf/PlaneAligned.hh"
#include "orange/surf/VariantSurface.hh"
#include "orange/univ/detail/InfixEvaluator.hh"
#include "orange/univ/detail/LogicEvaluator.hh"
#include "orange/univ/detail/LogicStack.hh"

namespace verif
{
char const* const kPropertyId = "C10";
char const* const kHarness = "c10_csg";
size_t const kMaxBytes = 400;
char const* const kRule
    = "byte string -> CsgTree built with insert() in one of three modes "
      "(random DAG: <=12 surfaces with non-contiguous ids, negations, n-ary "
      "and/or of arity 0..5 with duplicate, complementary and True/False "
      "operands, operands biased to recent nodes so nesting reaches depth "
      ">8, shared sub-DAGs, 1..4 volumes; deep right-nested chain of 6..66 "
      "links (postfix stack depth up to and beyond LogicStack capacity); "
      "production-like shapes + negated boundary as exterior), followed by "
      "one scenario (exchange nodes with constants / equivalent joins then "
      "simplify_up / simplify; replace_and_simplify of a node by True/False, "
      "possibly twice). Oracle = harness' own bit-parallel evaluator: "
      "exhaustive truth table of every node over all 2^n assignments, "
      "compared before/after each rewrite and against the runtime "
      "LogicEvaluator / InfixEvaluator on all 2^|faces| sense vectors. "
      "Non-trivial = some volume is a non-constant function that depends on "
      ">= 3 surfaces and whose DAG contains a negated join or a shared "
      "non-leaf node";
namespace
{
// C10_TRACE=1: print the input of each rewrite to stderr (debugging aid for
// crashes inside the code under test; never influences a verdict)
bool g_trace = false;
}  // namespace
void setup()
{
    g_trace = std::getenv("C10_TRACE") != nullptr;
}

namespace
{
using namespace celeritas;
using namespace celeritas::orangeinp;
using celeritas::orangeinp::detail::InternalSurfaceFlagger;
using celeritas::orangeinp::detail::PostfixLogicBuilder;

//---------------------------------------------------------------------------//
// Bit-parallel truth tables: bit a of the table = f(assignment a), variable
// v of the assignment is bit v of a.  At least 6 variables (one word).
//---------------------------------------------------------------------------//
using Word = uint64_t;
using TT = std::vector<Word>;
constexpr Word kPat[6] = {0xAAAAAAAAAAAAAAAAull,
                          0xCCCCCCCCCCCCCCCCull,
                          0xF0F0F0F0F0F0F0F0ull,
                          0xFF00FF00FF00FF00ull,
                          0xFFFF0000FFFF0000ull,
                          0xFFFFFFFF00000000ull};

TT tt_const(int W, bool v)
{
    return TT(W, v ? ~Word(0) : Word(0));
}
TT tt_var(int W, int v)
{
    TT r(W);
    for (int w = 0; w < W; ++w)
        r[w] = v < 6 ? kPat[v] : (((w >> (v - 6)) & 1) ? ~Word(0) : Word(0));
    return r;
}
void tt_and(TT& a, TT const& b)
{
    for (size_t i = 0; i < a.size(); ++i)
        a[i] &= b[i];
}
void tt_or(TT& a, TT const& b)
{
    for (size_t i = 0; i < a.size(); ++i)
        a[i] |= b[i];
}
TT tt_not(TT a)
{
    for (auto& w : a)
        w = ~w;
    return a;
}
bool tt_any(TT const& a)
{
    for (auto w : a)
        if (w)
            return true;
    return false;
}
bool tt_all(TT const& a)
{
    for (auto w : a)
        if (~w)
            return false;
    return true;
}
// first assignment on which a and b differ inside mask, or -1
long tt_diff(TT const& a, TT const& b, TT const* mask = nullptr)
{
    for (size_t i = 0; i < a.size(); ++i)
    {
        Word d = (a[i] ^ b[i]) & (mask ? (*mask)[i] : ~Word(0));
        if (d)
            return long(i * 64 + __builtin_ctzll(d));
    }
    return -1;
}
// g(a) = f(a with variable v flipped)
TT tt_flip(TT const& f, int v)
{
    TT g(f.size());
    if (v < 6)
    {
        int s = 1 << v;
        for (size_t i = 0; i < f.size(); ++i)
            g[i] = ((f[i] & kPat[v]) >> s) | ((f[i] & ~kPat[v]) << s);
    }
    else
    {
        size_t d = size_t(1) << (v - 6);
        for (size_t i = 0; i < f.size(); ++i)
            g[i] = f[i ^ d];
    }
    return g;
}
bool tt_bit(TT const& f, size_t a)
{
    return (f[a >> 6] >> (a & 63)) & 1u;
}
bool tt_depends(TT const& f, int v)
{
    return tt_diff(f, tt_flip(f, v)) >= 0;
}

//---------------------------------------------------------------------------//
struct Space
{
    int nvar = 0;  // number of surfaces
    int W = 1;  // words per table
    std::vector<int> var_surf;  // variable -> LocalSurfaceId value
    std::vector<int> surf_var;  // LocalSurfaceId value -> variable or -1

    int var_of(LocalSurfaceId s) const
    {
        if (!s || s.get() >= surf_var.size())
            return -1;
        return surf_var[s.get()];
    }
};

std::string node_str(CsgTree const& t, size_t i)
{
    std::ostringstream os;
    os << i << ": " << t[NodeId(i)];
    return os.str();
}

std::string tree_str(CsgTree const& t)
{
    std::ostringstream os;
    os << t;
    if (!t.volumes().empty())
    {
        os << " volumes=[";
        for (auto v : t.volumes())
            os << v.unchecked_get() << ' ';
        os << ']';
    }
    return os.str();
}

// Truth table of every node id, from the stored structure only.
bool eval_tree(CsgTree const& t,
               Space const& sp,
               std::vector<TT>& out,
               std::string& err)
{
    size_t n = t.size();
    out.assign(n, TT());
    auto child_ok = [&](NodeId c, size_t i) {
        if (!c || c.get() >= i)
        {
            err = "tree is not topologically sorted / dangling id at node "
                  + node_str(t, i);
            return false;
        }
        return true;
    };
    for (size_t i = 0; i < n; ++i)
    {
        Node const& nd = t[NodeId(i)];
        if (std::holds_alternative<True>(nd))
            out[i] = tt_const(sp.W, true);
        else if (std::holds_alternative<False>(nd))
            out[i] = tt_const(sp.W, false);
        else if (auto* a = std::get_if<Aliased>(&nd))
        {
            if (!child_ok(a->node, i))
                return false;
            out[i] = out[a->node.get()];
        }
        else if (auto* g = std::get_if<Negated>(&nd))
        {
            if (!child_ok(g->node, i))
                return false;
            out[i] = tt_not(out[g->node.get()]);
        }
        else if (auto* s = std::get_if<Surface>(&nd))
        {
            int v = sp.var_of(s->id);
            if (v < 0)
            {
                err = "unknown surface id in node " + node_str(t, i);
                return false;
            }
            out[i] = tt_var(sp.W, v);
        }
        else if (auto* j = std::get_if<Joined>(&nd))
        {
            if (j->op != op_and && j->op != op_or)
            {
                err = "bad join operator in node " + node_str(t, i);
                return false;
            }
            TT r = tt_const(sp.W, j->op == op_and);
            for (NodeId c : j->nodes)
            {
                if (!child_ok(c, i))
                    return false;
                if (j->op == op_and)
                    tt_and(r, out[c.get()]);
                else
                    tt_or(r, out[c.get()]);
            }
            out[i] = std::move(r);
        }
        else
        {
            err = "valueless node";
            return false;
        }
    }
    return true;
}

NodeId dealias(CsgTree const& t, NodeId n)
{
    int guard = 0;
    while (auto* a = std::get_if<Aliased>(&t[n]))
    {
        n = a->node;
        if (++guard > 100000 || !n || n.get() >= t.size())
            return NodeId{};
    }
    return n;
}

// Syntactic facts about the sub-DAG reachable from a root
struct Reach
{
    std::vector<int> surfs;  // sorted unique surface ids
    bool negjoin = false;  // Negated whose (dealiased) operand is a Joined
    bool neg_nonsurf = false;  // Negated whose operand is not a Surface
    bool has_true = false;
    bool has_alias = false;
    // Negated whose operand is an *alias* of a Joined (class of F11)
    bool neg_alias_join = false;
    int shared = 0;  // non-leaf nodes with >= 2 parents inside the sub-DAG
    int depth = 0;  // longest path (aliases do not count)
    int nodes = 0;
};

Reach reach(CsgTree const& t, NodeId root)
{
    Reach r;
    size_t n = t.size();
    std::vector<int> indeg(n, 0), depth(n, -1);
    std::vector<char> seen(n, 0);
    // iterative DFS (ids are topologically sorted: children < parent), so a
    // descending sweep over the marked nodes visits parents first
    seen[root.get()] = 1;
    for (size_t k = root.get() + 1; k-- > 0;)
    {
        if (!seen[k])
            continue;
        ++r.nodes;
        Node const& nd = t[NodeId(k)];
        auto mark = [&](NodeId c) {
            if (c && c.get() < k)
            {
                seen[c.get()] = 1;
                ++indeg[c.get()];
            }
        };
        if (std::holds_alternative<True>(nd))
            r.has_true = true;
        else if (auto* a = std::get_if<Aliased>(&nd))
        {
            r.has_alias = true;
            mark(a->node);
        }
        else if (auto* g = std::get_if<Negated>(&nd))
        {
            mark(g->node);
            NodeId d = dealias(t, g->node);
            if (d)
            {
                if (std::holds_alternative<Joined>(t[d]))
                {
                    r.negjoin = true;
                    if (d != g->node)
                        r.neg_alias_join = true;
                }
                if (!std::holds_alternative<Surface>(t[d]))
                    r.neg_nonsurf = true;
            }
        }
        else if (auto* s = std::get_if<Surface>(&nd))
            r.surfs.push_back(int(s->id.get()));
        else if (auto* j = std::get_if<Joined>(&nd))
            for (NodeId c : j->nodes)
                mark(c);
    }
    std::sort(r.surfs.begin(), r.surfs.end());
    r.surfs.erase(std::unique(r.surfs.begin(), r.surfs.end()), r.surfs.end());
    // ascending sweep for depth / sharing
    for (size_t k = 0; k <= root.get(); ++k)
    {
        if (!seen[k])
            continue;
        Node const& nd = t[NodeId(k)];
        int d = 1;
        bool leaf = true;
        if (auto* a = std::get_if<Aliased>(&nd))
        {
            d = depth[a->node.get()];
            leaf = false;
        }
        else if (auto* g = std::get_if<Negated>(&nd))
        {
            d = 1 + depth[g->node.get()];
            leaf = false;
        }
        else if (auto* j = std::get_if<Joined>(&nd))
        {
            int m = 0;
            for (NodeId c : j->nodes)
                m = std::max(m, depth[c.get()]);
            d = 1 + m;
            leaf = false;
        }
        depth[k] = d;
        if (!leaf && indeg[k] >= 2 && !std::holds_alternative<Aliased>(nd))
            ++r.shared;
    }
    r.depth = depth[root.get()];
    return r;
}

//---------------------------------------------------------------------------//
// Parser for build_infix_string output:
//   expr := 'T' | 'F' | ('+'|'-') uint | '!' expr
//         | ('all'|'any') '(' expr (', ' expr)* ')'
//---------------------------------------------------------------------------//
struct InfixParser
{
    std::string const& s;
    Space const& sp;
    size_t i = 0;
    bool ok = true;

    TT expr()
    {
        if (i >= s.size())
        {
            ok = false;
            return tt_const(sp.W, false);
        }
        char ch = s[i];
        if (ch == 'T' || ch == 'F')
        {
            ++i;
            return tt_const(sp.W, ch == 'T');
        }
        if (ch == '+' || ch == '-')
        {
            ++i;
            size_t j = i;
            unsigned long id = 0;
            while (i < s.size() && s[i] >= '0' && s[i] <= '9')
                id = id * 10 + (s[i++] - '0');
            int v = (i > j && id < sp.surf_var.size()) ? sp.surf_var[id] : -1;
            if (v < 0)
            {
                ok = false;
                return tt_const(sp.W, false);
            }
            TT r = tt_var(sp.W, v);
            return ch == '+' ? r : tt_not(r);
        }
        if (ch == '!')
        {
            ++i;
            return tt_not(expr());
        }
        bool is_all = s.compare(i, 4, "all(") == 0;
        bool is_any = s.compare(i, 4, "any(") == 0;
        if (!is_all && !is_any)
        {
            ok = false;
            return tt_const(sp.W, false);
        }
        i += 4;
        TT r = expr();
        while (ok && s.compare(i, 2, ", ") == 0)
        {
            i += 2;
            TT q = expr();
            if (is_all)
                tt_and(r, q);
            else
                tt_or(r, q);
        }
        if (i >= s.size() || s[i] != ')')
            ok = false;
        else
            ++i;
        return r;
    }
};

//---------------------------------------------------------------------------//
// Harness' encoder of the runtime *infix token* form consumed by
// InfixEvaluator: every Joined becomes one parenthesised group with a single
// operator kind; negation only directly in front of a face (the evaluator
// documents that negated sub-expressions are unsupported).
//---------------------------------------------------------------------------//
struct InfixTokenEncoder
{
    CsgTree const& t;
    std::vector<int> const& faces;  // sorted surface ids
    std::vector<logic_int> out;

    logic_int face_of(LocalSurfaceId s) const
    {
        auto it = std::lower_bound(faces.begin(), faces.end(), int(s.get()));
        return logic_int(it - faces.begin());
    }
    bool enc(NodeId n, bool top_parens)
    {
        n = dealias(t, n);
        if (!n)
            return false;
        Node const& nd = t[n];
        if (std::holds_alternative<True>(nd))
        {
            out.push_back(logic::ltrue);
            return true;
        }
        if (auto* s = std::get_if<Surface>(&nd))
        {
            out.push_back(face_of(s->id));
            return true;
        }
        if (auto* g = std::get_if<Negated>(&nd))
        {
            NodeId d = dealias(t, g->node);
            auto* s = d ? std::get_if<Surface>(&t[d]) : nullptr;
            if (!s)
                return false;
            out.push_back(logic::lnot);
            out.push_back(face_of(s->id));
            return true;
        }
        if (auto* j = std::get_if<Joined>(&nd))
        {
            if (top_parens)
                out.push_back(logic::lopen);
            bool first = true;
            for (NodeId c : j->nodes)
            {
                if (!first)
                    out.push_back(j->op);
                first = false;
                if (!enc(c, true))
                    return false;
            }
            if (top_parens)
                out.push_back(logic::lclose);
            return true;
        }
        return false;
    }
};

//---------------------------------------------------------------------------//
// Per-case statistics
//---------------------------------------------------------------------------//
struct Stats
{
    long logic_evals = 0;
    long infix_evals = 0;
    long vols_postfix = 0;
    long vols_infix_tok = 0;
    long vols_infix_str = 0;
    long vols_simple = 0;
    long vols_simple_nonvacuous = 0;
    long vols_remapped = 0;  // mapping with at least one shifted surface
    long sense_evals = 0;
    int max_postfix_depth = 0;
    bool depth_gt_cap = false;
    bool enc_with_alias = false;
};

// Stack depth of a postfix expression, -1 if malformed
int postfix_depth(std::vector<logic_int> const& lg)
{
    int cur = 0, mx = 0;
    for (logic_int t : lg)
    {
        if (!logic::is_operator_token(t) || t == logic::ltrue)
            mx = std::max(mx, ++cur);
        else if (t == logic::land || t == logic::lor)
        {
            if (cur < 2)
                return -1;
            --cur;
        }
        else if (t == logic::lnot)
        {
            if (cur < 1)
                return -1;
        }
        else
            return -1;
    }
    return cur == 1 ? mx : -1;
}

// All encodings of every volume of `t`, judged against tts (truth tables of
// the nodes of `t` computed by eval_tree).  Returns "" or a message.
// Known finding F11: InternalSurfaceFlagger::operator()(Negated) tests
// `tree_[n.node]` for Joined without following aliases, so not{->{all{..}}}
// is reported "simple".  Only for partially simplified trees (public
// CsgTree::exchange / simplify(NodeId) without a full sweep).
char const* const kF11 = "F19-flagger-negated-alias-of-join";

std::string check_encodings(CsgTree const& t,
                            std::vector<TT> const& tts,
                            Space const& sp,
                            bool infix_top_parens,
                            Stats& st,
                            std::string* finding)
{
    // all Surface nodes of the tree (what calc_surfaces must return)
    std::vector<LocalSurfaceId> all_surf;
    for (size_t i = 0; i < t.size(); ++i)
        if (auto* s = std::get_if<Surface>(&t[NodeId(i)]))
            all_surf.push_back(s->id);
    std::sort(all_surf.begin(), all_surf.end());
    all_surf.erase(std::unique(all_surf.begin(), all_surf.end()),
                   all_surf.end());
    auto mapping = calc_surfaces(t);
    if (mapping != all_surf)
        return "calc_surfaces differs from the sorted set of Surface nodes";

    PostfixLogicBuilder build(t);
    PostfixLogicBuilder build_mapped(t, mapping);
    InternalSurfaceFlagger has_internal(t);

    size_t nvol = std::min<size_t>(t.volumes().size(), 6);
    for (size_t vi = 0; vi < nvol; ++vi)
    {
        NodeId vol = t.volumes()[vi];
        std::string where
            = " (volume " + std::to_string(vi) + " = node "
              + std::to_string(vol.get()) + ")";
        TT const& f = tts[vol.get()];
        Reach rc = reach(t, vol);
        if (rc.has_alias)
            st.enc_with_alias = true;

        // the function may only depend on its syntactic surfaces
        std::vector<int> fvars;
        for (int s : rc.surfs)
            fvars.push_back(sp.surf_var[s]);
        for (int v = 0; v < sp.nvar; ++v)
            if (std::find(fvars.begin(), fvars.end(), v) == fvars.end()
                && tt_depends(f, v))
                return "harness evaluator inconsistent: function depends on "
                       "a surface outside its DAG"
                       + where;

        // ---- postfix ----
        auto [faces, lgc] = build(vol);
        {
            std::vector<int> got;
            for (auto fc : faces)
                got.push_back(int(fc.get()));
            if (got != rc.surfs)
                return "PostfixLogicBuilder faces are not the sorted set of "
                       "surfaces of the volume's DAG"
                       + where;
        }
        if (lgc.empty())
            return "PostfixLogicBuilder returned empty logic" + where;
        for (logic_int tk : lgc)
            if (!logic::is_operator_token(tk) && tk >= faces.size())
                return "postfix logic refers to a face index out of range"
                       + where;
        int depth = postfix_depth(lgc);
        if (depth < 0)
            return "postfix logic is malformed (operators do not balance)"
                   + where;
        st.max_postfix_depth = std::max(st.max_postfix_depth, depth);
        size_t F = faces.size();
        // LogicStack holds max_stack_depth() entries; OrangeParams rejects
        // depth >= max_stack_depth() at construction
        if (size_t(depth)
            <= celeritas::detail::LogicStack::max_stack_depth())
        {
            celeritas::detail::LogicEvaluator eval_logic(make_span(lgc));
            std::vector<Sense> senses(F);
            for (size_t a = 0; a < (size_t(1) << F); ++a)
            {
                size_t idx = 0;
                for (size_t k = 0; k < F; ++k)
                {
                    bool b = (a >> k) & 1u;
                    senses[k] = to_sense(b);
                    idx |= size_t(b) << fvars[k];
                }
                bool got = eval_logic(make_span(senses));
                if (got != tt_bit(f, idx))
                {
                    return "runtime LogicEvaluator on PostfixLogicBuilder "
                           "output differs from the region function at face "
                           "assignment "
                           + std::to_string(a) + where;
                }
            }
            st.logic_evals += long(1) << F;
            ++st.vols_postfix;
        }
        else
            st.depth_gt_cap = true;

        // ---- postfix with surface remapping (production path) ----
        {
            auto [faces2, lgc2] = build_mapped(vol);
            if (faces2.size() != faces.size())
                return "remapped postfix: different number of faces" + where;
            bool shifted = false;
            for (size_t k = 0; k < faces2.size(); ++k)
            {
                if (!(faces2[k] < mapping.size())
                    || mapping[faces2[k].get()] != faces[k])
                    return "remapped postfix: face does not map back to "
                           "the original surface"
                           + where;
                shifted = shifted || faces2[k] != faces[k];
            }
            if (lgc2 != lgc)
                return "remapped postfix: logic differs from unmapped logic "
                       "(face indices are positions in the sorted face list "
                       "in both cases)"
                       + where;
            if (shifted)
                ++st.vols_remapped;
        }

        // ---- infix string ----
        {
            std::string s = build_infix_string(t, vol);
            InfixParser p{s, sp};
            TT g = p.expr();
            if (!p.ok || p.i != s.size())
                return "build_infix_string output does not parse: '" + s + "'"
                       + where;
            long d = tt_diff(g, f);
            if (d >= 0)
                return "build_infix_string '" + s
                       + "' differs from the region function at assignment "
                       + std::to_string(d) + where;
            ++st.vols_infix_str;
        }

        // ---- runtime infix evaluator on token form ----
        if (!rc.neg_nonsurf)
        {
            InfixTokenEncoder e{t, rc.surfs, {}};
            if (e.enc(vol, infix_top_parens) && !e.out.empty())
            {
                celeritas::detail::InfixEvaluator eval_infix(make_span(e.out));
                for (size_t a = 0; a < (size_t(1) << F); ++a)
                {
                    size_t idx = 0;
                    for (size_t k = 0; k < F; ++k)
                        idx |= size_t((a >> k) & 1u) << fvars[k];
                    bool got = eval_infix([a](FaceId fid) {
                        return bool((a >> fid.unchecked_get()) & 1u);
                    });
                    if (got != tt_bit(f, idx))
                        return "runtime InfixEvaluator differs from the "
                               "region function at face assignment "
                               + std::to_string(a) + where;
                }
                st.infix_evals += long(1) << F;
                ++st.vols_infix_tok;
            }
        }

        // ---- internal-surface flag ----
        if (!has_internal(vol))
        {
            ++st.vols_simple;
            // simple => conjunction of literals over the faces: from any
            // inside assignment, flipping any single face leaves the region
            for (int v : fvars)
            {
                TT g = tt_flip(f, v);
                tt_and(g, f);
                if (tt_any(g))
                {
                    if (rc.neg_alias_join)
                        *finding = kF11;
                    return "InternalSurfaceFlagger says 'simple' but "
                           "crossing surface "
                           + std::to_string(sp.var_surf[v])
                           + " from an inside point stays inside" + where;
                }
            }
            if (tt_any(f) && !fvars.empty())
                ++st.vols_simple_nonvacuous;
        }
    }
    return {};
}

// SenseEvaluator on a few assignments: surface i is the plane x = -1 (point
// at the origin is outside, i.e. node true) or x = +1 (inside, node false)
std::string check_sense_evaluator(CsgTree const& t,
                                  std::vector<TT> const& tts,
                                  Space const& sp,
                                  uint64_t seed_bits,
                                  Stats& st)
{
    if (t.volumes().empty())
        return {};
    size_t maxid = 0;
    for (int s : sp.var_surf)
        maxid = std::max<size_t>(maxid, s);
    size_t total = size_t(1) << sp.nvar;
    for (int k = 0; k < 8; ++k)
    {
        // spread sample points deterministically over the assignments
        size_t a = size_t((seed_bits * 0x9E3779B97F4A7C15ull
                           + uint64_t(k) * 0xD1B54A32D192ED03ull)
                          >> 20)
                   % total;
        std::vector<VariantSurface> surfaces(maxid + 1, PlaneX{1.0});
        for (int v = 0; v < sp.nvar; ++v)
            surfaces[sp.var_surf[v]] = PlaneX{((a >> v) & 1u) ? -1.0 : 1.0};
        orangeinp::detail::SenseEvaluator eval_sense(
            t, surfaces, Real3{0, 0, 0});
        for (NodeId vol : t.volumes())
        {
            SignedSense ss = eval_sense(vol);
            bool expect = tt_bit(tts[vol.get()], a);
            if (ss != (expect ? SignedSense::inside : SignedSense::outside))
                return "SenseEvaluator differs from the region function at "
                       "assignment "
                       + std::to_string(a) + " (node "
                       + std::to_string(vol.get()) + ")";
            ++st.sense_evals;
        }
    }
    return {};
}

// transform_negated_joins: same function for every (remapped) volume, no
// negated join left, result is alias free; then all encodings of the result.
std::string check_demorgan(CsgTree const& t,
                           std::vector<TT> const& tts,
                           Space const& sp,
                           bool infix_top_parens,
                           Stats& st,
                           bool* changed,
                           std::string* finding)
{
    if (g_trace)
        std::fprintf(stderr,
                     "[c10 trace] transform_negated_joins on %s\n",
                     tree_str(t).c_str());
    CsgTree d = transform_negated_joins(t);
    if (d.volumes().size() != t.volumes().size())
        return "transform_negated_joins changed the number of volumes";
    std::vector<TT> dt;
    std::string err;
    if (!eval_tree(d, sp, dt, err))
        return "transform_negated_joins result: " + err;
    for (size_t i = 0; i < d.size(); ++i)
    {
        Node const& nd = d[NodeId(i)];
        if (std::holds_alternative<Aliased>(nd))
            return "transform_negated_joins result contains an alias node "
                   + node_str(d, i);
        if (auto* g = std::get_if<Negated>(&nd))
            if (std::holds_alternative<Joined>(d[g->node]))
                return "transform_negated_joins left a negated join: "
                       + node_str(d, i) + " in " + tree_str(d);
    }
    for (size_t vi = 0; vi < t.volumes().size(); ++vi)
    {
        NodeId a = t.volumes()[vi], b = d.volumes()[vi];
        if (!(b < d.size()))
            return "transform_negated_joins: volume maps to an invalid node";
        long df = tt_diff(tts[a.get()], dt[b.get()]);
        if (df >= 0)
            return "transform_negated_joins changed the function of volume "
                   + std::to_string(vi) + " (node " + std::to_string(a.get())
                   + " -> " + std::to_string(b.get()) + ") at assignment "
                   + std::to_string(df) + "; result " + tree_str(d);
    }
    if (changed)
        *changed = d.size() != t.size();
    std::string e = check_encodings(d, dt, sp, infix_top_parens, st, finding);
    if (!e.empty())
        return "after transform_negated_joins: " + e + "; result "
               + tree_str(d);
    return {};
}

//---------------------------------------------------------------------------//
// Generator
//---------------------------------------------------------------------------//
// weighted choice from ONE byte (weights sum to 256); monotone
int pick8(Choices& c, std::initializer_list<int> w)
{
    int b = int(c.byte());
    int i = 0, last = 0;
    for (int x : w)
    {
        if (x > 0)
        {
            last = i;
            if (b < x)
                return i;
            b -= x;
        }
        ++i;
    }
    return last;
}

struct Gen
{
    Choices& c;
    CaseLog& log;
    Space sp;
    CsgTree tree;
    std::vector<TT> ttn;  // intended truth table of every node id
    std::vector<NodeId> pool;  // ids handed out by insert (operand pool)
    int next_var = 0;
    std::string err;
    // generator class facts
    bool dup_operand = false, compl_operand = false, const_operand = false;
    bool small_arity = false, dedup_hit = false, insert_simplified = false;

    Gen(Choices& c_, CaseLog& l_) : c(c_), log(l_) {}

    void init_space(int nvar, int stride, int offset)
    {
        sp.nvar = nvar;
        int eff = std::max(nvar, 6);
        sp.W = 1 << (eff - 6);
        sp.var_surf.resize(nvar);
        sp.surf_var.assign(offset + stride * nvar + 1, -1);
        for (int v = 0; v < nvar; ++v)
        {
            sp.var_surf[v] = offset + stride * v;
            sp.surf_var[sp.var_surf[v]] = v;
        }
        ttn.push_back(tt_const(sp.W, true));
        ttn.push_back(tt_const(sp.W, false));
    }

    // insert and check the returned id against the intended function
    NodeId ins(Node&& n, TT intended, bool expect_plain_new = false)
    {
        if (!err.empty())
            return CsgTree::true_node_id();
        auto [id, inserted] = tree.insert(std::move(n));
        if (!id || id.get() > ttn.size() || tree.size() < ttn.size())
        {
            err = "insert returned an invalid id";
            return CsgTree::true_node_id();
        }
        if (inserted)
        {
            if (id.get() != ttn.size() || tree.size() != ttn.size() + 1)
            {
                err = "insert reported a new node but did not append it";
                return CsgTree::true_node_id();
            }
            ttn.push_back(std::move(intended));
        }
        else
        {
            if (id.get() >= ttn.size() || tree.size() != ttn.size())
            {
                err = "insert reported an existing node with a new id";
                return CsgTree::true_node_id();
            }
            long d = tt_diff(ttn[id.get()], intended);
            if (d >= 0)
            {
                err = "insert deduplicated/simplified to node "
                      + std::to_string(id.get())
                      + " whose function differs from the inserted node's "
                        "at assignment "
                      + std::to_string(d);
                return CsgTree::true_node_id();
            }
            dedup_hit = true;
        }
        (void)expect_plain_new;
        return id;
    }

    NodeId ins_surface(int v)
    {
        return ins(Surface{LocalSurfaceId(sp.var_surf[v])}, tt_var(sp.W, v));
    }
    NodeId ins_neg(NodeId x)
    {
        return ins(Negated{x}, tt_not(ttn[x.get()]));
    }
    NodeId ins_join(OperatorToken op, std::vector<NodeId> nodes)
    {
        TT r = tt_const(sp.W, op == op_and);
        for (NodeId x : nodes)
        {
            if (op == op_and)
                tt_and(r, ttn[x.get()]);
            else
                tt_or(r, ttn[x.get()]);
        }
        for (NodeId x : nodes)
            log.mix(unsigned(x.get()));
        log.mix(unsigned(op));
        return ins(Joined{op, std::move(nodes)}, std::move(r));
    }
    NodeId literal()
    {
        int v = int(c.index(sp.nvar));
        bool neg = c.boolean(0.4);
        log.mix(v * 2 + neg);
        NodeId s = ins_surface(v);
        return neg ? ins_neg(s) : s;
    }

    NodeId operand()
    {
        int k = pick8(c, {110, 60, 6, 80});
        NodeId r;
        if (k == 3)
        {
            // literal of a random (preferably not yet used) variable
            int v = (next_var < sp.nvar && c.boolean(0.5))
                        ? next_var++
                        : int(c.index(sp.nvar));
            r = ins_surface(v);
            if (c.boolean(0.4))
                r = ins_neg(r);
        }
        else if (k == 2)
        {
            const_operand = true;
            r = c.boolean(0.5) ? CsgTree::false_node_id()
                               : CsgTree::true_node_id();
        }
        else if (k == 0 || pool.size() <= 4)
        {
            // recent (drives nesting depth)
            size_t m = std::min<size_t>(pool.size(), 4);
            r = pool[pool.size() - 1 - c.index(m)];
        }
        else
            r = pool[c.index(pool.size())];
        return r;
    }

    void gen_dag(int nops)
    {
        pool.push_back(ins_surface(next_var++));
        for (int k = 0; k < nops && err.empty(); ++k)
        {
            int kind = pick8(c, {24, 44, 75, 75, 38});
            log.mix(kind);
            NodeId r;
            if (kind == 0)
            {
                int v = next_var < sp.nvar ? next_var++
                                           : int(c.index(sp.nvar));
                r = ins_surface(v);
            }
            else if (kind == 1)
            {
                NodeId x = operand();
                log.mix(unsigned(x.get()));
                r = ins_neg(x);
            }
            else if (kind == 4)
            {
                // new surface joined with recent node (keeps using fresh
                // variables deep in the DAG)
                int v = next_var < sp.nvar ? next_var++
                                           : int(c.index(sp.nvar));
                NodeId s = ins_surface(v);
                if (c.boolean(0.4))
                    s = ins_neg(s);
                r = ins_join(c.boolean(0.5) ? op_or : op_and,
                             {pool.back(), s});
            }
            else
            {
                int arity = 2 + pick8(c, {120, 70, 30, 12, 12, 12});
                if (arity == 6)
                    arity = 0;
                else if (arity == 7)
                    arity = 1;
                if (arity < 2)
                    small_arity = true;
                std::vector<NodeId> ops;
                for (int q = 0; q < arity; ++q)
                {
                    int how = ops.empty() ? 0 : pick8(c, {222, 20, 14});
                    if (how == 1)
                    {
                        ops.push_back(ops[c.index(ops.size())]);
                        dup_operand = true;
                    }
                    else if (how == 2)
                    {
                        NodeId x = ops[c.index(ops.size())];
                        ops.push_back(ins_neg(x));
                        compl_operand = true;
                    }
                    else
                        ops.push_back(operand());
                }
                r = ins_join(kind == 2 ? op_and : op_or, std::move(ops));
            }
            // constants are reachable as operands through operand() only
            if (r > CsgTree::false_node_id())
                pool.push_back(r);
        }
    }

    // deep right-nested chain: x <- op(literal, x)
    std::vector<NodeId> chain_nodes;
    void gen_chain(int links)
    {
        // all literals first so that they sort before the nested join
        for (int v = 0; v < sp.nvar; ++v)
        {
            NodeId s = ins_surface(v);
            ins_neg(s);
        }
        next_var = sp.nvar;
        NodeId x = literal();
        bool alternate = c.boolean(0.7);
        OperatorToken op = c.boolean(0.5) ? op_or : op_and;
        for (int l = 0; l < links && err.empty(); ++l)
        {
            NodeId lit = literal();
            if (alternate)
                op = (op == op_and ? op_or : op_and);
            else if (c.boolean(0.3))
                op = (op == op_and ? op_or : op_and);
            x = ins_join(op, {lit, x});
            if (c.boolean(0.08))
                x = ins_neg(x);
            chain_nodes.push_back(x);
            pool.push_back(x);
        }
        if (pool.empty())
            pool.push_back(x);
    }

    // production-like: shapes = intersections of literals, boundary,
    // exterior = not boundary (volume 0), cells with holes, remainder
    NodeId exterior;
    void gen_prod()
    {
        int nshape = int(c.int_in(2, 5));
        std::vector<NodeId> shapes;
        for (int s = 0; s < nshape && err.empty(); ++s)
        {
            int nl = int(c.int_in(2, 4));
            std::vector<NodeId> lits;
            for (int q = 0; q < nl; ++q)
                lits.push_back(literal());
            shapes.push_back(ins_join(op_and, std::move(lits)));
        }
        NodeId boundary = shapes[0];
        size_t first_cell = 1;
        if (nshape > 2 && c.boolean(0.3))
        {
            boundary = ins_join(c.boolean(0.3) ? op_or : op_and,
                                {shapes[0], shapes[1]});
            first_cell = 2;
        }
        exterior = ins_neg(boundary);
        tree.insert_volume(exterior);
        std::vector<NodeId> cells;
        for (size_t i = first_cell; i < shapes.size() && err.empty(); ++i)
        {
            NodeId other = shapes[c.index(shapes.size())];
            NodeId cell;
            switch (pick8(c, {64, 64, 64, 32, 32}))
            {
                case 0: cell = shapes[i]; break;
                case 1:
                    cell = ins_join(op_and, {shapes[i], ins_neg(other)});
                    break;
                case 2: cell = ins_join(op_and, {boundary, shapes[i]}); break;
                case 3: cell = ins_join(op_or, {shapes[i], other}); break;
                default:
                    cell = ins_join(op_and,
                                    {boundary, shapes[i], ins_neg(other)});
                    break;
            }
            cells.push_back(cell);
            tree.insert_volume(cell);
        }
        // remainder = boundary minus all cells
        std::vector<NodeId> rest{boundary};
        if (c.boolean(0.5) && cells.size() > 1)
            rest.push_back(ins_neg(ins_join(op_or, cells)));
        else
            for (NodeId x : cells)
                rest.push_back(ins_neg(x));
        NodeId rem = ins_join(op_and, std::move(rest));
        tree.insert_volume(rem);
        pool = shapes;
        pool.push_back(rem);
    }
};

// compare all node truth tables of a rewritten tree with the originals on
// the assignments in `mask`
std::string compare_nodes(CsgTree const& t,
                          std::vector<TT> const& now,
                          std::vector<TT> const& orig,
                          TT const& mask,
                          char const* what)
{
    if (now.size() != orig.size())
        return std::string(what) + " changed the number of nodes";
    for (size_t i = 0; i < now.size(); ++i)
    {
        long d = tt_diff(now[i], orig[i], &mask);
        if (d >= 0)
        {
            bool is_vol = std::find(t.volumes().begin(),
                                    t.volumes().end(),
                                    NodeId(i))
                          != t.volumes().end();
            return std::string(what) + " changed the function of node "
                   + std::to_string(i) + (is_vol ? " (a volume)" : "")
                   + " at assignment " + std::to_string(d)
                   + " (consistent with the replaced constants); tree now "
                   + tree_str(t);
        }
    }
    return {};
}

}  // namespace

//---------------------------------------------------------------------------//
Verdict run_case(Choices& c, CaseLog& log)
{
    Gen g(c, log);
    Stats st;
    std::string finding;  // key of a listed finding matched by a failure

    // ---- header (drawn first so that long op lists cannot starve it) ----
    int mode = pick8(c, {150, 36, 70});
    int nvar;
    switch (pick8(c, {16, 156, 84}))
    {
        case 0: nvar = int(c.int_in(1, 3)); break;
        case 1: nvar = int(c.int_in(4, 8)); break;
        default: nvar = int(c.int_in(9, 12)); break;
    }
    int stride = int(c.int_in(1, 3));
    int offset = int(c.int_in(0, 4));
    int nops = int(c.int_in(4, 36));
    int nvol = int(c.int_in(1, 4));
    int scen = pick8(c, {24, 104, 128});
    unsigned sb[10];
    for (auto& b : sb)
        b = c.byte();
    bool infix_top_parens = sb[9] & 1u;
    if (mode == 1)
        nvar = std::min(std::max(nvar, 3), 10);
    if (mode == 2)
        nvar = std::max(nvar, 4);
    for (int v : {mode, nvar, stride, offset, nops, nvol, scen})
        log.mix(v);
    for (auto b : sb)
        log.mix(b);
    g.init_space(nvar, stride, offset);
    Space const& sp = g.sp;

    // ---- build the tree ----
    char const* mode_name = mode == 0 ? "dag" : mode == 1 ? "chain" : "prod";
    if (mode == 0)
    {
        log.label("mode-dag");
        g.gen_dag(nops);
    }
    else if (mode == 1)
    {
        log.label("mode-chain");
        // 40 %: stack depth (= links + 1) next to the LogicStack capacity
        // (32 with 32-bit size_type, 64 in this host-only build)
        int cap = int(celeritas::detail::LogicStack::max_stack_depth());
        g.gen_chain(sb[8] < 102 ? cap - 5 + int(sb[7] % 8)
                                : 6 + (nops - 4) * 38 / 32);
    }
    else
    {
        log.label("mode-prod");
        g.gen_prod();
    }
    if (!g.err.empty())
    {
        if (log.want_desc)
            log.ds("tree", tree_str(g.tree));
        return log.fail(g.err);
    }
    CsgTree& t0 = g.tree;
    if (mode != 2)
    {
        for (int v = 0; v < nvol; ++v)
        {
            NodeId n;
            int how = pick8(c, {110, 70, 60, 16});
            if (v == 0)
            {
                // the node whose function depends on most surfaces (latest
                // on ties): CSG volumes are the roots of the DAG
                n = g.pool.back();
                int best = -1;
                for (size_t q = g.pool.size(); mode == 0 && q-- > 0;)
                {
                    int dep = 0;
                    for (int var = 0; var < sp.nvar; ++var)
                        dep += tt_depends(g.ttn[g.pool[q].get()], var);
                    if (dep > best)
                    {
                        best = dep;
                        n = g.pool[q];
                    }
                }
            }
            else if (how == 0)
                n = g.pool.back();
            else if (how == 1)
                n = g.pool[g.pool.size() - 1
                           - c.index(std::min<size_t>(g.pool.size(), 4))];
            else if (how == 2)
                n = g.pool[c.index(g.pool.size())];
            else
                n = c.boolean(0.5) ? CsgTree::false_node_id()
                                   : CsgTree::true_node_id();
            if (mode == 1 && v == 1 && c.boolean(0.5))
                n = g.ins_neg(g.pool.back());
            log.mix(unsigned(n.get()));
            t0.insert_volume(n);
        }
        if (!g.err.empty())
            return log.fail(g.err);
    }
    log.ds("mode", mode_name);
    log.d("nvar", nvar);
    log.d("surface_ids", "\"" + std::to_string(offset) + "+"
                             + std::to_string(stride) + "*v\"");
    if (log.want_desc)
        log.ds("tree", tree_str(t0));

    // ---- TT0 from the stored structure; must agree with the intent ----
    std::vector<TT> tt0;
    std::string err;
    if (!eval_tree(t0, sp, tt0, err))
        return log.fail("after insert: " + err);
    if (tt0.size() != g.ttn.size())
        return log.fail("tree size differs from the number of inserted nodes");
    for (size_t i = 0; i < tt0.size(); ++i)
    {
        if (tt_diff(tt0[i], g.ttn[i]) >= 0)
            return log.fail("stored node " + node_str(t0, i)
                            + " does not compute the inserted function");
        // documented insert post-conditions: no aliases, no double
        // negation, joins have >= 2 sorted unique non-constant operands
        Node const& nd = t0[NodeId(i)];
        if (std::holds_alternative<Aliased>(nd))
            return log.fail("insert stored an alias node " + node_str(t0, i));
        if (auto* ng = std::get_if<Negated>(&nd))
        {
            if (i > 1
                && (std::holds_alternative<Negated>(t0[ng->node])
                    || std::holds_alternative<True>(t0[ng->node])))
                return log.fail("insert stored an unsimplified negation "
                                + node_str(t0, i));
        }
        if (auto* j = std::get_if<Joined>(&nd))
        {
            bool ok = j->nodes.size() >= 2;
            for (size_t q = 0; q < j->nodes.size() && ok; ++q)
                ok = j->nodes[q] > CsgTree::false_node_id()
                     && (q == 0 || j->nodes[q - 1] < j->nodes[q]);
            if (!ok)
                return log.fail("insert stored an unsimplified join "
                                + node_str(t0, i));
        }
    }

    // ---- classes and non-triviality of the generated tree ----
    bool nontrivial = false, any_negjoin = false, any_shared = false;
    int max_depth = 0, max_dep_vars = 0;
    for (NodeId vol : t0.volumes())
    {
        Reach rc = reach(t0, vol);
        TT const& f = tt0[vol.get()];
        int dep = 0;
        for (int v = 0; v < sp.nvar; ++v)
            dep += tt_depends(f, v);
        max_dep_vars = std::max(max_dep_vars, dep);
        max_depth = std::max(max_depth, rc.depth);
        any_negjoin = any_negjoin || rc.negjoin;
        any_shared = any_shared || rc.shared > 0;
        if (dep >= 3 && (rc.negjoin || rc.shared > 0))
            nontrivial = true;
    }
    if (g.dup_operand)
        log.label("gen-duplicate-operand");
    if (g.compl_operand)
        log.label("gen-complementary-operand");
    if (g.const_operand)
        log.label("gen-true-false-operand");
    if (g.small_arity)
        log.label("gen-arity-0-or-1-join");
    if (g.dedup_hit)
        log.label("gen-insert-dedup-or-simplified");
    if (any_negjoin)
        log.label("tree-negated-join");
    if (any_shared)
        log.label("tree-shared-subdag");
    if (t0.volumes().size() > 1)
        log.label("tree-multi-volume");
    log.label(max_depth <= 2   ? "dag-depth-1-2"
              : max_depth <= 5 ? "dag-depth-3-5"
              : max_depth <= 8 ? "dag-depth-6-8"
              : max_depth <= 16 ? "dag-depth-9-16"
                                : "dag-depth-17+");
    log.label(nvar <= 3 ? "nvar-1-3" : nvar <= 8 ? "nvar-4-8" : "nvar-9-12");
    log.label(max_dep_vars == 0  ? "fn-constant"
              : max_dep_vars < 3 ? "fn-1-2-vars"
              : max_dep_vars < 6 ? "fn-3-5-vars"
                                 : "fn-6+-vars");
    log.count("nodes", long(t0.size()));

    // ---- encodings of the freshly built tree ----
    err = check_encodings(t0, tt0, sp, infix_top_parens, st, &finding);
    if (!err.empty())
        return log.fail("original tree: " + err, finding);
    err = check_sense_evaluator(t0, tt0, sp, log.hash, st);
    if (!err.empty())
        return log.fail("original tree: " + err);

    // ---- De Morgan on the alias-free tree (documented domain) ----
    {
        bool changed = false;
        err = check_demorgan(
            t0, tt0, sp, infix_top_parens, st, &changed, &finding);
        if (!err.empty())
            return log.fail("original tree: " + err, finding);
        if (changed)
            log.label("demorgan-rewrote");
    }

    // ---- scenario on a copy ----
    TT mask = tt_const(sp.W, true);
    auto restrict_mask = [&](TT const& node_tt, bool& val) {
        // keep the constraint set non-empty: flip the constant if needed
        TT m = mask;
        tt_and(m, val ? node_tt : tt_not(node_tt));
        if (!tt_any(m))
        {
            val = !val;
            m = mask;
            tt_and(m, val ? node_tt : tt_not(node_tt));
        }
        mask = std::move(m);
    };
    auto key_from = [&](unsigned b, size_t size) {
        // node in [2, size)
        return NodeId(CsgTree::size_type(2 + (size_t(b) * (size - 2)) / 256));
    };

    if (t0.size() <= 2)
        scen = 0;
    if (mode == 2 && scen == 1 && (sb[8] & 1u))
        scen = 2;
    CsgTree t = t0;
    std::vector<TT> tn;
    try
    {
        if (scen == 0)
            log.label("scenario-none");
        else if (scen == 1)
        {
            log.label("scenario-exchange-simplify");
            int nx = 1 + int(sb[0] % 3);
            NodeId minstart, prev_key;
            bool single_node_simplify = false;
            std::ostringstream what;
            for (int k = 0; k < nx; ++k)
            {
                NodeId key = key_from(sb[1 + k], t.size());
                unsigned how = sb[4 + k];
                if (k > 0 && how >= 176)
                {
                    // public single-node simplify of the first parent of
                    // the previously exchanged node (no full sweep)
                    NodeId parent;
                    for (size_t i = prev_key.get() + 1;
                         i < t.size() && !parent;
                         ++i)
                    {
                        Node const& nd = t[NodeId(i)];
                        if (auto* ng = std::get_if<Negated>(&nd))
                        {
                            if (ng->node == prev_key)
                                parent = NodeId(i);
                        }
                        else if (auto* jn = std::get_if<Joined>(&nd))
                        {
                            if (std::find(jn->nodes.begin(),
                                          jn->nodes.end(),
                                          prev_key)
                                != jn->nodes.end())
                                parent = NodeId(i);
                        }
                    }
                    if (parent)
                    {
                        what << "CsgTree::simplify(" << parent.get() << ") ";
                        t.simplify(parent);
                        single_node_simplify = true;
                        prev_key = parent;
                        continue;
                    }
                }
                prev_key = key;
                Node const cur = t[key];
                auto* j = std::get_if<Joined>(&cur);
                if (j && how < 80)
                {
                    // logically equivalent join: permuted, duplicated
                    // operands plus the operator's neutral constant
                    Joined e{j->op, j->nodes};
                    std::reverse(e.nodes.begin(), e.nodes.end());
                    e.nodes.push_back(e.nodes[how % e.nodes.size()]);
                    e.nodes.push_back(j->op == op_and
                                          ? CsgTree::true_node_id()
                                          : CsgTree::false_node_id());
                    what << "exchange(" << key.get() << ", equivalent join) ";
                    t.exchange(key, std::move(e));
                }
                else
                {
                    bool val = how & 1u;
                    restrict_mask(tt0[key.get()], val);
                    what << "exchange(" << key.get() << ", "
                         << (val ? "True" : "False") << ") ";
                    if (val)
                        t.exchange(key, True{});
                    else
                        t.exchange(key, False{});
                }
                if (!minstart || key < minstart)
                    minstart = key;
            }
            if (!eval_tree(t, sp, tn, err))
                return log.fail("after " + what.str() + ": " + err);
            err = compare_nodes(t, tn, tt0, mask, "exchange");
            if (!err.empty())
                return log.fail(what.str() + ": " + err);
            if (single_node_simplify)
                log.label("single-node-simplify");
            if (sb[7] < 100)
            {
                // encodings of the not yet simplified tree (aliases to
                // constants below joins): reachable "for testing purposes"
                log.label("encode-unsimplified");
                err = check_encodings(t, tn, sp, infix_top_parens, st, &finding);
                if (!err.empty())
                    return log.fail("after " + what.str() + ": " + err
                                        + "; tree " + tree_str(t),
                                    finding);
            }
            int var = int(sb[8] % 4);
            char const* vname = var == 0   ? "simplify(min exchanged)"
                                : var == 1 ? "simplify(2)"
                                : var == 2 ? "simplify_up(min exchanged)"
                                           : "simplify_up x2";
            what << vname;
            log.ds("scenario", what.str());
            if (g_trace)
                std::fprintf(stderr, "[c10 trace] %s\n", what.str().c_str());
            if (var == 0)
                simplify(&t, minstart);
            else if (var == 1)
                simplify(&t, NodeId{2});
            else
            {
                simplify_up(&t, minstart);
                if (var == 3)
                    simplify_up(&t, minstart);
            }
            if (!eval_tree(t, sp, tn, err))
                return log.fail("after " + what.str() + ": " + err);
            err = compare_nodes(t, tn, tt0, mask, vname);
            if (!err.empty())
                return log.fail(what.str() + ": " + err);
            if (var <= 1)
            {
                CsgTree t2 = t;
                if (simplify_up(&t2, NodeId{2}))
                    log.count("simplify_not_at_fixed_point");
            }
        }
        else
        {
            log.label("scenario-replace");
            int rounds = 1 + (sb[0] < 70);
            std::ostringstream what;
            for (int r = 0; r < rounds; ++r)
            {
                NodeId key;
                if (mode == 2 && r == 0 && sb[1] < 230)
                    key = g.exterior;
                else if (sb[1 + 3 * r] < 170 && !t.volumes().empty())
                    key = t.volumes()[(size_t(sb[2 + 3 * r])
                                       * t.volumes().size())
                                      / 256];
                else
                    key = key_from(sb[2 + 3 * r], t.size());
                if (key <= CsgTree::false_node_id())
                    key = NodeId{2};
                bool val = (mode == 2 && r == 0 && sb[1] < 230)
                               ? false
                               : bool(sb[3 + 3 * r] & 1u);
                bool allow_contradiction = sb[3 + 3 * r] >= 240;
                TT before = mask;
                if (allow_contradiction)
                {
                    TT m = mask;
                    tt_and(m, val ? tt0[key.get()] : tt_not(tt0[key.get()]));
                    mask = std::move(m);
                }
                else
                    restrict_mask(tt0[key.get()], val);
                what << "replace_and_simplify(" << key.get() << ", "
                     << (val ? "True" : "False") << ") ";
                log.ds(r == 0 ? "scenario" : "scenario2", what.str());
                if (g_trace)
                    std::fprintf(
                        stderr, "[c10 trace] %s\n", what.str().c_str());
                std::vector<NodeId> unknown;
                try
                {
                    if (val)
                        unknown = replace_and_simplify(&t, key, True{});
                    else
                        unknown = replace_and_simplify(&t, key, False{});
                }
                catch (RuntimeError const& e)
                {
                    if (tt_any(mask))
                        return log.fail(
                            what.str()
                            + "threw although consistent assignments "
                              "exist: "
                            + e.what());
                    log.label("replace-contradiction-rejected");
                    log.count("replace_contradiction_rejected");
                    return Verdict::rejected;
                }
                if (!tt_any(mask))
                {
                    // nothing can be said about the functions
                    log.label("replace-contradiction-accepted");
                    break;
                }
                if (!eval_tree(t, sp, tn, err))
                    return log.fail("after " + what.str() + ": " + err);
                err = compare_nodes(t, tn, tt0, mask, "replace_and_simplify");
                if (!err.empty())
                    return log.fail(what.str() + ": " + err);
                for (NodeId u : unknown)
                    if (!(u < t.size())
                        || !std::holds_alternative<Surface>(t[u]))
                        return log.fail(what.str()
                                        + ": returned 'unknown' node is not "
                                          "a surface");
                log.count("replace_unknown_surfaces", long(unknown.size()));
                // how much was eliminated
                long elim = 0;
                for (size_t i = 2; i < t.size(); ++i)
                    if (std::holds_alternative<Surface>(t0[NodeId(i)])
                        && !std::holds_alternative<Surface>(t[NodeId(i)]))
                        ++elim;
                log.count("replace_surfaces_eliminated", elim);
                if (elim > 0)
                    log.label("replace-eliminated-surfaces");
            }
        }

        if (scen != 0 && tt_any(mask))
        {
            if (!eval_tree(t, sp, tn, err))
                return log.fail("after scenario: " + err);
            // production order: calc_surfaces -> postfix with remapping ->
            // internal-surface flag, all on the rewritten tree
            err = check_encodings(t, tn, sp, infix_top_parens, st, &finding);
            if (!err.empty())
                return log.fail("rewritten tree: " + err + "; tree "
                                    + tree_str(t),
                                finding);
            bool has_alias = false;
            for (size_t i = 2; i < t.size(); ++i)
                has_alias = has_alias
                            || std::holds_alternative<Aliased>(t[NodeId(i)]);
            if (has_alias)
                log.label("rewritten-has-aliases");
            // De Morgan on a tree with alias nodes (exercised by the unit
            // test transform_negated_joins_with_aliases).  Its documented
            // precondition excludes double negations, which a single
            // simplification sweep can leave behind: those trees are
            // counted, not transformed.
            bool double_neg = false;
            for (size_t i = 2; i < t.size() && !double_neg; ++i)
                if (auto* ng = std::get_if<Negated>(&t[NodeId(i)]))
                {
                    NodeId dn = dealias(t, ng->node);
                    double_neg = dn && std::holds_alternative<Negated>(t[dn]);
                }
            if (double_neg)
            {
                log.label("rewritten-has-double-negation");
            }
            else
            {
                bool changed = false;
                err = check_demorgan(
                    t, tn, sp, infix_top_parens, st, &changed, &finding);
                if (!err.empty())
                    return log.fail("rewritten tree (has aliases: "
                                    + std::string(has_alias ? "yes" : "no")
                                        + "): " + err + "; input "
                                        + tree_str(t),
                                    finding);
                log.label("demorgan-on-rewritten");
            }
        }
    }
    catch (RuntimeError const& e)
    {
        return log.fail(std::string("unexpected RuntimeError: ") + e.what());
    }

    // ---- evidence ----
    log.count("logic_evaluator_calls", st.logic_evals);
    log.count("infix_evaluator_calls", st.infix_evals);
    log.count("sense_evaluator_calls", st.sense_evals);
    log.count("volumes_postfix_checked", st.vols_postfix);
    log.count("volumes_infix_string_checked", st.vols_infix_str);
    log.count("volumes_infix_tokens_checked", st.vols_infix_tok);
    log.count("volumes_flagged_simple", st.vols_simple);
    log.count("volumes_flagged_simple_nonvacuous", st.vols_simple_nonvacuous);
    log.count("volumes_surface_remapped", st.vols_remapped);
    if (st.vols_simple_nonvacuous)
        log.label("simple-flag-nonvacuous");
    if (st.vols_infix_tok)
        log.label("infix-evaluator-run");
    if (st.vols_remapped)
        log.label("surface-remapping-nontrivial");
    if (st.enc_with_alias)
        log.label("encoded-through-aliases");
    {
        int cap = int(celeritas::detail::LogicStack::max_stack_depth());
        int d = st.max_postfix_depth;
        log.label(d <= 2         ? "postfix-depth-1-2"
                  : d <= 8       ? "postfix-depth-3-8"
                  : d <= 20      ? "postfix-depth-9-20"
                  : d < cap - 4  ? "postfix-depth-21-below-capacity"
                  : d < cap      ? "postfix-depth-capacity-minus-1-4"
                  : d == cap     ? "postfix-depth-eq-capacity"
                                 : "postfix-depth-gt-capacity-skipped");
    }
    if (nontrivial)
        log.label(mode == 0   ? "nontrivial-dag"
                  : mode == 1 ? "nontrivial-chain"
                              : "nontrivial-prod");
    log.nontrivial = nontrivial;
    return nontrivial ? Verdict::pass : Verdict::trivial;
}

// Enumerated part: the production guard on the logic stack depth.
// For every stack depth D = 1..capacity+8 and three operator patterns a volume whose
// postfix logic needs exactly D stack entries is put into a UnitInput and
// handed to OrangeParams.  OrangeParams must reject it iff D >=
// LogicStack::max_stack_depth(); every accepted logic must be evaluated
// correctly by the runtime LogicEvaluator on all 2^nf sense vectors.
bool run_exhaustive(ExhaustiveResult& r)
{
    using celeritas::detail::LogicEvaluator;
    using celeritas::detail::LogicStack;
    r.scope
        = "postfix stack depth D = 1..capacity+8 x operator pattern {all &, "
          "all |, alternating} : OrangeParams(UnitInput) rejects iff D >= "
          "LogicStack::max_stack_depth() (= "
          + std::to_string(LogicStack::max_stack_depth())
          + " in this build); accepted logic evaluated by LogicEvaluator on "
            "all 2^10 sense vectors vs. a recursive reference";
    int const nf = 10;
    for (int pattern = 0; pattern < 3; ++pattern)
    {
        for (int D = 1; D <= int(LogicStack::max_stack_depth()) + 8; ++D)
        {
            // f0 f1 ... f(D-1) opD-2 ... op0  ==  f0 op0 (f1 op1 (...))
            std::vector<logic_int> lgc;
            std::vector<bool> neg(D);
            for (int k = 0; k < D; ++k)
            {
                lgc.push_back(logic_int(k % nf));
                neg[k] = (k * 7 + pattern) % 3 == 0;
                if (neg[k])
                    lgc.push_back(logic::lnot);
            }
            auto op_at = [&](int k) {
                return pattern == 0   ? logic::land
                       : pattern == 1 ? logic::lor
                       : (k % 2)      ? logic::land
                                      : logic::lor;
            };
            for (int k = D - 2; k >= 0; --k)
                lgc.push_back(op_at(k));
            if (postfix_depth(lgc) != D)
            {
                r.violated = true;
                r.msg = "harness error: constructed depth differs";
                return true;
            }

            UnitInput u;
            u.label = Label{"unit"};
            for (int k = 0; k < nf; ++k)
                u.surfaces.emplace_back(PlaneX{double(k + 1)});
            u.bbox = BBox{{-20, -20, -20}, {20, 20, 20}};
            VolumeInput ext;
            ext.label = Label{"exterior"};
            ext.faces = {LocalSurfaceId{0}};
            ext.logic = {0, logic::lnot};
            ext.zorder = ZOrder::exterior;
            VolumeInput deep;
            deep.label = Label{"deep"};
            for (int k = 0; k < std::min(nf, D); ++k)
                deep.faces.push_back(LocalSurfaceId(k));
            deep.logic = lgc;
            deep.bbox = u.bbox;
            deep.zorder = ZOrder::media;
            u.volumes = {ext, deep};
            OrangeInput inp;
            inp.tol = Tolerance<>::from_default();
            inp.universes.emplace_back(std::move(u));

            bool rejected = false;
            try
            {
                OrangeParams params(std::move(inp));
            }
            catch (RuntimeError const&)
            {
                rejected = true;
            }
            ++r.evaluations;
            if (g_trace)
                std::fprintf(stderr, "[c10 trace] D=%d pattern=%d rejected=%d\n", D, pattern, int(rejected));
            bool expect_reject = size_t(D) >= LogicStack::max_stack_depth();
            if (rejected != expect_reject)
            {
                r.violated = true;
                r.msg = "OrangeParams "
                        + std::string(rejected ? "rejected" : "accepted")
                        + " a volume whose logic needs a stack of "
                        + std::to_string(D) + " entries (capacity "
                        + std::to_string(LogicStack::max_stack_depth()) + ")";
                return true;
            }
            if (rejected)
                continue;
            LogicEvaluator eval_logic(make_span(lgc));
            std::vector<Sense> senses(nf);
            for (unsigned a = 0; a < (1u << nf); ++a)
            {
                for (int k = 0; k < nf; ++k)
                    senses[k] = to_sense(bool((a >> k) & 1u));
                bool ref = bool((a >> ((D - 1) % nf)) & 1u) != neg[D - 1];
                for (int k = D - 2; k >= 0; --k)
                {
                    bool lit = bool((a >> (k % nf)) & 1u) != neg[k];
                    ref = op_at(k) == logic::land ? (lit && ref)
                                                  : (lit || ref);
                }
                if (eval_logic(make_span(senses)) != ref)
                {
                    r.violated = true;
                    r.msg = "LogicEvaluator wrong at stack depth "
                            + std::to_string(D) + " pattern "
                            + std::to_string(pattern) + " assignment "
                            + std::to_string(a);
                    return true;
                }
            }
            if (D >= 3)
                ++r.nontrivial;
            if (D + 1 == int(LogicStack::max_stack_depth()) || D == 2)
                r.samples.push_back("depth " + std::to_string(D) + " pattern "
                                    + std::to_string(pattern)
                                    + ": accepted, 1024 assignments agree");
        }
    }
    return true;
}

}  // namespace verif
