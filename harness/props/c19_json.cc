// C19 — geometry input survives a JSON round trip unchanged.
//
// One case = an OrangeInput from one of
//   raw      rawgeo::generate, then mutated beyond what rawgeo emits
//            (tolerances, label extensions, surface labels, bounding zones,
//            unused surfaces of every type, transform kinds, z orders,
//            partially infinite bounding boxes)
//   bundled  every .org.json shipped with the repository (28 files)
//   api      construction-API models (geogen.hh), when available
// and the checks
//   (1) in -> json -> back : field-by-field comparator (doubles bitwise)
//   (2) json(back) == json(in) (object and text)
//   (3) through text: dump() -> parse -> read; operator<< -> operator>>
//   (4) OrangeParams(in) vs OrangeParams(back): identical pure-ray traces
//       (volume paths, distances bitwise) on 16 generated rays, for inputs
//       the runtime accepts.
// A crash / sanitizer report during read or write aborts the process and is
// reported by the driver.
#include <cmath>
#include <cstring>
#include <fstream>
#include <sstream>

#include "caselog.hh"

#if __has_include("geogen.hh") && !defined(VERIF_NO_GEOGEN)
#    define VERIF_HAVE_GEOGEN 1
#endif
#include "geofix.hh"
#include "geosrc.hh"
#include "orange/surf/Involute.hh"
#include "orange/transform/NoTransformation.hh"

namespace verif
{
char const* const kPropertyId = "C19";
char const* const kHarness = "c19_json";
size_t const kMaxBytes = 640;
char const* const kRule
    = "byte string -> OrangeInput (generated raw input with mutations: "
      "non-default tolerances, label extensions, missing surface labels, "
      "bounding zones, unused surfaces of all 18 types, "
      "NoTransformation/Translation/Transformation daughters, z orders, "
      "partially infinite boxes | one of the 28 bundled .org.json | "
      "construction-API model); oracle = field-by-field bitwise comparator "
      "written for this purpose + JSON idempotence + bitwise identical ray "
      "traces of the two OrangeParams; non-trivial = >= 2 universes or >= 1 "
      "non-plane surface or a non-identity daughter transform";

namespace
{
using namespace celeritas;
using nlohmann::json;

// F1: the JSON reader executes CELER_ASSERT_UNREACHABLE for `inv` surfaces
// (process abort under UBSan).  While open, inputs of that class are reported
// under the finding's key WITHOUT calling the reader.  Set to false after a
// repair in /repo: the same inputs are then read and compared like any other.
#ifndef C19_F1_OPEN
#    define C19_F1_OPEN 0
#endif
constexpr bool kF1Open = C19_F1_OPEN;
char const* const kF1Key = "F1-json-involute-read";

// The JSON format has no field for VolumeInput::obz (neither writer nor
// reader mention it; the runtime stores but never consults it while
// tracking).  false: a valid obz that comes back empty is counted, not judged.
constexpr bool kObzInFormat = false;

//---------------------------------------------------------------------------//
// Bundled files
struct Bundled
{
    std::string name;
    json raw;
    bool has_inv = false;
    bool loaded = false;
    std::string load_error;
    OrangeInput input;
};

std::vector<Bundled>& bundled()
{
    static std::vector<Bundled> v;
    return v;
}

bool json_has_involute(json const& j)
{
    auto u = j.find("universes");
    if (u == j.end())
        return false;
    for (auto const& uni : *u)
    {
        auto s = uni.find("surfaces");
        if (s == uni.end())
            continue;
        auto t = s->find("types");
        if (t == s->end())
            continue;
        for (auto const& ty : *t)
            if (ty.is_string() && ty.get<std::string>() == "inv")
                return true;
    }
    return false;
}

bool input_has_involute(OrangeInput const& in)
{
    for (auto const& uv : in.universes)
        if (auto const* u = std::get_if<UnitInput>(&uv))
            for (auto const& s : u->surfaces)
                if (std::holds_alternative<Involute>(s))
                    return true;
    return false;
}

//---------------------------------------------------------------------------//
// Comparator
bool same_bits(double a, double b)
{
    return std::memcmp(&a, &b, sizeof a) == 0;
}

struct Cmp
{
    std::string diff;  // first difference
    long obz_dropped = 0;
    long array_zero_translation = 0;
    long unit_bbox_null = 0;

    bool fail(std::string const& where, std::string const& what)
    {
        if (diff.empty())
            diff = where + ": " + what;
        return false;
    }

    template<class T>
    std::string str(T const& v)
    {
        std::ostringstream os;
        os.precision(17);
        os << v;
        return os.str();
    }

    bool dbl(std::string const& w, double a, double b)
    {
        if (same_bits(a, b))
            return true;
        return fail(w, str(a) + " became " + str(b));
    }

    template<class A, class B>
    bool span(std::string const& w, A const& a, B const& b)
    {
        if (a.size() != b.size())
            return fail(w, "size " + str(a.size()) + " became "
                               + str(b.size()));
        for (size_t i = 0; i < a.size(); ++i)
            if (!dbl(w + "[" + str(i) + "]", a[i], b[i]))
                return false;
        return true;
    }

    bool label(std::string const& w, Label const& a, Label const& b)
    {
        if (a.name != b.name || a.ext != b.ext)
            return fail(w, "label '" + a.name + "'@'" + a.ext + "' became '"
                               + b.name + "'@'" + b.ext + "'");
        return true;
    }

    bool bbox(std::string const& w, BBox const& a, BBox const& b)
    {
        if (bool(a) != bool(b))
            return fail(w, std::string("bbox ") + (a ? "non-null" : "null")
                               + " became " + (b ? "non-null" : "null"));
        if (!a)
            return true;  // both null
        return span(w + ".lower", a.lower(), b.lower())
               && span(w + ".upper", a.upper(), b.upper());
    }

    bool transform(std::string const& w, VariantTransform const& a,
                   VariantTransform const& b, bool in_array)
    {
        if (a.index() != b.index())
        {
            if (in_array && std::holds_alternative<NoTransformation>(b))
                if (auto const* t = std::get_if<Translation>(&a))
                {
                    auto d = t->data();
                    if (d[0] == 0 && d[1] == 0 && d[2] == 0)
                    {
                        // documented normalisation of the array format: it
                        // stores translations only, and a zero translation is
                        // read as "no transformation"
                        ++array_zero_translation;
                        return true;
                    }
                }
            return fail(w, "transform kind " + str(a.index()) + " became "
                               + str(b.index()));
        }
        return std::visit(
            [&](auto const& ta) {
                using T = std::decay_t<decltype(ta)>;
                auto const& tb = std::get<T>(b);
                return this->span(w + ".data", ta.data(), tb.data());
            },
            a);
    }

    bool volume(std::string const& w, VolumeInput const& a,
                VolumeInput const& b)
    {
        if (!label(w + ".label", a.label, b.label))
            return false;
        if (a.faces.size() != b.faces.size())
            return fail(w + ".faces", "size differs");
        for (size_t i = 0; i < a.faces.size(); ++i)
            if (a.faces[i] != b.faces[i])
                return fail(w + ".faces[" + str(i) + "]",
                            str(a.faces[i].unchecked_get()) + " became "
                                + str(b.faces[i].unchecked_get()));
        if (a.logic != b.logic)
        {
            std::string la, lb;
            for (auto t : a.logic)
                la += str(t) + " ";
            for (auto t : b.logic)
                lb += str(t) + " ";
            return fail(w + ".logic", "[" + la + "] became [" + lb + "]");
        }
        if (!bbox(w + ".bbox", a.bbox, b.bbox))
            return false;
        if (a.flags != b.flags)
            return fail(w + ".flags", str(a.flags) + " became " + str(b.flags));
        if (a.zorder != b.zorder)
            return fail(w + ".zorder", str(to_char(a.zorder)) + " became "
                                           + str(to_char(b.zorder)));
        if (kObzInFormat)
        {
            if (!bbox(w + ".obz.inner", a.obz.inner, b.obz.inner)
                || !bbox(w + ".obz.outer", a.obz.outer, b.obz.outer))
                return false;
            if (a.obz.transform_id != b.obz.transform_id)
                return fail(w + ".obz.transform_id", "differs");
        }
        else
        {
            if (b.obz)
                return fail(w + ".obz", "bounding zone appeared on read");
            if (a.obz)
                ++obz_dropped;
        }
        return true;
    }

    bool unit(std::string const& w, UnitInput const& a, UnitInput const& b,
              bool global)
    {
        if (a.surfaces.size() != b.surfaces.size())
            return fail(w + ".surfaces", "size " + str(a.surfaces.size())
                                             + " became "
                                             + str(b.surfaces.size()));
        for (size_t i = 0; i < a.surfaces.size(); ++i)
        {
            std::string ws = w + ".surfaces[" + str(i) + "]";
            if (a.surfaces[i].index() != b.surfaces[i].index())
                return fail(ws, "surface type differs");
            bool ok = std::visit(
                [&](auto const& sa) {
                    using S = std::decay_t<decltype(sa)>;
                    auto const& sb = std::get<S>(b.surfaces[i]);
                    return this->span(
                        ws + "(" + to_cstring(S::surface_type()) + ").data",
                        sa.data(), sb.data());
                },
                a.surfaces[i]);
            if (!ok)
                return false;
        }
        if (a.volumes.size() != b.volumes.size())
            return fail(w + ".volumes", "size differs");
        for (size_t i = 0; i < a.volumes.size(); ++i)
            if (!volume(w + ".volumes[" + str(i) + "]", a.volumes[i],
                        b.volumes[i]))
                return false;
        if (!global && !a.bbox && b.bbox == BBox::from_infinite())
        {
            // documented normalisation: the writer omits a unit's box when it
            // is "null or infinity" and the reader's default is infinite; the
            // runtime reads the box of the global unit only
            ++unit_bbox_null;
        }
        else if (!bbox(w + ".bbox", a.bbox, b.bbox))
            return false;
        if (a.daughter_map.size() != b.daughter_map.size())
            return fail(w + ".daughter_map", "size differs");
        {
            auto ia = a.daughter_map.begin();
            auto ib = b.daughter_map.begin();
            for (; ia != a.daughter_map.end(); ++ia, ++ib)
            {
                std::string wd = w + ".daughter_map["
                                 + str(ia->first.unchecked_get()) + "]";
                if (ia->first != ib->first)
                    return fail(wd, "parent volume became "
                                        + str(ib->first.unchecked_get()));
                if (ia->second.universe_id != ib->second.universe_id)
                    return fail(wd + ".universe_id", "differs");
                if (!transform(wd + ".transform", ia->second.transform,
                               ib->second.transform, false))
                    return false;
            }
        }
        if (a.surface_labels.size() != b.surface_labels.size())
            return fail(w + ".surface_labels", "size differs");
        for (size_t i = 0; i < a.surface_labels.size(); ++i)
            if (!label(w + ".surface_labels[" + str(i) + "]",
                       a.surface_labels[i], b.surface_labels[i]))
                return false;
        return label(w + ".label", a.label, b.label);
    }

    bool array(std::string const& w, RectArrayInput const& a,
               RectArrayInput const& b)
    {
        for (int ax = 0; ax < 3; ++ax)
            if (!span(w + ".grid[" + str(ax) + "]", a.grid[ax], b.grid[ax]))
                return false;
        if (a.daughters.size() != b.daughters.size())
            return fail(w + ".daughters", "size differs");
        for (size_t i = 0; i < a.daughters.size(); ++i)
        {
            std::string wd = w + ".daughters[" + str(i) + "]";
            if (a.daughters[i].universe_id != b.daughters[i].universe_id)
                return fail(wd + ".universe_id", "differs");
            if (!transform(wd + ".transform", a.daughters[i].transform,
                           b.daughters[i].transform, true))
                return false;
        }
        return label(w + ".label", a.label, b.label);
    }

    bool input(OrangeInput const& a, OrangeInput const& b)
    {
        if (a.universes.size() != b.universes.size())
            return fail("universes", "size differs");
        for (size_t i = 0; i < a.universes.size(); ++i)
        {
            std::string w = "universes[" + str(i) + "]";
            if (a.universes[i].index() != b.universes[i].index())
                return fail(w, "universe kind differs");
            if (auto const* ua = std::get_if<UnitInput>(&a.universes[i]))
            {
                if (!unit(w, *ua, std::get<UnitInput>(b.universes[i]), i == 0))
                    return false;
            }
            else if (!array(w, std::get<RectArrayInput>(a.universes[i]),
                            std::get<RectArrayInput>(b.universes[i])))
                return false;
        }
        return dbl("tol.rel", a.tol.rel, b.tol.rel)
               && dbl("tol.abs", a.tol.abs, b.tol.abs);
    }
};

//---------------------------------------------------------------------------//
// Mutations of a raw generated input
struct MutInfo
{
    bool geometry_preserving = true;  // navigation comparison is meaningful
    bool has_inv = false;
    bool rotated_array = false;
};

double wild_double(Choices& c)
{
    switch (c.int_in(0, 5))
    {
        case 0: return c.real_in53(-10, 10);
        case 1: return c.signed_log_uniform(1e-100, 1e100);
        case 2: return -0.0;
        case 3: return c.boolean() ? 4.9406564584124654e-324 : -2.5e-310;
        case 4: return Choices::step_ulps(c.real_in(-3, 3), int(c.int_in(0, 4)) - 2);
        default: return double(c.int_in(-5, 5));
    }
}

Real3 wild3(Choices& c)
{
    return Real3{wild_double(c), wild_double(c), wild_double(c)};
}

double pos_double(Choices& c)
{
    return c.boolean(0.7) ? c.real_in53(0.01, 20) : c.log_uniform(1e-100, 1e100);
}

// one surface of the requested type (0..17) with generated coefficients
VariantSurface make_surface(Choices& c, int type)
{
    switch (type)
    {
        case 0: return PlaneX{wild_double(c)};
        case 1: return PlaneY{wild_double(c)};
        case 2: return PlaneZ{wild_double(c)};
        case 3: return CCylX{pos_double(c)};
        case 4: return CCylY{pos_double(c)};
        case 5: return CCylZ{pos_double(c)};
        case 6: return SphereCentered{pos_double(c)};
        case 7: return CylX{wild3(c), pos_double(c)};
        case 8: return CylY{wild3(c), pos_double(c)};
        case 9: return CylZ{wild3(c), pos_double(c)};
        case 10: {
            double n[3];
            c.unit_vector(n);
            return Plane{Real3{n[0], n[1], n[2]}, wild_double(c)};
        }
        case 11: return Sphere{wild3(c), pos_double(c)};
        case 12: return ConeX{wild3(c), pos_double(c)};
        case 13: return ConeY{wild3(c), pos_double(c)};
        case 14: return ConeZ{wild3(c), pos_double(c)};
        case 15: return SimpleQuadric{wild3(c), wild3(c), wild_double(c)};
        case 16:
            return GeneralQuadric{wild3(c), wild3(c), wild3(c), wild_double(c)};
        default: {
            double tmin = c.real_in53(0, 3);
            double tmax = tmin + c.real_in53(0.01, 6);
            return Involute{Involute::Real2{c.real_in53(-5, 5),
                                            c.real_in53(-5, 5)},
                            c.real_in53(0.1, 5),
                            c.real_in53(0, 6.28),
                            c.boolean() ? Chirality::right : Chirality::left,
                            tmin,
                            tmax};
        }
    }
}

char const* const kSurfLabel[18]
    = {"unused:px", "unused:py", "unused:pz", "unused:cxc", "unused:cyc",
       "unused:czc", "unused:sc", "unused:cx", "unused:cy", "unused:cz",
       "unused:p", "unused:s", "unused:kx", "unused:ky", "unused:kz",
       "unused:sq", "unused:gq", "unused:inv"};

void mutate(OrangeInput& in, Choices& c, CaseLog& log, MutInfo& mi)
{
    // tolerances
    if (c.boolean(0.5))
    {
        int k = int(c.int_in(0, 2));
        if (k == 0)
            in.tol = Tolerance<>::from_relative(c.log_uniform(1e-12, 1e-3),
                                                c.log_uniform(1e-3, 1e3));
        else if (k == 1)
        {
            in.tol.rel = c.real_in53(1e-12, 1e-4);
            in.tol.abs = c.real_in53(1e-12, 1e-4);
        }
        else
        {
            in.tol.rel = Choices::step_ulps(1.0, -int(c.int_in(1, 3)));
            in.tol.abs = c.log_uniform(1e-300, 1e300);
            mi.geometry_preserving = false;  // absurd tolerance: compare only
        }
        log.mix(in.tol.rel);
        log.mix(in.tol.abs);
        log.label("mut:tolerance");
    }
    static char const* const exts[] = {"ext", "0x7f", "a.b", "U", "1"};
    for (auto& uv : in.universes)
    {
        if (auto* u = std::get_if<UnitInput>(&uv))
        {
            if (c.boolean(0.3))
            {
                u->label.ext = exts[c.index(5)];
                log.label("mut:label-ext");
            }
            if (c.boolean(0.3))
            {
                for (auto& v : u->volumes)
                    if (c.boolean(0.5))
                        v.label.ext = exts[c.index(5)];
                for (auto& l : u->surface_labels)
                    if (c.boolean(0.3))
                        l.ext = exts[c.index(5)];
                log.label("mut:label-ext");
            }
            if (c.boolean(0.15))
            {
                u->volumes[c.index(u->volumes.size())].label = Label{};
                log.label("mut:empty-label");
            }
            // unused surfaces of every type
            if (c.boolean(0.5))
            {
                int n = int(c.int_in(1, 4));
                for (int i = 0; i < n; ++i)
                {
                    int t = int(c.int_in(0, 17));
                    log.mix(t);
                    u->surfaces.push_back(make_surface(c, t));
                    u->surface_labels.push_back(
                        Label{"extra" + std::to_string(i)});
                    log.label(kSurfLabel[t]);
                    if (t == 17)
                        mi.has_inv = true;
                }
                // (the background volume's face list is left alone: the
                // surfaces are not part of any volume)
            }
            if (c.boolean(0.15))
            {
                u->surface_labels.clear();
                log.label("mut:no-surface-labels");
            }
            // z orders / flags of media volumes
            if (c.boolean(0.3))
            {
                for (auto& v : u->volumes)
                    if (v.zorder == ZOrder::media && c.boolean(0.5))
                        v.zorder = c.boolean() ? ZOrder::hole : ZOrder::array;
                log.label("mut:zorder");
            }
            // bounding boxes: partially / fully infinite (still enclosing)
            if (c.boolean(0.3))
            {
                constexpr double inf = std::numeric_limits<double>::infinity();
                for (auto& v : u->volumes)
                {
                    if (v.zorder == ZOrder::background || !c.boolean(0.5))
                        continue;
                    if (c.boolean(0.3))
                        v.bbox = BBox::from_infinite();
                    else if (v.bbox)
                    {
                        Real3 lo = v.bbox.lower(), hi = v.bbox.upper();
                        int ax = int(c.int_in(0, 2));
                        if (c.boolean())
                            lo[ax] = -inf;
                        else
                            hi[ax] = inf;
                        v.bbox = BBox{lo, hi};
                    }
                }
                log.label("mut:bbox-infinite");
            }
            // bounding zones
            if (c.boolean(0.2))
            {
                for (auto& v : u->volumes)
                {
                    if (v.zorder == ZOrder::background || !v.bbox
                        || !c.boolean(0.5))
                        continue;
                    bool finite = true;
                    for (int k = 0; k < 3; ++k)
                        finite = finite && std::isfinite(v.bbox.lower()[k])
                                 && std::isfinite(v.bbox.upper()[k]);
                    if (!finite)
                        continue;
                    v.obz.outer = v.bbox;
                    Real3 lo = v.bbox.lower(), hi = v.bbox.upper();
                    for (int k = 0; k < 3; ++k)
                    {
                        double m = (lo[k] + hi[k]) / 2;
                        lo[k] = m + (lo[k] - m) * 0.5;
                        hi[k] = m + (hi[k] - m) * 0.5;
                    }
                    v.obz.inner = BBox{lo, hi};
                    v.obz.transform_id = TransformId{0};
                }
                log.label("mut:obz");
            }
            // daughter transforms
            for (auto& kv : u->daughter_map)
            {
                auto& tr = kv.second.transform;
                if (auto* t = std::get_if<Translation>(&tr))
                {
                    auto d = t->data();
                    bool zero = d[0] == 0 && d[1] == 0 && d[2] == 0;
                    if (zero && c.boolean(0.5))
                    {
                        tr = NoTransformation{};
                        log.label("daughter:no-transformation");
                    }
                    else if (c.boolean(0.1))
                    {
                        tr = NoTransformation{};
                        mi.geometry_preserving = false;
                        log.label("daughter:no-transformation");
                    }
                    else
                        log.label("daughter:translation");
                }
                else if (std::holds_alternative<Transformation>(tr))
                    log.label("daughter:transformation");
            }
        }
        else
        {
            auto& r = std::get<RectArrayInput>(uv);
            if (c.boolean(0.3))
            {
                r.label.ext = exts[c.index(5)];
                log.label("mut:label-ext");
            }
            int k = int(c.pick({8, 2, 1}));
            if (k == 1)
            {
                // explicit no-transformation for a cell centred at the origin
                for (auto& d : r.daughters)
                    if (auto* t = std::get_if<Translation>(&d.transform))
                    {
                        auto dd = t->data();
                        if (dd[0] == 0 && dd[1] == 0 && dd[2] == 0)
                        {
                            d.transform = NoTransformation{};
                            log.label("array:no-transformation");
                        }
                    }
            }
            else if (k == 2)
            {
                // documented as not implemented by the writer
                auto& d = r.daughters[c.index(r.daughters.size())];
                Real3 t{0, 0, 0};
                if (auto* tt = std::get_if<Translation>(&d.transform))
                    t = tt->translation();
                d.transform = Transformation{
                    make_rotation(Axis::z, Turn{c.real_in(0.01, 0.99)}), t};
                mi.rotated_array = true;
                mi.geometry_preserving = false;
            }
        }
    }
}

//---------------------------------------------------------------------------//
// Pure-ray trace through a fixture: (path, distance) until outside
struct Step
{
    std::string path;
    double dist;
    bool boundary;
};

std::vector<Step> ray_trace(GeoFixture& f, Real3 const& p, Real3 const& d,
                            std::string* status)
{
    std::vector<Step> out;
    auto tv = f.track();
    tv = GeoTrackInitializer{p, d};
    if (tv.failed())
    {
        *status = "init-failed";
        return out;
    }
    if (tv.is_outside())
    {
        *status = "init-outside";
        return out;
    }
    for (int i = 0; i < 300; ++i)
    {
        Propagation pr = tv.find_next_step();
        out.push_back({f.nav_path().str(), pr.distance, pr.boundary});
        if (!pr.boundary)
        {
            *status = "no-boundary";
            return out;
        }
        tv.move_to_boundary();
        tv.cross_boundary();
        if (tv.failed())
        {
            *status = "cross-failed";
            return out;
        }
        if (tv.is_outside())
        {
            *status = "outside";
            return out;
        }
    }
    *status = "truncated";
    return out;
}

struct Source
{
    OrangeInput const* input = nullptr;
    OrangeInput owned;
    MutInfo mi;
    std::string name;
};

std::string what_of(std::exception const& e)
{
    std::string s = e.what();
    if (s.size() > 400)
        s.resize(400);
    return s;
}

Verdict roundtrip(Source& src, Choices& c, CaseLog& log)
{
    OrangeInput const& in = *src.input;
    bool has_inv = input_has_involute(in);
    if (has_inv)
        log.label("class:involute");

    // non-triviality classes
    {
        size_t nuniv = in.universes.size();
        bool nonplane = false, xform = false;
        for (auto const& uv : in.universes)
        {
            if (auto const* u = std::get_if<UnitInput>(&uv))
            {
                for (auto const& s : u->surfaces)
                    std::visit(
                        [&](auto const& ss) {
                            using S = std::decay_t<decltype(ss)>;
                            constexpr auto t = S::surface_type();
                            if (!(t == SurfaceType::px || t == SurfaceType::py
                                  || t == SurfaceType::pz
                                  || t == SurfaceType::p))
                                nonplane = true;
                        },
                        s);
                for (auto const& kv : u->daughter_map)
                    if (!std::holds_alternative<NoTransformation>(
                            kv.second.transform))
                        xform = true;
            }
            else
            {
                log.label("has:rect-array");
                for (auto const& d :
                     std::get<RectArrayInput>(uv).daughters)
                    if (!std::holds_alternative<NoTransformation>(d.transform))
                        xform = true;
            }
        }
        if (nuniv >= 2)
            log.label("has:nested-universes");
        if (nonplane)
            log.label("has:non-plane-surface");
        if (xform)
            log.label("has:daughter-transform");
        log.nontrivial = nuniv >= 2 || nonplane || xform;
    }

    // ---- write
    json j;
    try
    {
        j = in;
    }
    catch (RuntimeError const& e)
    {
        if (src.mi.rotated_array)
        {
            // CELER_NOT_IMPLEMENTED("writing rect arrays with transforms")
            log.label("rejected:rotated-array-daughter(not implemented)");
            return Verdict::rejected;
        }
        return log.fail("writer threw for a valid input: " + what_of(e));
    }
    catch (std::exception const& e)
    {
        return log.fail("writer threw for a valid input: " + what_of(e));
    }
    if (src.mi.rotated_array)
        return log.fail("writer accepted a rect array with a rotated daughter "
                        "although the format stores translations only");
    std::string text = j.dump();
    log.count("json_bytes", long(text.size()));

    if (has_inv && kF1Open)
        return log.fail("input contains an involute surface: the JSON reader "
                        "executes CELER_ASSERT_UNREACHABLE in "
                        "visit_surface_type (reader not called)",
                        kF1Key);

    // ---- read back (1)
    OrangeInput back;
    try
    {
        back = j.get<OrangeInput>();
    }
    catch (std::exception const& e)
    {
        return log.fail("reader rejects what the writer wrote: " + what_of(e));
    }
    Cmp cmp;
    if (!cmp.input(in, back))
        return log.fail("round trip changed " + cmp.diff);

    // ---- idempotence (2)
    json j2;
    try
    {
        j2 = back;
    }
    catch (std::exception const& e)
    {
        return log.fail("writer threw on the re-read input: " + what_of(e));
    }
    if (!(j2 == j))
    {
        // find the first differing top-level universe for the message
        std::string where = "(top level)";
        if (j2.contains("universes") && j["universes"].size()
                                            == j2["universes"].size())
            for (size_t i = 0; i < j["universes"].size(); ++i)
                if (j["universes"][i] != j2["universes"][i])
                {
                    where = "universes[" + std::to_string(i) + "]";
                    for (auto it = j["universes"][i].begin();
                         it != j["universes"][i].end(); ++it)
                        if (!j2["universes"][i].contains(it.key())
                            || j2["universes"][i][it.key()] != it.value())
                        {
                            where += "." + it.key();
                            break;
                        }
                    break;
                }
        return log.fail("json(read(json(in))) != json(in) at " + where);
    }
    if (j2.dump() != text)
        return log.fail("JSON objects compare equal but their text differs");

    // ---- through text (3)
    try
    {
        json jt = json::parse(text);
        if (!(jt == j))
            return log.fail("dump() -> parse() changed the JSON value");
        OrangeInput back2 = jt.get<OrangeInput>();
        Cmp cmp2;
        if (!cmp2.input(in, back2))
            return log.fail("round trip through text changed " + cmp2.diff);
        // public stream helpers (dump(0) / parse(istream))
        std::stringstream ss;
        ss << in;
        OrangeInput back3;
        ss >> back3;
        Cmp cmp3;
        if (!cmp3.input(in, back3))
            return log.fail("operator<< / operator>> changed " + cmp3.diff);
        // indented output, as InputBuilder's save_json writes it
        json ji = json::parse(j.dump(1));
        if (!(ji == j))
            return log.fail("indented dump -> parse changed the JSON value");
    }
    catch (std::exception const& e)
    {
        return log.fail("exception in the text round trip: " + what_of(e));
    }
    if (cmp.obz_dropped)
        log.label("obz-not-in-format(dropped)");
    log.count("obz_dropped", cmp.obz_dropped);
    if (cmp.array_zero_translation)
        log.label("array-zero-translation-normalised");
    if (cmp.unit_bbox_null)
        log.label("daughter-unit-null-bbox-normalised");

    // ---- navigation (4)
    if (!src.mi.geometry_preserving)
    {
        log.label("nav:skipped(non-preserving mutation)");
        return Verdict::pass;
    }
    std::unique_ptr<GeoFixture> fa, fb;
    try
    {
        fa = make_fixture("in", in);
    }
    catch (RuntimeError const& e)
    {
        log.label("nav:runtime-rejects-input");
        log.ds("runtime_reject", what_of(e));
        return Verdict::pass;
    }
    try
    {
        fb = make_fixture("back", std::move(back));
    }
    catch (std::exception const& e)
    {
        return log.fail("the runtime accepts the input but rejects its round "
                        "trip: " + what_of(e));
    }
    // params-level metadata
    {
        auto const& pa = *fa->params;
        auto const& pb = *fb->params;
        if (pa.volumes().size() != pb.volumes().size()
            || pa.surfaces().size() != pb.surfaces().size()
            || pa.universes().size() != pb.universes().size())
            return log.fail("OrangeParams sizes differ after the round trip");
        for (auto i : range(VolumeId{pa.volumes().size()}))
        {
            auto const& la = pa.volumes().at(i);
            auto const& lb = pb.volumes().at(i);
            if (la.name != lb.name || la.ext != lb.ext)
                return log.fail("OrangeParams volume label differs: '"
                                + la.name + "' vs '" + lb.name + "'");
        }
        for (int k = 0; k < 3; ++k)
            if (!same_bits(pa.bbox().lower()[k], pb.bbox().lower()[k])
                || !same_bits(pa.bbox().upper()[k], pb.bbox().upper()[k]))
                return log.fail("OrangeParams bbox differs");
        if (pa.max_depth() != pb.max_depth())
            return log.fail("OrangeParams max_depth differs");
    }
    long nsteps = 0;
    // rays: positions / directions from a generator seeded by the bytes
    uint64_t rs = c.bits(8);
    log.mix(rs);
    auto next = [&rs] {
        uint64_t z = (rs += 0x9e3779b97f4a7c15ull);
        z = (z ^ (z >> 30)) * 0xbf58476d1ce4e5b9ull;
        z = (z ^ (z >> 27)) * 0x94d049bb133111ebull;
        return double((z ^ (z >> 31)) >> 11) / 9007199254740992.0;
    };
    for (int r = 0; r < 16; ++r)
    {
        Real3 p, d;
        for (int k = 0; k < 3; ++k)
            p[k] = fa->lo[k] + (fa->hi[k] - fa->lo[k]) * next();
        if (next() < 0.8)
        {
            double mu = 1 - 2 * next(), phi = 2 * M_PI * next();
            double st = std::sqrt(std::fmax(0.0, 1 - mu * mu));
            d = Real3{st * std::cos(phi), st * std::sin(phi), mu};
            d = make_unit_vector(d);
        }
        else
        {
            d = Real3{0, 0, 0};
            d[int(next() * 3) % 3] = next() < 0.5 ? -1 : 1;
        }
        std::string sa, sb;
        auto ta = ray_trace(*fa, p, d, &sa);
        auto tb = ray_trace(*fb, p, d, &sb);
        auto where = [&] {
            std::ostringstream os;
            os.precision(17);
            os << " on ray " << r << " from (" << p[0] << ", " << p[1] << ", "
               << p[2] << ") along (" << d[0] << ", " << d[1] << ", " << d[2]
               << ")";
            return os.str();
        };
        if (sa != sb || ta.size() != tb.size())
            return log.fail("navigation differs after the round trip: "
                            + std::to_string(ta.size()) + " steps ending "
                            + sa + " vs " + std::to_string(tb.size())
                            + " steps ending " + sb + where());
        for (size_t i = 0; i < ta.size(); ++i)
        {
            if (ta[i].path != tb[i].path || ta[i].boundary != tb[i].boundary
                || !same_bits(ta[i].dist, tb[i].dist))
            {
                std::ostringstream os;
                os.precision(17);
                os << "navigation differs after the round trip at step " << i
                   << ": " << ta[i].path << " d=" << ta[i].dist << " vs "
                   << tb[i].path << " d=" << tb[i].dist << where();
                return log.fail(os.str());
            }
        }
        nsteps += long(ta.size());
    }
    log.count("nav_steps_compared", nsteps);
    log.label("nav:compared");
    return Verdict::pass;
}

}  // namespace

void setup()
{
    world_logger().level(LogLevel::critical);
    self_logger().level(LogLevel::critical);
    auto files = bundled_geometry_files();
    for (char const* extra :
         {"/repo/test/orange/data/inputbuilder-involute.org.json",
          "/repo/test/orange/data/inputbuilder-involute-cw.org.json",
          "/repo/test/orange/data/inputbuilder-involute-fuel.org.json",
          "/repo/test/orange/data/inputbuilder-universe-union-boundary.org.json",
          "/repo/test/orange/data/field-layers.org.json",
          "/repo/app/data/simple-cms.org.json"})
        files.push_back(extra);
    auto& v = bundled();
    for (auto const& path : files)
    {
        Bundled b;
        b.name = path.substr(path.rfind('/') + 1);
        std::ifstream is(path);
        if (!is)
        {
            std::fprintf(stderr, "note: cannot open %s\n", path.c_str());
            continue;
        }
        try
        {
            b.raw = json::parse(is);
        }
        catch (std::exception const& e)
        {
            std::fprintf(stderr, "note: cannot parse %s\n", path.c_str());
            continue;
        }
        b.has_inv = json_has_involute(b.raw);
        if (!(b.has_inv && kF1Open))
        {
            try
            {
                b.input = b.raw.get<OrangeInput>();
                b.loaded = true;
            }
            catch (std::exception const& e)
            {
                b.load_error = what_of(e);
            }
        }
        v.push_back(std::move(b));
    }
}

Verdict run_case(Choices& c, CaseLog& log)
{
    Source src;
#ifdef VERIF_HAVE_GEOGEN
    int kind = int(c.pick({5, 2, 3}));
#else
    int kind = int(c.pick({5, 2, 0}));
#endif
    log.mix(kind);
    try
    {
        if (kind == 1 && !bundled().empty())
        {
            log.label("src:bundled");
            size_t i = c.index(bundled().size());
            log.mix(i);
            Bundled& b = bundled()[i];
            log.ds("file", b.name);
            if (b.has_inv && kF1Open)
            {
                log.label("class:involute");
                return log.fail("bundled file " + b.name
                                    + " contains an involute surface: the "
                                      "JSON reader executes "
                                      "CELER_ASSERT_UNREACHABLE in "
                                      "visit_surface_type (reader not called)",
                                kF1Key);
            }
            if (!b.loaded)
                return log.fail("bundled file " + b.name
                                + " cannot be read: " + b.load_error);
            src.input = &b.input;
            src.name = b.name;
        }
        else if (kind <= 1)
        {
            log.label("src:raw");
            rawgeo::Built b = rawgeo::generate(c, log);
            src.owned = std::move(b.input);
            if (c.boolean(0.85))
                mutate(src.owned, c, log, src.mi);
            else
                log.label("raw:unmutated");
            src.input = &src.owned;
            src.name = "raw";
        }
#ifdef VERIF_HAVE_GEOGEN
        else
        {
            log.label("src:api");
            geogen::Limits lim;
            // input-level property: the known-finding classes of C09 concern
            // what the shapes mean, not how the input is serialised
            lim.allow_parallelepiped_skew = true;
            lim.allow_small_ellipsoid = true;
            lim.allow_flattened_twist = true;
            try
            {
                auto g = geogen::generate(c, log, lim);
                log.ds("geo", g.desc);
                src.owned = geogen::build_input(g);
            }
            catch (geogen::Excluded const&)
            {
                log.label("excluded-known-class");
                return Verdict::rejected;
            }
            catch (RuntimeError const& e)
            {
                log.label("rejected:construct");
                return Verdict::rejected;
            }
            src.input = &src.owned;
            src.name = "api";
        }
#endif
        if (!src.input)
            return Verdict::trivial;
        log.d("universes", src.input->universes.size());
        return roundtrip(src, c, log);
    }
    catch (RuntimeError const& e)
    {
        return log.fail("unexpected RuntimeError: " + what_of(e));
    }
    catch (DebugError const& e)
    {
        return log.fail("unexpected DebugError: " + what_of(e));
    }
}

bool run_exhaustive(ExhaustiveResult& r)
{
    // every bundled file, once, without navigation sampling bytes
    r.scope = "all bundled .org.json files";
    uint8_t zero[64] = {0};
    for (auto& b : bundled())
    {
        ++r.evaluations;
        Choices c(zero, sizeof zero);
        CaseLog log;
        if (b.has_inv && kF1Open)
        {
            r.known.emplace_back(kF1Key, b.name);
            continue;
        }
        if (!b.loaded)
        {
            r.violated = true;
            r.msg = b.name + ": " + b.load_error;
            return true;
        }
        Source src;
        src.input = &b.input;
        src.name = b.name;
        Verdict v = roundtrip(src, c, log);
        if (v == Verdict::violation)
        {
            if (!log.finding.empty())
            {
                r.known.emplace_back(log.finding, b.name);
                continue;
            }
            r.violated = true;
            r.msg = b.name + ": " + log.msg;
            return true;
        }
        if (log.nontrivial)
            ++r.nontrivial;
    }
    return true;
}

}  // namespace verif
