// C04 — every discrete interaction conserves energy and yields valid final
// states.  Models that need the bundled data files under
// /repo/test/celeritas/data: Livermore photoelectric (Z=19) with and without
// atomic relaxation (fluorescence only / fluorescence + Auger), Seltzer-Berger
// (Z=29, e- and e+), combined SB + relativistic brems (LPM on/off), CHIPS
// neutron elastic (Z=2, Z=29).
#include <algorithm>
#include <array>
#include <cmath>
#include <cstdarg>
#include <cstdlib>
#include <memory>

#include "interactor_fixture.hh"

#include "celeritas/em/interactor/AtomicRelaxationHelper.hh"
#include "celeritas/em/interactor/CombinedBremInteractor.hh"
#include "celeritas/em/interactor/LivermorePEInteractor.hh"
#include "celeritas/em/interactor/SeltzerBergerInteractor.hh"
#include "celeritas/em/model/CombinedBremModel.hh"
#include "celeritas/em/model/LivermorePEModel.hh"
#include "celeritas/em/model/SeltzerBergerModel.hh"
#include "celeritas/em/params/AtomicRelaxationParams.hh"
#include "celeritas/io/AtomicRelaxationReader.hh"
#include "celeritas/io/LivermorePEReader.hh"
#include "celeritas/io/NeutronXsReader.hh"
#include "celeritas/io/SeltzerBergerReader.hh"
#include "celeritas/neutron/interactor/ChipsNeutronElasticInteractor.hh"
#include "celeritas/neutron/model/ChipsNeutronElasticModel.hh"

namespace verif
{
char const* const kPropertyId = "C04";
char const* const kHarness = "c04_em_data";
size_t const kMaxBytes = 48;
char const* const kRule
    = "bytes -> (model, incident particle, material/element/isotope/cut-set "
      "from a fixed menu restricted to the bundled data (Z=19 PE+relaxation, "
      "Z=29 SB, Z=2/29 neutron), incident energy over the model's "
      "applicability interval [lower, upper) incl. end points, +-k ulp, shell "
      "binding energies and branch thresholds, direction incl. axis / "
      "near-axis / (0,0,1-k ulp), RNG seed with optional forced extreme "
      "canonical draws, free stack slots in {0,1,needed-1,needed,ample}); "
      "oracle = allocation protocol + long double energy ledger + validity "
      "predicate + model kinematics (photo-electron energy = E - B_shell, "
      "elastic two-body invariant) + bounded draws; non-trivial = the "
      "interaction changed the state (or took the explicit failure path)";

namespace
{
using namespace c04;
using Action = Interaction::Action;

char const* const data_dir = "/repo/test/celeritas/data";

enum Kind
{
    k_pe = 0,
    k_pe_fluor,
    k_pe_auger,
    k_sb,
    k_combined,
    k_combined_lpm,
    k_neutron,
    k_count
};
char const* const kind_name[k_count] = {"livermore-pe",
                                        "livermore-pe-fluor",
                                        "livermore-pe-auger",
                                        "seltzer-berger",
                                        "combined-brems",
                                        "combined-brems-lpm",
                                        "chips-neutron-elastic"};

struct Relax
{
    std::shared_ptr<AtomicRelaxationParams> params;
    HostVal<AtomicRelaxStateData> states;
    HostRef<AtomicRelaxStateData> states_ref;
};

std::unique_ptr<World> WP, WS, WN;
std::shared_ptr<LivermorePEModel> pe_model;
Relax relax[n_cutsets][2];  // [cutset][auger]
HostCRef<AtomicRelaxParamsData> empty_relax_params;
HostRef<AtomicRelaxStateData> empty_relax_states;
std::vector<double> pe_pivots;
std::vector<double> pe_binding;

std::shared_ptr<ImportedProcesses> sb_imported;
std::shared_ptr<SeltzerBergerModel> sb_model;
std::shared_ptr<CombinedBremModel> comb_model, comb_model_lpm;

std::shared_ptr<ChipsNeutronElasticModel> n_model;

constexpr double e_floor = 1e-6;
constexpr double e_high = 1e8;
constexpr double sb_lo = 1e-3;  // lowest incident energy of the SB tables
constexpr double sb_hi = 1e3;

Verdict evaluate(CaseLog& log,
                 Kind kind,
                 CaseInput const& in,
                 int iso,
                 RngPlan const& plan,
                 int free_mode);
}  // namespace

void setup()
{
    setenv("CELER_LOG", "error", 1);
    setenv("CELER_LOG_LOCAL", "error", 1);
    ActionId aid{0};

    // ---- photoelectric world: potassium only -------------------------------
    WP = std::make_unique<World>(
        std::vector<ElemDef>{{19, 39.0983, "K", 39}},
        std::vector<std::pair<double, std::vector<std::pair<int, double>>>>{
            {1e-5, {{0, 1.0}}}, {0.022, {{0, 1.0}}}},
        std::array<double, n_cutsets>{0.0, 2e-4, 1e-3, 4e-3});
    {
        LivermorePEReader read_pe(data_dir);
        pe_model = std::make_shared<LivermorePEModel>(
            aid, *WP->particles, *WP->materials, read_pe);
        AtomicRelaxationReader read_relax(data_dir, data_dir);
        for (int k = 0; k < n_cutsets; ++k)
        {
            for (int auger = 0; auger < 2; ++auger)
            {
                AtomicRelaxationParams::Input inp;
                inp.cutoffs = WP->cutoffs[k];
                inp.materials = WP->materials;
                inp.particles = WP->particles;
                inp.load_data = read_relax;
                inp.is_auger_enabled = bool(auger);
                Relax& r = relax[k][auger];
                r.params
                    = std::make_shared<AtomicRelaxationParams>(std::move(inp));
                resize(&r.states, r.params->host_ref(), 1);
                r.states_ref = r.states;
            }
        }
        auto const& xs = pe_model->host_ref().xs;
        auto const& el = xs.elements[ElementId{0}];
        pe_pivots = {el.thresh_lo.value(), el.thresh_hi.value(), 100.0};
        for (auto const& sh : xs.shells[el.shells])
        {
            pe_binding.push_back(sh.binding_energy.value());
            pe_pivots.push_back(sh.binding_energy.value());
        }
    }

    // ---- bremsstrahlung world: copper only -----------------------------------
    WS = std::make_unique<World>(
        std::vector<ElemDef>{{29, 63.546, "Cu", 63}},
        std::vector<std::pair<double, std::vector<std::pair<int, double>>>>{
            {0.141, {{0, 1.0}}}, {1.0, {{0, 1.0}}}, {1e-4, {{0, 1.0}}}});
    {
        std::vector<ImportProcess> procs;
        for (auto p : {pdg::electron(), pdg::positron()})
        {
            procs.push_back(WS->make_import_process(
                p,
                pdg::gamma(),
                ImportProcessClass::e_brems,
                {ImportModelClass::e_brems_sb, ImportModelClass::e_brems_lpm}));
        }
        sb_imported = std::make_shared<ImportedProcesses>(std::move(procs));
        SeltzerBergerReader read_sb(data_dir);
        sb_model = std::make_shared<SeltzerBergerModel>(
            aid, *WS->particles, *WS->materials, sb_imported, read_sb);
        comb_model = std::make_shared<CombinedBremModel>(
            aid, *WS->particles, *WS->materials, sb_imported, read_sb, false);
        comb_model_lpm = std::make_shared<CombinedBremModel>(
            aid, *WS->particles, *WS->materials, sb_imported, read_sb, true);
    }

    // ---- neutron world: helium and copper, two isotopes each -----------------
    WN = std::make_unique<World>(
        std::vector<ElemDef>{{2, 4.0026, "He", 4, 3, 0.001},
                             {29, 63.546, "Cu", 63, 65, 0.308}},
        std::vector<std::pair<double, std::vector<std::pair<int, double>>>>{
            {1e-2, {{0, 1.0}}},
            {0.141, {{1, 1.0}}},
            {0.1, {{0, 0.4}, {1, 0.6}}}});
    {
        NeutronXsReader read_el(NeutronXsType::el, data_dir);
        n_model = std::make_shared<ChipsNeutronElasticModel>(
            aid, *WN->particles, *WN->materials, read_el);
    }
}

namespace
{
Verdict report(CaseLog& log,
               Kind kind,
               CaseInput const& in,
               OracleResult const& o)
{
    std::string msg = std::string(kind_name[kind]) + ": " + o.msg;
    if (o.nan_seen && in.f8_dir)
        return log.fail(msg, "F8-rotate-nan");
    if (o.momentum_failed && in.near_axis && in.dir[1] < 0)
        return log.fail(msg, "F13-rotate-near-z-sinphi-sign");
    if (o.thr_ulp)
        return log.fail(msg, "F20-secondary-below-cut-ulp");
    // secondary energy exceeds the incident energy by rounding
    if (o.neg_ulp)
        return log.fail(msg, "F22-negative-outgoing-energy-ulp");
    return log.fail(msg);
}
}  // namespace

Verdict run_case(Choices& c, CaseLog& log)
{
    Kind kind = Kind(c.pick({12, 12, 14, 16, 10, 10, 16}));
    log.label(kind_name[kind]);
    World& w = kind <= k_pe_auger ? *WP : (kind == k_neutron ? *WN : *WS);
    CaseInput in;
    in.mat = int(c.index(w.num_materials));
    in.elcomp = int(c.index(w.mat_elems[in.mat].size()));
    in.cutset = int(c.index(n_cutsets));
    int iso = int(c.int_in(0, 1));
    auto const& cutv = w.cut[in.cutset][in.mat];
    double const cut_g = cutv[0];

    switch (kind)
    {
        case k_pe:
        case k_pe_fluor:
        case k_pe_auger: {
            in.particle = p_gamma;
            std::vector<double> piv = pe_pivots;
            if (cutv[0] > 0)
                piv.push_back(cutv[0]);
            in.energy = gen_energy(c, log, e_floor, true, e_high, piv);
            break;
        }
        case k_sb:
        case k_combined:
        case k_combined_lpm: {
            in.particle = c.boolean() ? p_positron : p_electron;
            double hi = kind == k_sb ? sb_hi : e_high;
            double lo = std::max(sb_lo, cut_g);
            bool lo_incl = !(cut_g >= sb_lo);
            std::vector<double> piv = {cut_g, 2 * cut_g, 1.0, 10.0};
            if (kind != k_sb)
                piv.push_back(sb_hi);
            if (!(lo < hi))
                return Verdict::rejected;
            in.energy = gen_energy(c, log, lo, lo_incl, hi, piv);
            break;
        }
        default: {
            in.particle = p_neutron;
            in.energy = gen_energy(
                c, log, 1e-5, true, 2e4, {0.104, 1.0, 20.0, 100.0, 1e3});
        }
    }
    gen_direction(c, log, in);
    RngPlan plan = gen_rng(c, log);
    // free-slot *mode*; the count is resolved when `needed` is known
    int free_mode = int(c.pick({60, 10, 10, 10, 10}));

    log.mix(int(kind));
    log.mix(int(in.particle));
    log.mix(in.energy);
    log.mix(in.dir[0]);
    log.mix(in.dir[1]);
    log.mix(in.dir[2]);
    log.mix(in.mat);
    log.mix(in.elcomp);
    log.mix(in.cutset);
    log.mix(iso);
    log.mix(free_mode);
    log.ds("model", kind_name[kind]);
    log.desc.precision(17);
    log.d("particle", int(in.particle));
    log.d("energy", in.energy);
    {
        double d[3] = {in.dir[0], in.dir[1], in.dir[2]};
        log.dv("dir", d, 3);
    }
    log.d("mat", in.mat);
    log.d("elcomp", in.elcomp);
    log.d("cutset", in.cutset);
    log.d("isotope", iso);
    log.d("free_mode", free_mode);

    Verdict v = evaluate(log, kind, in, iso, plan, free_mode);
    if (v == Verdict::violation
        && (log.finding.empty() || log.finding == "F8-rotate-nan")
        && plan.nforced > 0)
    {
        RngPlan plain = plan;
        plain.nforced = 0;
        CaseLog tmp;
        Verdict v2 = evaluate(tmp, kind, in, iso, plain, free_mode);
        if (v2 != Verdict::violation || !tmp.finding.empty())
            log.finding = std::string("F24-extreme-canonical-draw");
    }
    return v;
}

namespace
{
int resolve_free(CaseLog& log, int mode, int needed)
{
    switch (mode)
    {
        case 0: log.label("stack:ample"); return stack_capacity;
        case 1: log.label("stack:0"); return 0;
        case 2: log.label("stack:1"); return 1;
        case 3:
            log.label("stack:needed-1");
            return std::max(0, needed - 1);
        default: log.label("stack:needed"); return needed;
    }
}

Verdict evaluate(CaseLog& log,
                 Kind kind,
                 CaseInput const& in,
                 int iso,
                 RngPlan const& plan,
                 int free_mode)
{
    World& w = kind <= k_pe_auger ? *WP : (kind == k_neutron ? *WN : *WS);
    auto const& cutv = w.cut[in.cutset][in.mat];
    double const cut_g = cutv[0], cut_e = cutv[1];

    ParticleTrackView particle = w.make_particle(in.particle, in.energy);
    MaterialView material = w.make_material(in.mat);
    CutoffView cutoffs = w.make_cutoff(in.cutset, in.mat);
    ElementComponentId elcomp{ElementComponentId::size_type(in.elcomp)};
    ElementId el_id = material.element_id(elcomp);
    ElementView element = material.make_element_view(elcomp);

    ModelSpec spec;
    spec.name = kind_name[kind];
    OracleOpts opts;
    RunResult rr;
    long double target_mass = 0;

    switch (kind)
    {
        case k_pe:
        case k_pe_fluor:
        case k_pe_auger: {
            Relax* rx = kind == k_pe
                            ? nullptr
                            : &relax[in.cutset][kind == k_pe_auger ? 1 : 0];
            AtomicRelaxationHelper helper(
                rx ? rx->params->host_ref() : empty_relax_params,
                rx ? rx->states_ref : empty_relax_states,
                el_id,
                TrackSlotId{0});
            // documented allocation: 1 photo-electron + the relaxation maximum
            spec.needed = helper ? 1 + int(helper.max_secondaries()) : 1;
            spec.ns_min = 0;
            if (spec.needed > stack_capacity)
                return Verdict::rejected;
            if (helper)
                log.label("pe:relaxation-active");
            int free_slots = resolve_free(log, free_mode, spec.needed);
            rr = run_call(
                w, log, spec, free_slots, plan, [&](auto& rng, auto& a) {
                    LivermorePEInteractor interact(pe_model->host_ref(),
                                                   helper,
                                                   el_id,
                                                   particle,
                                                   cutoffs,
                                                   in.dir,
                                                   a);
                    return interact(rng);
                });
            break;
        }
        case k_sb: {
            spec.needed = 1;
            // (known-inefficient class F16: a small bound keeps the case cheap)
            spec.draw_bound = (in.particle == p_positron && in.energy < sb_hi
                               && in.energy - cut_g < 1e-5)
                                  ? 20000
                                  : 400000;
            opts.thr[p_gamma] = cut_g;
            int free_slots = resolve_free(log, free_mode, spec.needed);
            rr = run_call(
                w, log, spec, free_slots, plan, [&](auto& rng, auto& a) {
                    SeltzerBergerInteractor interact(sb_model->host_ref(),
                                                     particle,
                                                     in.dir,
                                                     cutoffs,
                                                     a,
                                                     material,
                                                     elcomp);
                    return interact(rng);
                });
            break;
        }
        case k_combined:
        case k_combined_lpm: {
            spec.needed = 1;
            // (known-inefficient class F16: a small bound keeps the case cheap)
            spec.draw_bound = (in.particle == p_positron && in.energy < sb_hi
                               && in.energy - cut_g < 1e-5)
                                  ? 20000
                                  : 400000;
            opts.thr[p_gamma] = cut_g;
            int free_slots = resolve_free(log, free_mode, spec.needed);
            rr = run_call(
                w, log, spec, free_slots, plan, [&](auto& rng, auto& a) {
                    CombinedBremInteractor interact(
                        (kind == k_combined ? comb_model : comb_model_lpm)
                            ->host_ref(),
                        particle,
                        in.dir,
                        cutoffs,
                        a,
                        material,
                        elcomp);
                    return interact(rng);
                });
            log.label(in.energy >= sb_hi ? "combined:relativistic-branch"
                                         : "combined:sb-branch");
            break;
        }
        default: {
            spec.needed = 0;
            int nis = int(w.iso_mass[el_id.get()].size());
            int k = std::min(iso, nis - 1);
            target_mass = w.iso_mass[el_id.get()][k];
            // kinetic energies are differences of *total* energies
            // (E_n + M - E_n'): 64 ulp of the largest term
            opts.ledger_abs = 64 * eps_d
                              * (target_mass + w.def.mass[p_neutron]
                                 + (long double)in.energy);
            IsotopeView target = element.make_isotope_view(
                IsotopeComponentId{IsotopeComponentId::size_type(k)});
            int free_slots = resolve_free(log, free_mode, spec.needed);
            rr = run_call(
                w, log, spec, free_slots, plan, [&](auto& rng, auto&) {
                    ChipsNeutronElasticInteractor interact(
                        n_model->host_ref(), particle, in.dir, target);
                    return interact(rng);
                });
            log.label(target.atomic_mass_number().get() > 6
                          ? "neutron:heavy-target"
                          : "neutron:light-target");
        }
    }
    if (rr.done)
    {
        // SB positron correction exp(alpha_Z (1/beta(cut) - 1/beta(k))): the
        // acceptance of the rejection loop vanishes like sqrt(E - cut)
        if (rr.unbounded && in.particle == p_positron && in.energy < sb_hi
            && in.energy - cut_g < 1e-5)
            log.finding = "F23-sb-positron-near-cut-rejection";
        return rr.verdict;
    }
    Outcome const& out = rr.out;

    OracleResult o = check_outcome(w, in, out, opts);
    if (!o.msg.empty())
        return report(log, kind, in, o);

    long double const Tin = in.energy;
    switch (kind)
    {
        case k_pe:
        case k_pe_fluor:
        case k_pe_auger: {
            if (out.action != Action::absorbed)
                return log.fail("livermore-pe: photon not absorbed");
            if (out.sec.empty())
            {
                // documented: every shell is bound more strongly than E
                if (out.deposit != in.energy)
                    return log.fail("livermore-pe: no photo-electron but "
                                    "deposit != incident energy");
                double bmin
                    = *std::min_element(pe_binding.begin(), pe_binding.end());
                if (!(in.energy < bmin))
                    log.label("pe:no-shell-above-lowest-binding");
                log.label("pe:no-shell");
                break;
            }
            Secondary const& e = out.sec[0];
            if (e.particle_id != w.pid[p_electron])
                return log.fail("livermore-pe: first secondary is not the "
                                "photo-electron");
            // photo-electron energy = E - B for one tabulated shell, B <= E
            long double b = Tin - (long double)e.energy.value();
            bool found = false;
            for (double bs : pe_binding)
            {
                if (fabsl(b - bs) <= 4 * eps_d * Tin && bs <= in.energy)
                    found = true;
            }
            if (!found)
                return log.fail(fmt("livermore-pe: E - T_e = %.17Lg is not a "
                                    "tabulated binding energy <= E",
                                    b));
            if (in.energy > 100 && !(e.direction == in.dir))
                return log.fail("livermore-pe: above 100 MeV the electron "
                                "must keep the photon direction");
            // relaxation products respect the production cuts
            long double relax_sum = 0;
            for (size_t i = 1; i < out.sec.size(); ++i)
            {
                Secondary const& s = out.sec[i];
                double thr = s.particle_id == w.pid[p_gamma]      ? cut_g
                             : s.particle_id == w.pid[p_electron] ? cut_e
                                                                  : -1;
                if (thr < 0)
                    return log.fail("livermore-pe: relaxation product is "
                                    "neither photon nor electron");
                if (s.energy.value() < thr)
                    return log.fail(fmt("livermore-pe: relaxation product %zu "
                                        "energy %.17g below its cut %.17g",
                                        i,
                                        s.energy.value(),
                                        thr));
                if (!(s.energy.value() > 0))
                    return log.fail("livermore-pe: zero-energy relaxation "
                                    "product");
                relax_sum += s.energy.value();
            }
            if (relax_sum > b * (1 + 1e-12L))
                return log.fail(fmt("livermore-pe: relaxation emits %.17Lg > "
                                    "binding energy %.17Lg",
                                    relax_sum,
                                    b));
            if (out.sec.size() > 1)
                log.label("pe:relaxation-products");
            if (out.sec.size() > 3)
                log.label("pe:cascade>=3");
            break;
        }
        case k_sb:
        case k_combined:
        case k_combined_lpm: {
            if (out.action != Action::scattered || out.sec.size() != 1
                || out.deposit != 0)
                return log.fail(std::string(kind_name[kind])
                                + ": wrong action / multiplicity / deposit");
            if (out.sec[0].particle_id != w.pid[p_gamma])
                return log.fail(std::string(kind_name[kind])
                                + ": secondary is not a photon");
            if (out.sec[0].energy.value() < 1.01 * cut_g)
                log.label("near-cut-secondary");
            if (out.sec[0].energy.value() > 0.99 * in.energy)
                log.label("brems:tip");
            break;
        }
        default: {
            if (out.action != Action::scattered || !out.sec.empty())
                return log.fail("neutron-elastic: wrong action / secondaries");
            // elastic two-body invariant: the recoiling nucleus' four
            // momentum (E_in + M - E_out, p_in - p_out) has mass M
            long double mn = w.def.mass[p_neutron];
            long double M = target_mass;
            long double pin = momentum_of(Tin, mn);
            long double pout = momentum_of(out.energy, mn);
            long double ct = (long double)out.direction[0] * in.dir[0]
                             + (long double)out.direction[1] * in.dir[1]
                             + (long double)out.direction[2] * in.dir[2];
            long double er = (Tin + mn) + M - ((long double)out.energy + mn);
            long double pr2 = pin * pin + pout * pout - 2 * pin * pout * ct;
            long double m2 = er * er - pr2;
            // sensitivity of m2 to the direction: 2 pin pout sin(th) dth with
            // dth <= 3e-8 (rotate near the axis), plus 1e-9 relative on the
            // momentum scale
            long double st = sqrtl(fmaxl(0.0L, 1 - ct * ct));
            long double tol = 2 * pin * pout * (st * 3e-8L + 1e-13L)
                              + 1e-9L * (pin * pin + M * fabsl(er - M))
                              + 1e-12L * M * M;
            if (fabsl(m2 - M * M) > tol)
            {
                OracleResult k;
                k.momentum_failed = true;
                k.msg = fmt("elastic two-body invariant violated: recoil "
                            "mass^2 %.17Lg vs target %.17Lg (tol %.3Lg)",
                            m2,
                            M * M,
                            tol);
                return report(log, kind, in, k);
            }
            // recoil kinetic energy = deposit
            if (fabsl((er - M) - out.deposit) > 1e-9L * Tin + 1e-12L * M)
                return log.fail("neutron-elastic: deposit != recoil energy");
            if (ct < 0)
                log.label("neutron:backward");
        }
    }
    log.nontrivial = true;
    return Verdict::pass;
}
}  // namespace

bool run_exhaustive(ExhaustiveResult&)
{
    return false;
}

}  // namespace verif
